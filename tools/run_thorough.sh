#!/bin/bash
# runs the thorough tier of every claimed property (2 at a time); prints VARIANT/CONFIG/SUMMARY lines per property
cd /verif
one() {
  out=$(/verif/bin/tpcheck -prop $1 -tier thorough 2>&1); rc=$?
  echo "$out" | grep -E "^(VARIANT|CONFIG|SUMMARY|ERROR|VIOLATION|UNDECIDED|violated)" | cut -c1-260
  echo "rc[$1]=$rc"
}
export -f one
python3 -c "import json;print('\n'.join(c['property_id'] for c in json.load(open('/verif/MANIFEST.json'))['checks']))" | xargs -P 2 -I{} bash -c 'one {}'
