#!/bin/bash
# runs the thorough tier of every claimed property sequentially; prints VARIANT/CONFIG/SUMMARY lines
cd /verif
for p in $(python3 -c "import json;print(' '.join(c['property_id'] for c in json.load(open('/verif/MANIFEST.json'))['checks']))"); do
  /verif/bin/tpcheck -prop $p -tier thorough 2>&1 | grep -E "^(VARIANT|CONFIG|SUMMARY|ERROR|VIOLATION|UNDECIDED|violated)" | cut -c1-260
  echo "rc[$p]=${PIPESTATUS[0]}"
done
