#!/usr/bin/env python3
"""try_variants.py <glob-or-names...> : applies each hand-written mutation (variants/*.json) in a throw-away worktree of /repo HEAD
and checks that every expected rule reports it (quick tier of the variant's property, restricted to the expected rules)."""
import sys, json, glob, subprocess, os, concurrent.futures
names = sys.argv[1:]
files = []
for n in names:
    files += sorted(glob.glob(n if "/" in n else f"/verif/variants/{n}"))
def one(args):
    k, f = args
    v = json.load(open(f))
    wt = f"/tmp/wt-var{k}"
    subprocess.run(["git","-C","/repo","worktree","remove","--force",wt],capture_output=True)
    subprocess.run(["git","-C","/repo","worktree","add","-q","--detach",wt,"HEAD"],check=True)
    try:
        p = os.path.join(wt, v["file"]); s = open(p).read()
        if s.count(v["old"]) != 1:
            return f"{v['name']}: SKIPPED (anchor text occurs {s.count(v['old'])} times)"
        open(p,"w").write(s.replace(v["old"], v["new"]))
        out = subprocess.run(["/verif/bin/tpcheck","-repo",wt,"-prop",v["property"],"-rules",",".join(v["expect_rules"]),"-no-evidence"],capture_output=True,text=True).stdout
        hit = {r for r in v["expect_rules"] if any((l.startswith("violated rule="+r+" ") or l.startswith("UNDECIDED rule="+r+" ")) for l in out.splitlines())}
        miss = set(v["expect_rules"]) - hit
        return f"{v['name']}: " + ("fired " + ",".join(sorted(hit)) if not miss else "MISSED " + ",".join(sorted(miss)))
    finally:
        subprocess.run(["git","-C","/repo","worktree","remove","--force",wt],capture_output=True)
with concurrent.futures.ThreadPoolExecutor(4) as ex:
    for r in ex.map(one, [(i % 4 if False else i, f) for i, f in enumerate(files)]):
        print(r, flush=True)
