#!/usr/bin/env python3
"""keep_seed.py <id> <src-seed-dir> <property> <test-regex> <needs> <caught_by|MISSED> : copies a confirmed seeded change to /verif/seeded/<id>/ with meta.json"""
import sys, os, shutil, json, datetime
sid, src, prop, test, needs, caught = sys.argv[1:7]
dst = f"/verif/seeded/{sid}"
shutil.rmtree(dst, ignore_errors=True)
os.makedirs(dst)
shutil.copy(f"{src}/patch.diff", f"{dst}/patch.diff")
shutil.copytree(f"{src}/demo", f"{dst}/demo")
if os.path.exists(f"{src}/NOTES.md"):
    shutil.copy(f"{src}/NOTES.md", f"{dst}/NOTES.md")
# demo files are kept with a .txt suffix so that `go` never picks them up under /verif
for root, _, files in os.walk(f"{dst}/demo"):
    for f in files:
        if f.endswith(".go"):
            os.rename(os.path.join(root, f), os.path.join(root, f + ".txt"))
meta = {
    "id": sid, "breaks_property": prop,
    "needs_to_manifest": needs,
    "demonstration": {"test": test, "placement": "copy demo/*.go.txt (dropping .txt) into the repository root of a scratch worktree made by tools/mk_scratch.sh, unless NOTES.md says otherwise"},
    "confirmed": {"by": "tools/confirm_seed.sh", "when": datetime.date.today().isoformat(),
                  "what_was_run": ["demo without patch: passes", "go build of shipped packages with patch: ok", "pinned suite (codec, mixer/websocket/websocket, socket, utils, xfer/gzip) with patch: passes", "demo with patch: fails"]},
    "origin": "fresh sub-agent given only the property text and a scratch worktree",
    "checker_result": caught,
}
json.dump(meta, open(f"{dst}/meta.json", "w"), indent=1)
print("kept", dst)
