#!/bin/bash
# runs every claimed check (from MANIFEST.json), 4 at a time; prints non-ok lines and one summary line per property
cd /verif
tier=${1:-quick}
one() {
  out=$(bash -c "$1" 2>&1); rc=$?
  echo "$out" | grep -E '^(violated|UNDECIDED|KNOWN|ERROR)' | cut -c1-220
  echo "rc=$rc $(echo "$out" | grep SUMMARY)"
}
export -f one
python3 -c "
import json,sys
m=json.load(open('/verif/MANIFEST.json'))
for c in m['checks']:
    print(c['quick_cmd'] if '$tier'=='quick' else c.get('thorough_cmd',c['quick_cmd']))
" | xargs -P 2 -d '\n' -I{} bash -c 'one "{}"'
