#!/bin/bash
# usage: confirm_seed.sh <seed-dir (with patch.diff, demo/)> <TestRegex> [dest-dir-relative (default .)] [pkg (default .)]
# Confirms in a scratch worktree of /repo HEAD: demo passes without the patch; with the patch the code
# compiles, the pinned test packages pass and the demo fails.
sd="$1"; re="$2"; dest="${3:-.}"; pkg="${4:-.}"
export GOFLAGS=-mod=mod GOPROXY=off GOSUMDB=off GOTOOLCHAIN=local; unset GOWORK
wt=$(/verif/tools/mk_scratch.sh ${CONFIRM_WT:-confirm} 2>/dev/null | tail -1)
cd $wt || exit 2
mkdir -p $dest; cp -r $sd/demo/* $dest/
echo "== demo WITHOUT patch"; go test $SEED_TESTFLAGS -count=1 -run "$re" $pkg 2>&1 | grep -v '^\[20' | tail -4
(git apply $sd/patch.diff 2>/dev/null || git apply --3way $sd/patch.diff) || { echo "patch does not apply on HEAD"; exit 3; }; git reset -q
echo "== build WITH patch"; go build . ./socket ./codec/... ./utils/... ./xfer/... ./proto/... ./plugin/... ./mixer/websocket/... && echo build-ok
echo "== pinned tests WITH patch"; go test -count=1 ./codec ./mixer/websocket/websocket ./socket ./utils ./xfer/gzip 2>&1 | tail -5
echo "== demo WITH patch"; go test $SEED_TESTFLAGS -count=1 -run "$re" $pkg 2>&1 | grep -v '^\[20' | tail -6
cd /; git -C /repo worktree remove --force $wt
