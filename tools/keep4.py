#!/usr/bin/env python3
"""keep4.py <id> <src-seed-dir> <property> <test-regex> <needs> <expected_rules comma> <first_result> : round-4 wrapper of keep_seed.py"""
import sys, json, subprocess
sid, src, prop, test, needs, rules, first = sys.argv[1:8]
subprocess.check_call(["python3", "/verif/tools/keep_seed.py", sid, src, prop, test, needs, rules])
p = f"/verif/seeded/{sid}/meta.json"
m = json.load(open(p))
m["expected_rules"] = [r for r in rules.split(",") if r]
m["round"] = 4
m["first_result"] = first
json.dump(m, open(p, "w"), indent=1)
