#!/usr/bin/env python3
"""Prints the prompt handed to a fresh sub-agent for one property (text of the property only, nothing from /verif)."""
import json, sys
pid, port = sys.argv[1], sys.argv[2]
letters = sys.argv[3] if len(sys.argv) > 3 else "A,B"   # names of the two changes
emph = sys.argv[4] if len(sys.argv) > 4 else ""   # optional extra steering (generic, nothing from /verif)
LA, LB = letters.split(",")
p = next(json.loads(l) for l in open('/verif/properties.jsonl') if json.loads(l)['id'] == pid)
wt = f"/tmp/wt-{pid}"
print(f"""You are helping to evaluate a verification tool for the Go RPC framework henrylee2cn/teleport (eRPC v6, module github.com/henrylee2cn/erpc/v6). You have your own scratch git worktree of the repository at {wt} . Work ONLY inside {wt} (never touch /repo or /verif, do not read /verif).

Here is a semantic property of the framework that is supposed to hold:

  Title: {p['title']}
  Statement: {p['statement']}
  It must hold: {p['quantifier']['text']}

YOUR TASK: produce TWO different, independent, realistic source changes ("{LA}" and "{LB}") to the framework (non-test .go files in {wt}) such that each change BREAKS this property, while the code still compiles and the existing tests still pass. Think of the kind of regression a maintainer could plausibly introduce in a refactor, optimisation or "cleanup" (moving a statement, dropping a lock or a check, reordering two calls, reusing a buffer, forgetting a reset, weakening a condition, using the wrong variable ...). Prefer subtle changes that need something specific to manifest - a particular interleaving, a fault at a particular point, a multi-step sequence of operations, an unusual input, or two cooperating sites that each look fine alone - NOT changes that any ordinary use would expose at once. Keep each change small (a few lines; at most ~30). {LA} and {LB} should be in different functions/mechanisms if possible. {emph}

For each change also write a DEMONSTRATION: a Go test (or small program) that FAILS with the change applied and PASSES on the unchanged code, showing the property violation through the public API / observable behaviour. If an interleaving is needed you may force it in the demo with sleeps, hooks through plugins, custom net.Conn wrappers, etc. (the demo may be as contrived as needed; the source change must not be).

Environment facts (important):
- No network. Before every go command: export GOFLAGS=-mod=mod GOPROXY=off GOSUMDB=off GOTOOLCHAIN=local; unset GOWORK
- go.mod in your worktree already has an extra `replace` line for a patched qtls module (needed so that binaries importing the root package can run under this Go version). It is hidden from git diff. Do not remove it, do not include go.mod in your patches. NEVER use `git stash` (the stash is shared by all worktrees of the repository and other agents work in sibling worktrees) and never `git checkout -- .` / `git reset --hard` on the whole tree (they wipe the hidden go.mod line): to get back to the unchanged code use `git apply -R <your patch>` or `git checkout -- <the files you edited>`. If go.mod ever loses the replace line, re-append: replace github.com/marten-seemann/qtls-go1-15 => /opt/qtls-patched
- `go build ./...` fails on examples/ (several main packages per dir) - that is expected, ignore examples/. Check compilation with: go build . ./socket/... ./codec/... ./utils/... ./xfer/... ./proto/... ./plugin/... ./mixer/websocket/... && go vet . 2>/dev/null; true
- The existing tests that must still pass with your change: go test -count=1 ./codec ./mixer/websocket/websocket ./socket ./utils ./xfer/gzip   . Additionally the other package tests (root package, plugin/*, proto/*, mixer/websocket) should not be newly broken by your change; they bind fixed TCP ports (e.g. 9090), so run them one package at a time (go test -p 1) and tolerate 'address already in use' failures that also happen without your change.
- For your own demos use TCP ports in the range {port}-{int(port)+40} on 127.0.0.1 only (other agents use other ranges). PeerConfig has ListenPort / LocalIP etc; see README.md and the *_test.go files for how to start a server peer (erpc.NewPeer(erpc.PeerConfig{{ListenPort: ...}}); go srv.ListenAndServe()) and a client peer (cli.Dial(":port")).
- Demonstration tests may live in the root package directory (package erpc_test or package erpc for white-box access) or in a new directory; they are not part of the patch.

DELIVERABLES - create directory {wt}/_seed/ containing, for X in {{{LA},{LB}}}:
  _seed/X/patch.diff    - `git diff` of ONLY the framework source change (apply-able with `git apply` on a clean checkout of HEAD; no demo files, no go.mod)
  _seed/X/demo/         - the demonstration file(s), with the relative path where each must be placed noted in NOTES.md
  _seed/X/NOTES.md      - which clause of the property breaks, what is needed for it to manifest (interleaving / input / sequence), exact commands to run the demo, and the observed output with and without the change
Verify yourself, starting from a clean tree (git stash / git checkout -- . as needed, keep _seed/ untracked): (1) without the patch the demo passes, (2) with the patch the code compiles, the 5 pinned test packages pass, and the demo fails. Leave the worktree CLEAN (source reverted, demo files only under _seed/) when you finish. In your final answer, summarise {LA} and {LB} in a few lines each (file, function, what was changed, how it manifests).""")
