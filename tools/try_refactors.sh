#!/bin/bash
# usage: try_refactors.sh <dir-with-R*/patch.diff> ... -- behaviour-preserving refactorings: every alarm is a false alarm.
# Uses a plain scratch worktree (not /repo) so seeds can be tried in /repo at the same time.
wt=/tmp/wt-ref
[ -d $wt ] || git -C /repo worktree add -q --detach $wt HEAD
props=${PROPS:-$(python3 -c "import json;print(' '.join(c['property_id'] for c in json.load(open('/verif/MANIFEST.json'))["checks"]))")}
for d in "$@"; do
 for pd in $d/R*/patch.diff; do
  git -C $wt checkout -q -- . ; git -C $wt clean -fdq; git -C $wt checkout -q --detach $(git -C /repo rev-parse HEAD)
  if ! git -C $wt apply $pd; then echo "== $pd DOES NOT APPLY"; continue; fi
  echo "== $pd"
  printf '%s\n' $props | xargs -P 3 -I{} bash -c "/verif/bin/tpcheck -prop {} -no-evidence -repo $wt 2>&1 | grep -E '^(violated|UNDECIDED|ERROR)|rules=.* violations=[1-9]' | cut -c1-260"
 done
done
git -C $wt checkout -q -- .
