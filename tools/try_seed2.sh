#!/bin/bash
# usage: try_seed2.sh <patch.diff> <prop> [<prop>...]  -- like try_seed.sh but never touches /repo: the patch is applied
# in a throw-away worktree of /repo HEAD and the checker is pointed at it (-repo).
patch="$1"; shift
wt=/tmp/wt-try-$$
git -C /repo worktree add --detach $wt HEAD >/dev/null 2>&1 || exit 2
cd $wt
if ! git apply "$patch" 2>/tmp/apply.err; then echo "PATCH DOES NOT APPLY"; cat /tmp/apply.err; cd /; git -C /repo worktree remove --force $wt; exit 3; fi
for p in "$@"; do
  /verif/bin/tpcheck -repo $wt -prop $p -no-evidence | grep -E "^(violated|UNDECIDED|KNOWN|SUMMARY|ERROR)" | cut -c1-400
done
cd /; git -C /repo worktree remove --force $wt
