#!/usr/bin/env python3
"""Generates /verif/MANIFEST.json from the table below (kept here so the manifest is always valid and in step with the rules the checker registers)."""
import json, subprocess, sys, os

ALL = ["C%02d" % i for i in range(1, 21)]

# property -> (technique, decided clauses (short), not decided / assumptions)
CLAIMED = {
 "C11": ("loop-direction agreement between encoder and decoder, guarded reflect indexing, error-use analysis of the library delegations, kind-set comparison, buffer-alias value flow, sync.Pool escape analysis (go/ssa)",
         "C11.1 form codec encodes and decodes slice/array elements in the same direction; C11.2 destination arrays are indexed only after a Len() guard that rejects surplus values; C11.3 every library encode/decode error is returned and every Unmarshal can fail; C11.4 plain codec formats and parses the same set of kinds; C11.5 decoded values never alias the input buffer; C11.6 an encoder never returns bytes living in a pooled object it releases; C11.7 sequence fields are encoded element-wise (whole-field formatting only for non-sequence kinds); C11.8 library decoders use the resetting entry point; C11.9 the plain codec stores the input bytes untransformed",
         "round-trip EQUALITY over the value domain (numeric extremes, UTF-8, nested structs) and decoder totality for arbitrary bytes are value-level and are NOT decided: only these structural necessary conditions are; json/xml/protobuf/thrift library behaviour"),
 "C13": ("shape analysis of the bounded retry counter, dominance chains of the redial closure, path search of the retry loop, path-sensitive drain check (go/ssa)",
         "C13.1 Next counts down, every re-dial guarded by Next() of a counter built from RedialTimes; C13.2 redial callback/closure order, user id kept, old connection closed; C13.3 exhaustion closes, enters RedialFailed, reports false, and the session ends; C13.4 trigger de-duplication order; C13.5 pending calls are cancelled before any redial; C13.6 writes are retried only for the closed sentinel after a successful redial; C13.7 redial installed iff configured; C13.8 a written call keeps an OK status; C13.9 a writer redials only from {PassiveClosed, RedialFailed} (never under a live reader), the reader from PassiveClosing; C13.10 in-flight calls cancelled exactly once; C13.11 a redial takes no second overloader slot",
         "behaviour over fault sequences and timing (the rules give the ordering/ownership preconditions, not a proof over schedules); the residual window between a failed reader redial and its PassiveClosed store; server availability windows"),
 "C17": ("method-set check, value identity of the encrypted envelope, dominance of decrypt/refusal edges, constant-key and string-guard matching, path search (go/ssa)",
         "C17.1 nine stages implemented, push/reply variants delegate; C17.2 on every OK path after marshalling the body is replaced by a fresh Encrypt{version, AESEncrypt(key, marshalled body)}; C17.3 accept decision per secure/plain edge and its use on the write side; C17.4 decrypt only on version match with the plugin's key, refusals are fresh non-OK statuses, restore+decode only after; C17.5 unmarked messages untouched; C17.6 pre-write stage once per outgoing message; C17.7 ctx.stat is recorded by the handler closures only on the non-OK edge (the plugin skips encryption on a non-nil status); C17.8 container switch before the body stages; C17.9 httproto keeps header metadata (X-Secure) when the target has a query",
         "confidentiality of the bytes, AES mode and key handling in goutil; a secure-marked message with an EMPTY cipher version is accepted without decryption (crafted input, outside the key-pair quantification; noted in DESIGN); bytes on the wire"),
 "C19": ("must-pass/exactly-once path search, value identity of the forwarded argument and returned body, closure-shape checks, interval analysis of the mapped code range, dominance (go/ssa)",
         "C19.1 forwarded exactly once per path; C19.2 raw body in, backend body out through invocation-local storage, unknown routes bind raw bytes; C19.3 metadata forwarded and copied back (nil-guarded); C19.4 real IP added iff absent; C19.5 the whole 1xx class becomes a NEW 502 status (with C15.1: never mutated in place); C19.6 installed as unknown handlers iff configured; C19.7 no pooled object outlives its Put; C19.8 (*session).Call issues exactly one AsyncCall",
         "equality of proxied and direct outcomes as values (codec/body bytes through two hops); the user-supplied forwarder"),
 "C14": ("discipline analysis from a frozen guard table: field access sets (atomic consistency), intraprocedural must-locksets with one-level caller summaries, publication-order path search, wait-group/lock sharing (go/ssa)",
         "C14.1 any field accessed atomically somewhere is accessed atomically everywhere (all shipped structs; frozen set present); C14.2 guarded-field table: accesses under the declared mutex (promoted net.Conn methods of socket: known finding F11); C14.3 nothing written to a callCmd after completion is signalled; C14.4 thrift counters under their direction's lock; C14.5 WaitGroup Add/Wait share a mutex (known finding F13); C14.6 no plain store to a session field after the session was published (index insert / read loop start); C14.7 a completed call does not point into the pooled read context; C14.8 websocket control frames under the write lock",
         "data races on state outside the guard table; real happens-before over schedules (static race freedom is undecidable here: what is decided is the locking/atomic discipline the code itself declares); third-party code"),
 "C18": ("path-sum enumeration of the limiter counters, atomic access sets, data-dependence of the release on per-session evidence, return-shape analysis (go/ssa)",
         "C18.1 limiter counters atomic-only; C18.2 take/release path sums and the admission comparison; C18.3 a slot is released only in PostDisconnect, only with admission evidence for that session, recorded only on the admit edge; C18.4 refusal edges return fresh non-OK statuses, qps take admits only with a token; C18.5 limiters created only when none exists (updates keep the counters); C18.6 ticker swap order; C18.7 every refill tick stores a clamped token count; C18.8 a slot is released only when the session ends (not on a loss followed by a redial); C18.9 a redial takes no second slot",
         "the rate bound over time (token refill arithmetic against wall-clock intervals); newQPSLimiter divides by zero for QPSInterval > 1s (crash at configuration time, outside the rules); limit updates racing takes beyond the locking discipline (C14.2)"),
 "C05": ("per-protocol reach-set tables (writer/reader agreement), counter-direction sibling check, call classification of connection reads, buffer-alias value flow (go/ssa)",
         "C05.1 all nine Proto implementations cover the full field table in Pack and Unpack (frozen exemptions; websocket status = known finding F4); C05.2 thrift size counters per direction; C05.3 one connection write per frame; C05.5 only full reads on receive paths; C05.6 service method / body never alias the pooled read buffer (incl. gjson sub-strings); C05.7 the filter pipe is undone in the reverse of the order it was applied; C05.8 packed payloads never alias released pooled buffers; C05.9 lengths are never truncated into a narrower wire field; C05.10 httproto request line before headers; C05.11 thrift headers per message; C05.12 websocket unmasking positional across reads",
         "round-trip equality over the message space as values (length boundaries, metadata multimap order, header fields that strconv.Quote renders: status/meta query strings are ASCII by construction), third-party thrift/protobuf framing, chunking inside library readers"),
 "C06": ("dominance of the read-limit check over wire-sized allocations, symbolic bound checking (linear forms over SSA atoms + interval analysis refined by dominating comparisons), error-use analysis, cycle analysis of accumulating reads, defer/recover scan, no-go static reachability (go/ssa)",
         "C06.1 every wire-sized buffer (ChangeLen/make) only after an error-checked SetSize; C06.2 SetSize errors honoured on all receive paths; C06.3 accumulating read loops are bounded; C06.4 recover barriers on reader, handlers and public send/receive entry points; C06.5 raw length arithmetic checked; C06.6 handler goroutines never close their own session synchronously; C06.7 allocated <= the quantity the limit check examined, proved symbolically with wrap-aware linear forms and intervals; C06.8 no narrow-integer arithmetic on receive paths can leave its type; C06.9 input ending during Close leaves no caller blocked (drain in ActiveClosing); C06.10 the log renderer (running after the recover barriers) has no unguarded look-ahead index",
         "absence of decoder panics (index out of range on short frames is contained by C06.4, not excluded); allocations inside the thrift/protobuf decoders (the gzip filter's output is bounded: C06.11); websocket frames are bounded by the websocket layer's own MaxPayloadBytes; wedging by a slow peer (timeouts)"),
 "C12": ("loop-direction matching, error-flow analysis on receive paths, dominance, pooled-buffer escape analysis (go/ssa)",
         "C12.1 OnPack descending / OnUnpack ascending, errors stop; C12.2 Append refuses unregistered ids and its error is checked on every receive path; C12.3 reply inherits the caller's pipe before handler/stages/writes; C12.4 md5 verify guards the data; C12.5 every protocol carries the pipe; C12.6 no pooled buffer escapes its release; C12.7 the reply's pipe is never reset on the reply path; C12.8 the pipe section is measured without wrapping arithmetic (a pipe of 255 filters); C12.9 shipped filters keep no per-message state; C12.10 thrift pipe header cleared and stored per message",
         "exact inversion for all payloads (gzip/md5 library correctness); user-registered filters"),
 "C04": ("constant tables, sibling-shape comparison of the eight handler closures, phi-origin/dominance analysis of the caller-visible status, per-protocol reach-sets (go/ssa)",
         "C04.1 code table and sentinel construction; C04.2 error reply sets status and clears body+codec before the write; C04.3 handler closures plumb status/body uniformly; C04.4 caller's status = wire status, else recorded read/decode error, else hook verdict, never overwriting an earlier veto; C04.6 every Proto implementation reads and decodes the status (websocket sub-protocols: known finding F4); C04.7 panic -> 500; C04.8 refusal -> 102 sentinel; C04.9 Status(true) allocates; C04.10 pooled inputs never get a status object (re-)installed, so a published call status is stable; C04.11 the decode of a received status is never conditional on the field's length or content; C04.12 AsyncCall holds the per-call mutex across the write; C04.13 thrift status header cleared and stored per message",
         "value fidelity of the status encodings (code/msg/cause bytes through query/JSON escaping); user handlers"),
 "C10": ("guarded-insert (value identity + dominance + no-return), field access sets per namespace, return-shape analysis (go/ssa)",
         "C10.1 table insert guarded by the lookup of the same handler's name in the same pass; conflict edge is fatal; C10.2 CALL/PUSH separation end to end (reg table choice, registration entries with their makers, getCall/getPush access sets, session wiring, bindCall/bindPush); C10.3 exact-match / unknown / not-found return shape; C10.4 returned names are the inserted keys; C10.5 a service-method name is sent whole or refused; C10.6 httproto applies X-Mtype after the request-line default",
         "the (prefix, identifier) -> name mapping table and its determinism (value-level: only executing the mapper could compare it with the documented table); reflection-based signature checks of the makers"),
 "C09": ("sibling-shape comparison of the 23 stage functions, frozen who-may-call tables, stage-order reachability, veto-edge path search, expression normalisation of the container layout (go/ssa)",
         "C09.1 every stage function: ascending range, one assertion to its own interface, one call on the ok edge, first failure stops and is returned; C09.2 refresh = left++middle++right, appendLeft/Right sides, derived container shares left/right, own middle, refresh chained transitively; C09.3 derived lists own their storage; C09.4 each stage called exactly from its frozen callers, once, in stage order, post-write only after success; C09.5 veto edges reach no later stage/handler/write and the vetoing status is kept; C09.6 container selection (global first, handler's container before body stages); C09.7 handler only on OK edges; C09.8 reply-side stages under the per-call lock; C09.9 derived containers derive from the deriving router's own container",
         "plugin programs themselves; PostNewPeer/PostReg/PostListen fatal paths; ordering between different sessions"),
 "C01": ("value-identity, dominance, lockset, who-may-call and buffer-alias value-flow analyses over go/ssa",
         "C01.1 seq atomic-only; C01.2 pending-table key = frame seq = one atomic increment, stored before every write; C01.3 reply bound by the frame's own seq, body decoded into that call's result, metadata copied not aliased; C01.4 every WriteMessage under writeLock, Pack only from WriteMessage; C01.5 single reader, Unpack only from ReadMessage; C01.6 no use of a context after putContext; C01.7 pooled controllers: Get/bind/Call/Put order, fresh controller per pool object; C01.8 nothing derived without copy from a decoder's input buffer is stored into the decoded value (taint over []byte/string/url.Values/reflect.Value with library alias summaries); C01.9 no message/context/buffer is released to its pool twice by one activation; C01.10 recycled metadata slots fully overwritten; C01.11 no released pooled buffer is returned by a filter/protocol",
         "interleaving-level non-interference (the rules give the lock/ownership preconditions, not a proof over schedules); internals of sync.Map, encoding/json, encoding/xml, protobuf and thrift decoders (assumed to copy); third-party Proto implementations"),
 "C15": ("field-based, context-insensitive value-flow (taint) analysis over go/ssa + VTA/CHA call edges: sources = every package-level *Status, sinks = status mutators",
         "C15.1 no mutator (SetCode/SetMsg/SetCause/Clear/DecodeQuery/UnmarshalJSON/TagStack/store through pointer) in shipped code is applied to a value that may alias a predefined status; C15.2 the decode-into-message sites own their status (origin of every message handed to ReadMessage/Unpack; no SetStatus on pooled inputs; Status(true) allocates); C15.3 sentinels assigned only by their initialiser",
         "user code and third-party plugins; statuses reaching user handlers by reference (documented as shared); aliasing is field-based (over-approximate): a report names the flow path"),
 "C08": ("ordering analysis of the close protocol: dominance chains, exactly-once release by path search, constant tables, loop-shape matching (go/ssa)",
         "C08.1 closeLocked: CAS -> delete -> notify -> wait handlers -> wait calls -> ActiveClosed -> socket.Close -> hook as one dominance chain; C08.2 handler wait-group Add before dispatch, exactly one release on the dispatched / Go()-failed paths, Push pairing, getContext/putContext count iff withWg; C08.3 goonRead = {Ok,ActiveClosing}, checkStatus membership, graceCtxWait; C08.4 peer.Close: listeners first, one counted async Close per session, exactly count results awaited; C08.5 entered handlers always reply; C08.6 the read loop gates only on {Ok, ActiveClosing}; C08.7 every Close queues on the session lock and reaches closeLocked; C08.8 calls issued before closing are cancelled when the connection is lost during Close",
         "'returns only after' as a timing statement; handlers entered after the wait returned (Add concurrent with Wait at zero is C14.5); the peer's behaviour"),
 "C16": ("order-of-establishment analysis: dominance of hook-success edges, gate predicates, who-may-call/value-escape analysis, return-value provenance (go/ssa)",
         "C16.1 the read loop starts only on the hook-success edge at the four establishment sites and nowhere else; C16.2 Pre* session I/O only on the statusPreparing edge; C16.3 binding (per-message entry) installed only on pooled contexts, never called directly, socket readers are the read loop and PreReceive; C16.4 PostAccept returns nil only without checker, else the checker's status or the send failure; PostDial returns the bearer's status; C16.5 once-closures: per-invocation flag, CAS, misuse status, I/O only after success (with C07.3/C07.6/C07.11 and C09.1 for hook order/veto); C16.6 rejected connections leave the index; C16.7 a panicking hook rejects (the recover branch sets the returned result); C16.8 every accept/dial plugin is consulted (the OK edge continues the loop)",
         "bytes a client pipelines behind the auth frame stay buffered in the socket reader and are processed after a successful exchange (run-time question); user checker functions; RawPush is not gated (documented for hook use)"),
 "C03": ("dispatch / exactly-once analysis: who-may-call, exhaustive constant-dispatch by value tracking, dominance on OK edges, must-pass-through for the reply, static reachability (go/ssa)",
         "C03.1 handle() has one caller, once per message; C03.2 handle()/binding() dispatch exactly {Call,Reply,Push}, everything else disconnects / is marked not-allowed; C03.3 handler at most once and only on the OK edges of c.stat and of the body hook, handler fields read nowhere else; C03.4 writeReply on every normal path, second write only after a failed first, written flag only after success; C03.5 panic path: recover, 500 copy, reply iff nothing written; C03.6 reply seq/type from the request; C03.7 push paths cannot reach a write; C03.8 every nil return of bindCall leaves a non-OK status; C03.9 read-error classification in the read loop; C03.10 an error reply is always encodable; C03.11 a Pack that fails has written nothing (or tears the transport down), so the fallback reply is never a second reply; C03.12 a CALL the read loop cannot dispatch (goroutine pool exhausted) is answered with an error reply; C03.13 the write deadline is re-armed for every frame",
         "behaviour of handler programs and plugins; concurrent arrivals are covered only through the single-reader/once-per-iteration structure (C01.5, C03.1)"),
 "C02": ("must-pass-through / dominance / who-may-call analysis of the call-completion protocol over go/ssa, with path-sensitive status tracking",
         "C02.1 completion effects (send, close(doneChan), WaitGroup.Done) only in done/cancel, once each in order; C02.2 callers of done/cancel and their guards; C02.3 completion under the per-call mutex at all three sites; C02.4 bindReply marks the call replied on every path after Lock; C02.5 the lock taken in bindReply is released on every path of the read loop incl. Go() failure and the panic edge; C02.6 disconnect drains the pending table on every non-closed path before close/redial/hook; C02.7 a published call is written or completed on every return of AsyncCall; C02.8 read-loop recover+readDisconnected barrier; C02.9 call wait-group Add/Done pairing; C02.10 bindReply re-validates; C02.11 written call keeps an OK status; C02.12 the pending table is an AtomicMap (drainable); C02.13 Push always releases the handler wait-group",
         "a full user-supplied completion channel blocking done() (documented caller obligation); timing; that decoders terminate; panicking plugins inside AsyncCall (synthetic recover return excluded)"),
 "C07": ("typestate / transition-table analysis: field encapsulation, CAS-source tables, dominance, path-sensitive status-set tracking, call-graph reachability (go/ssa + VTA)",
         "C07.1 status/didCloseNotify encapsulated and atomic-only; C07.2 all 12+ transition sites: closing states entered only by CAS from explicit (or loaded, non-closed) sources, closed states never left without redial, blind stores only where the path owns the state; C07.3 Ok only after accept/dial hooks (incl. callback/dialWithRetry composition); C07.4 close-notify once; C07.5/9 write gate {Ok}|(ActiveClosing & Reply) and sentinel refusal; C07.6 index insert after hooks, delete on both close paths, SetID order; C07.7 takeover: nothing that may reach hub.delete after the new session is stored; C07.8 disconnect hook exactly once per close path and no other caller; C07.10 read gates; C07.11 reject edges leave the index; C07.12 a panicking dial/accept hook fails the establishment; C07.13 ModifySocket keeps the id read before the reset",
         "conformance of whole histories to the state machine; SetID collision policy; the residual race of a passively disconnecting old session deleting a re-used id; timing"),
 "C20": ("static reset-completeness + pool dominance/must-pass analysis over go/ssa",
         "C20.1 every field of Message, handlerCtx, Args, XferPipe, ByteBuffer, socket is reset to its default on every path of the reset function (a new field without reset fails by construction); C20.2 each sync.Pool has the reset on its only Put or only Get side; C20.3 getContext = clean then reInit on all paths, reInit installs fresh swap + session; C20.4/5 no pooled buffer/object outlives its release; C20.6 recycled metadata slots are fully overwritten; C20.7 no object is released twice; delegated resets (SetID(\"\")) are followed into the setter",
         "user-defined fields of pooled controller structs (by design); value semantics of the called sub-reset methods beyond their own C20.1 instance; exempt fields listed with reasons in rules_c20.go"),
}

# clauses added in round 4 (appended to the decided-clauses text of the property)
EXTRA4 = {
 "C01": "C01.12 bodies and service methods over the JSON-framed protocols reach the frame only through an escaper covering the reader's table (= C05.13); C01.13 thrift write headers cleared and stored per message (= C12.10)",
 "C02": "C02.14 a redial attempt rejected by a dial hook hands the session back in Redialing (from Preparing the closing path waits for the very call that triggered the redial)",
 "C04": "C04.14 over HTTP the JSON form of a non-OK status is offered to the announced filter before it is written (error replies keep the caller's pipe)",
 "C05": "C05.13 the JSON-framed protocols escape body and service method with an escaper that distinguishes the quote, the backslash and every control byte (writer's table covers the gjson reader's); C05.14 a buffer made on a pool miss is as empty as a recycled one",
 "C06": "C06.11 every read-to-exhaustion of a compress/* reader is bounded by io.LimitReader(configured limit) and SetMessageSizeLimit forwards the limit to the filters; C06.12 every variable index on the log path has a lower bound >= 0 (interval analysis)",
 "C07": "C07.14 at every establishment site the index insert dominates the Ok store or lies on every path after it; C07.15 the framework's own close on an unsupported message type is asynchronous (= C06.6)",
 "C08": "C08.9 every established session is indexed (peer Close finds it; = C07.14); C08.10 the write deadline is re-armed for every frame (= C03.13)",
 "C09": "C09.10 AsyncCall holds the per-call mutex from the publication to its return, ordering PostWriteCall before the reply stages (= C02.3)",
 "C11": "C11.10 encoded bodies reach a JSON frame only through a byte-transparent escaper (= C05.13)",
 "C14": "C14.9 no released pooled buffer is returned to a caller that still frames it (= C12.6)",
 "C16": "C16.9 ModifySocket keeps the id a hook assigned, so a rejected connection is removed from the index under the right key (= C07.13)",
 "C18": "C18.11 the disconnect hook (slot release) comes after the handler waits and socket.Close in closeLocked (= C08.1); C18.12 nothing reachable from qpsLimiter.update writes the token count",
 "C12": "C12.11 an error reply over HTTP is packed with the announced filter (= C04.14); C12.12 the gzip filter's inflate bound follows the configured limit on every path of its setter (= C06.11)",
 "C13": "C13.12 a redialed session is re-indexed on every path (= C07.14); C13.13 a rejected redial attempt restores Redialing (= C02.14); C13.14 ModifySocket installs and records the same protocol list (what the websocket redial hook re-installs); C13.9 now also demands that writers can redial from both PassiveClosed and RedialFailed",
 "C19": "C19.9 the query parser overwrites both fields of a recycled slot (= C20.6; the proxy puts X-Real-IP behind the caller's pairs); C19.10 the forwarding session recovers from RedialFailed (= C13.9)",
 "C20": "C20.8 a buffer made on a pool miss is empty (zero-length B, nothing but Reset called on it)",
}
for _p, _t in EXTRA4.items():
    _tech, _dec, _nd = CLAIMED[_p]
    CLAIMED[_p] = (_tech, _dec + "; " + _t, _nd)

NOT_YET = "rules for this property are not implemented yet in this revision of the checker (see DESIGN.md section 3 for the plan)"
NA = {
}

def main():
    rules = subprocess.run(["/verif/bin/tpcheck", "-list"], capture_output=True, text=True).stdout.split("\n") if os.path.exists("/verif/bin/tpcheck") else []
    have = {l.split()[0] for l in rules if l.strip()}
    checks, na = [], []
    for pid in ALL:
        if pid in CLAIMED and pid in have:
            tech, decided, notdec = CLAIMED[pid]
            checks.append({
                "property_id": pid,
                "quick_cmd": f"/verif/bin/tpcheck -prop {pid} -tier quick",
                "thorough_cmd": f"/verif/bin/tpcheck -prop {pid} -tier thorough",
                "evidence_file": f"/verif/evidence/{pid}.json",
                "replay_cmd_template": "/verif/bin/tpcheck -replay {path}",
                "engine": "tpcheck",
                "level_claimed": {
                    "category": "other",
                    "text": "Static analysis of /repo's type-checked source (go/ssa CFG, dominators, path search, VTA call graph, field access sets). Decides structural clauses that are each a necessary condition of the property, on every path / call edge / field of the current tree; does NOT decide the behaviour itself. Clauses: " + decided,
                    "design_ref": "DESIGN.md section 3." + pid,
                },
                "level_note": "Not decided: " + notdec + ". Trusted base: go/types + go/ssa (x/tools v0.29.0), the frozen anchor/idiom tables in /verif/checker/rules_*.go; dependencies analysed by signature only; examples/ excluded.",
                "technique": tech,
            })
        else:
            na.append({"property_id": pid, "reason": NA.get(pid, NOT_YET)})
    m = {
        "version": 1,
        "setup_cmd": "cd /verif/checker && env -u GOWORK GOFLAGS=-mod=mod GOPROXY=off GOSUMDB=off GOTOOLCHAIN=local go build -o /verif/bin/tpcheck .",
        "hooks": {
            "guard": "verif",
            "enable": "none needed: the checker analyses /repo's source as it is (type-check + SSA do not execute init); no instrumentation exists",
            "baseline_off_cmd": json.load(open("/root/.vp/BASELINE.json"))["cmd"],
            "source_commits": [],
            "add_only": True,
        },
        "engines": [{"name": "tpcheck", "path": "/verif/checker", "serves_properties": [c["property_id"] for c in checks],
                     "kind_free_text": "repository-specific static analyser: go/packages + go/ssa + call graph; rule tables per property"}],
        "checks": checks,
        "not_applicable": na,
        "notes": "Technique family: static analysis only. Every claimed property is claimed at level 'other' for the structural clauses named in its level text. known findings: /verif/known_findings.txt",
    }
    json.dump(m, open("/verif/MANIFEST.json", "w"), indent=1)
    print("claimed:", [c["property_id"] for c in checks], "n/a:", len(na))

main()
