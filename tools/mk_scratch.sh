#!/bin/bash
# Scratch worktree of /repo for triage / seeded-change demonstrations (NOT used by any registered check).
# The root package cannot be linked under the pinned toolchain (qtls init panics); for *demonstrations only*
# a copy of the qtls module with that init check disabled is used through a go.mod replace that is hidden
# from `git diff` (assume-unchanged) so it never ends up in a patch.
# usage: mk_scratch.sh <name>   -> /tmp/wt-<name>
set -e
name="$1"; [ -n "$name" ] || { echo "usage: $0 <name>"; exit 2; }
Q=/opt/qtls-patched
if [ ! -f $Q/unsafe.go ]; then
  mkdir -p $Q; cp -r /root/go/pkg/mod/github.com/marten-seemann/qtls-go1-15@v0.1.0/. $Q/; chmod -R u+w $Q
  python3 - <<'PY'
p='/opt/qtls-patched/unsafe.go'
s=open(p).read()
s=s.replace('func init() {','func init() {\n\treturn\n}\n\nfunc initDisabled() {',1)
open(p,'w').write(s)
PY
fi
wt=/tmp/wt-$name
git -C /repo worktree remove --force $wt >/dev/null 2>&1 || true
rm -rf $wt
git -C /repo worktree add --detach $wt HEAD >/dev/null
echo "replace github.com/marten-seemann/qtls-go1-15 => $Q" >> $wt/go.mod
git -C $wt update-index --assume-unchanged go.mod
echo $wt
