#!/bin/bash
# usage: try_refactors_par.sh [N]  -- every stored refactoring through ALL checks (one load each), N worktrees in parallel.
# Every line printed under a "== " header is a false alarm.
N=${1:-4}
ls -d /verif/refactorings/R*/ | awk -v n=$N '{print > ("/tmp/ref-part-" (NR % n))}'
for k in $(seq 0 $((N-1))); do
 (
  wt=/tmp/wt-ref$k
  git -C /repo worktree remove --force $wt >/dev/null 2>&1; git -C /repo worktree add -q --detach $wt HEAD
  for d in $(cat /tmp/ref-part-$k); do
   git -C $wt checkout -q -- . ; git -C $wt clean -fdq
   if ! git -C $wt apply $d/patch.diff 2>/dev/null; then echo "== $d DOES NOT APPLY"; continue; fi
   out=$(/verif/bin/tpcheck -prop all -no-evidence -repo $wt 2>&1 | grep -E '^(violated|UNDECIDED|ERROR)' | cut -c1-260)
   echo "== $d $(echo "$out" | grep -c .) alarm(s)"; [ -n "$out" ] && echo "$out"
  done
  git -C /repo worktree remove --force $wt
 ) > /tmp/ref-out-$k.log 2>&1 &
done
wait
cat /tmp/ref-out-*.log
