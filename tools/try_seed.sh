#!/bin/bash
# usage: try_seed.sh <patch.diff> <prop> [<prop>...]  -- applies the patch to /repo, runs the quick checks, reverts.
patch="$1"; shift
cd /repo || exit 2
if ! git diff --quiet; then echo "/repo has uncommitted changes"; exit 2; fi
if ! git apply --3way "$patch" 2>/tmp/apply.err && ! git apply "$patch" 2>>/tmp/apply.err; then echo "PATCH DOES NOT APPLY"; cat /tmp/apply.err; git checkout -- . ; exit 3; fi
git reset -q 2>/dev/null
for p in "$@"; do
  /verif/bin/tpcheck -prop $p -no-evidence | grep -E "^(violated|UNDECIDED|KNOWN|SUMMARY|ERROR)" | cut -c1-400
done
git checkout -- . ; git status --short | head -3
