package main

import (
	"fmt"
	"go/token"
	"go/types"
	"sort"
	"strings"
	"unicode"

	"golang.org/x/tools/go/ssa"
)

// stage functions of plugin.go: name -> kind of result
var stageFuncs = map[string]string{
	// set-up stages: error -> Fatalf
	"preNewPeer": "fatal", "postNewPeer": "fatal", "postReg": "fatal", "postListen": "fatal",
	// connection stages
	"postDial": "status", "postAccept": "status", "postDisconnect": "status",
	// write stages
	"preWriteCall": "status", "postWriteCall": "status", "preWritePush": "status", "postWritePush": "status",
	"preWriteReply": "void", "postWriteReply": "void",
	// read stages
	"preReadHeader":      "error",
	"postReadCallHeader": "status", "preReadCallBody": "status", "postReadCallBody": "status",
	"postReadPushHeader": "status", "preReadPushBody": "status", "postReadPushBody": "status",
	"postReadReplyHeader": "status", "preReadReplyBody": "status", "postReadReplyBody": "status",
}

// stageCallers: frozen table of which functions may call each stage function.
var stageCallers = map[string][]string{
	"preNewPeer": {"NewPeer"}, "postNewPeer": {"NewPeer"}, "postReg": {"(*SubRouter).reg"}, "postListen": {"(*peer).serveListener"},
	"postDial":     {"(*peer).Dial$1", "(*peer).Dial$2$1"},
	"postAccept":   {"(*peer).ServeConn", "(*peer).serveListener$1"},
	"preWriteCall": {"(*session).AsyncCall"}, "postWriteCall": {"(*session).AsyncCall"},
	"preWritePush": {"(*session).Push"}, "postWritePush": {"(*session).Push"},
	"preWriteReply": {"(*handlerCtx).handleCall"}, "postWriteReply": {"(*handlerCtx).handleCall"},
	"preReadHeader":      {"(*session).startReadAndHandle"},
	"postReadCallHeader": {"(*handlerCtx).bindCall"}, "preReadCallBody": {"(*handlerCtx).bindCall"}, "postReadCallBody": {"(*handlerCtx).handleCall"},
	"postReadPushHeader": {"(*handlerCtx).bindPush"}, "preReadPushBody": {"(*handlerCtx).bindPush"}, "postReadPushBody": {"(*handlerCtx).handlePush"},
	"postReadReplyHeader": {"(*handlerCtx).bindReply"}, "preReadReplyBody": {"(*handlerCtx).bindReply"}, "postReadReplyBody": {"(*handlerCtx).handleReply"},
	"postDisconnect": {"(*session).closeLocked", "(*session).readDisconnected"},
}

func init() {
	register(&Rule{ID: "C09.1", Prop: "C09", Min: 23,
		Text: "canonical stage shape: each of the 23 stage functions of plugin.go is one ascending loop over the container's plugin list with one type assertion to the stage's own interface and one call of that interface's method per plugin; the first non-OK result stops the loop and is what the stage returns (void stages: stop; set-up stages: Fatalf); nil at the end",
		Run:  runC09_1})
	register(&Rule{ID: "C09.2", Prop: "C09", Min: 5,
		Text: "container order: refresh() builds left ++ middle ++ right into the effective list; appendLeft prepends, appendRight appends; cloneAndAppendMiddle = parent middle ++ new plugins, sharing left/right, refreshed now and chained into the parent's refreshTree",
		Run:  runC09_2})
	register(&Rule{ID: "C09.3", Prop: "C09", Min: 1,
		Text: "derived plugin lists own their storage: an append whose result becomes another container's list must not start from a slice owned by a different container (spare capacity of the parent's backing array would be shared between sibling groups/handlers)",
		Run:  runC09_3})
	register(&Rule{ID: "C09.4", Prop: "C09", Min: 30,
		Text: "stage call sites and order: every stage function is called exactly from the frozen set of framework functions, and within them in stage order (pre-write -> write -> post-write on the OK edge; pre-read-header -> read; header stage -> route lookup -> container switch -> body stage; body hook -> handler -> pre-write-reply -> write -> post-write-reply)",
		Run:  runC09_4})
	register(&Rule{ID: "C09.5", Prop: "C09", Min: 8,
		Text: "veto edges: from the non-OK edge of a stage that precedes the handler no path reaches the handler call or a later stage of that message, and the vetoing status is what is stored/returned; from the non-OK edge of preWriteCall/preWritePush no path reaches session.write",
		Run:  runC09_5})
	register(&Rule{ID: "C09.7", Prop: "C09", Min: 5,
		Text: "a veto (or any failed binding) keeps the handler from running: handler calls only on the OK edges of c.stat and of the body hook, at most once per message (same obligations as C03.3)",
		Run:  runC03_3})
	register(&Rule{ID: "C09.6", Prop: "C09", Min: 3,
		Text: "container selection: binding() installs the peer's global container before the header stage; bindCall/bindPush switch to the matched handler's own container (global-left ++ group/handler middle ++ global-right) before the body stages",
		Run:  runC09_6})
}

// ownerName strips the closure suffixes of a table entry: "(*peer).Dial$2$1" -> "(*peer).Dial".
func ownerName(s string) string {
	if i := strings.IndexByte(s, '$'); i >= 0 {
		return s[:i]
	}
	return s
}

// ownerOf: the top-level function fn belongs to (see runC09_4).
func (p *Prog) ownerOf(fn *ssa.Function, depth int) string {
	top := EnclosingTop(fn)
	if depth < 3 && top.Object() != nil && !top.Object().Exported() {
		if cs, noEscape := p.callSitesOf(top); noEscape && len(cs) >= 1 {
			owner := ""
			same := true
			for _, c := range cs {
				o := p.ownerOf(c.fn, depth+1)
				if owner == "" {
					owner = o
				} else if owner != o {
					same = false
				}
			}
			// only helpers introduced next to a frozen caller are folded into it: the stage callers of the table
			// themselves (bindCall, handleCall, closeLocked ...) stay their own owners
			if same && owner != "" && !isFrozenCaller(shortFn(top)) {
				return owner
			}
		}
	}
	return shortFn(top)
}

func isFrozenCaller(name string) bool {
	for _, list := range stageCallers {
		for _, w := range list {
			if ownerName(w) == name {
				return true
			}
		}
	}
	return false
}

func capFirst(s string) string {
	r := []rune(s)
	r[0] = unicode.ToUpper(r[0])
	return string(r)
}

func stageFn(p *Prog, name string) *ssa.Function {
	if name == "preNewPeer" {
		return p.Fn(Root, "PluginContainer", name)
	}
	return p.Fn(Root, "pluginSingleContainer", name)
}

func runC09_1(c *Ctx) {
	p := c.P
	okM := p.MethodObj(statusPkg, "Status", "OK")
	names := sortedKeys(stageFuncs)
	// also: no other function in plugin.go invokes a stage interface method
	for _, name := range names {
		kind := stageFuncs[name]
		fn := stageFn(p, name)
		key := "stage " + name
		pos := p.Pos(fn.Pos())
		ifaceName := capFirst(name) + "Plugin"
		iface := p.Named(Root, ifaceName)
		method := p.MethodObj(Root, ifaceName, capFirst(name))
		// (a) one type assertion to the stage's interface
		var asserts []*ssa.TypeAssert
		Instrs(fn, func(i ssa.Instruction) {
			if ta, ok := i.(*ssa.TypeAssert); ok {
				if n, ok := types.Unalias(ta.AssertedType).(*types.Named); ok && n == iface {
					asserts = append(asserts, ta)
				}
			}
		})
		var others int
		Instrs(fn, func(i ssa.Instruction) {
			if ta, ok := i.(*ssa.TypeAssert); ok {
				if n, ok := types.Unalias(ta.AssertedType).(*types.Named); ok && n != iface && strings.HasSuffix(n.Obj().Name(), "Plugin") {
					others++
				}
			}
		})
		if len(asserts) != 1 || others > 0 {
			c.Viol(key, pos, fmt.Sprintf("%s must assert each plugin to %s exactly once (found %d, plus %d assertions to other stage interfaces): the wrong hook (or none) fires at this stage", name, ifaceName, len(asserts), others))
			continue
		}
		ta := asserts[0]
		// (b) one invoke of the stage method on the asserted value
		invokes := CallsTo(fn, method)
		if len(invokes) != 1 {
			c.Viol(key, pos, fmt.Sprintf("%s must call %s.%s exactly once per plugin (found %d call sites): a hook fires twice or not at all", name, ifaceName, method.Name(), len(invokes)))
			continue
		}
		inv := invokes[0].(*ssa.Call)
		recvOK := false
		if ex, ok := inv.Call.Value.(*ssa.Extract); ok && ex.Tuple == ssa.Value(ta) && ex.Index == 0 {
			recvOK = true
		}
		// (c) ascending range over the receiver's plugins field
		asc := false
		if u, ok := ta.X.(*ssa.UnOp); ok && u.Op == token.MUL {
			if ia, ok := u.X.(*ssa.IndexAddr); ok {
				if fr, _, ok := LoadedField(ia.X); ok && fr.String() == "pluginSingleContainer.plugins" {
					asc = ascendingIndex(ia.Index)
				}
			}
		}
		// the invoke is on the assertion's ok edge
		onOK := false
		for _, b := range fn.Blocks {
			ifi, isIf := b.Instrs[len(b.Instrs)-1].(*ssa.If)
			if !isIf {
				continue
			}
			if ex, ok := ifi.Cond.(*ssa.Extract); ok && ex.Tuple == ssa.Value(ta) && ex.Index == 1 && BlockDominatesInstr(b.Succs[0], inv) {
				onOK = true
			}
		}
		// (d) first non-OK stops the loop and is returned
		stop := false
		switch kind {
		case "status", "void":
			for _, e := range CondCallEdges(fn, okM) {
				if !sameViaCell(e.Recv, inv) {
					continue
				}
				// from the non-OK edge: no further invoke, and a return of the result (status) is reached
				again := p.ReachableFromBlock(e.False, func(i ssa.Instruction) bool { return i == ssa.Instruction(inv) }, nil, nil)
				w := &Walk{P: p}
				w.FromBlock(e.False)
				retOK := len(w.Exits) > 0
				if kind == "status" {
					for _, r := range w.Exits {
						if !sameViaCell(ReturnVals(r.(*ssa.Return))[0], inv) {
							retOK = false
						}
					}
				}
				// the OK edge continues the loop: the next plugin's hook is still reachable (a `return` on the OK
				// edge would let the first plugin's verdict stand for all later ones, e.g. skip the auth checker)
				cont := p.ReachableFromBlock(e.True, func(i ssa.Instruction) bool { return i == ssa.Instruction(inv) }, nil, nil)
				stop = len(again) == 0 && retOK && len(cont) > 0
			}
		case "error", "fatal":
			for _, e := range NilCmpEdges(fn, func(v ssa.Value) bool { return v == ssa.Value(inv) }) {
				again := p.ReachableFromBlock(e.NonNil, func(i ssa.Instruction) bool { return i == ssa.Instruction(inv) }, nil, nil)
				w := &Walk{P: p}
				w.FromBlock(e.NonNil)
				if kind == "error" {
					retOK := len(w.Exits) > 0
					for _, r := range w.Exits {
						if ReturnVals(r.(*ssa.Return))[0] != ssa.Value(inv) {
							retOK = false
						}
					}
					cont := p.ReachableFromBlock(e.Nil, func(i ssa.Instruction) bool { return i == ssa.Instruction(inv) }, nil, nil)
					stop = len(again) == 0 && retOK && len(cont) > 0
				} else {
					// Fatalf: no-return, so neither an exit nor another invoke is reachable
					stop = len(again) == 0 && len(w.Exits) == 0
				}
			}
		}
		// (e) nil at the end: the return reached when the loop is exhausted returns nil
		endNil := true
		if kind == "status" || kind == "error" {
			endNil = false
			Instrs(fn, func(i ssa.Instruction) {
				if r, ok := i.(*ssa.Return); ok && len(r.Results) == 1 && IsNilConst(ReturnVals(r)[0]) {
					endNil = true
				}
			})
		}
		c.fact("sibling-shape")
		all := recvOK && asc && onOK && stop && endNil
		c.Check(all, key, pos, "ascending range; assert "+ifaceName+"; call once on the ok edge; first non-OK stops and is returned; nil at the end",
			fmt.Sprintf("stage %s deviates from the canonical shape (call on asserted value: %v, ascending over plugins: %v, call only on assertion ok edge: %v, first failure stops and is returned: %v, nil at end: %v): hooks fire out of registration order / more than once / a veto is ignored", name, recvOK, asc, onOK, stop, endNil))
	}
}

// ascendingIndex: idx is the go/ssa rangeindex pattern (phi(-1, idx) + 1) or phi(0, phi+1).
func ascendingIndex(idx ssa.Value) bool {
	if bo, ok := idx.(*ssa.BinOp); ok && bo.Op == token.ADD {
		k, okc := ConstIntOf(bo.Y)
		phi, isPhi := bo.X.(*ssa.Phi)
		if !okc || k != 1 || !isPhi {
			return false
		}
		hasInit := false
		for _, e := range phi.Edges {
			if e == ssa.Value(bo) {
				continue
			}
			if k0, ok := ConstIntOf(e); ok && k0 == -1 {
				hasInit = true
				continue
			}
			return false
		}
		return hasInit
	}
	if phi, ok := idx.(*ssa.Phi); ok {
		hasInit := false
		for _, e := range phi.Edges {
			if k0, ok := ConstIntOf(e); ok && k0 == 0 {
				hasInit = true
				continue
			}
			if bo, ok := e.(*ssa.BinOp); ok && bo.Op == token.ADD && bo.X == ssa.Value(phi) {
				if k, okc := ConstIntOf(bo.Y); okc && k == 1 {
					continue
				}
			}
			return false
		}
		return hasInit
	}
	return false
}

// containerFieldOf: v is `len(recv.<side>.plugins)` or load of recv.<side>.plugins; returns side name.
func sidePlugins(v ssa.Value, recv ssa.Value) (string, bool) {
	fr, fa, ok := LoadedField(v)
	if !ok || fa == nil || fr.String() != "pluginSingleContainer.plugins" {
		return "", false
	}
	fr2, fa2, ok := LoadedField(fa.X)
	if !ok || fa2 == nil || fr2.Struct.Obj().Name() != "PluginContainer" || fa2.X != recv {
		return "", false
	}
	st := fr2.Struct.Underlying().(*types.Struct)
	return st.Field(fr2.Index).Name(), true
}

func lenTerms(v ssa.Value, recv ssa.Value) (terms []string, ok bool) {
	switch x := v.(type) {
	case nil:
		return nil, true
	case *ssa.Const:
		k, okc := ConstIntOf(x)
		return nil, okc && k == 0
	case *ssa.BinOp:
		if x.Op != token.ADD {
			return nil, false
		}
		a, ok1 := lenTerms(x.X, recv)
		b, ok2 := lenTerms(x.Y, recv)
		return append(a, b...), ok1 && ok2
	case *ssa.Call:
		if b, isB := x.Call.Value.(*ssa.Builtin); isB && b.Name() == "len" {
			if side, ok := sidePlugins(x.Call.Args[0], recv); ok {
				return []string{side}, true
			}
		}
	}
	return nil, false
}

func runC09_2(c *Ctx) {
	p := c.P
	refresh := p.Fn(Root, "PluginContainer", "refresh")
	recv := ssa.Value(refresh.Params[0])
	want := map[string]string{"": "left", "left": "middle", "left+middle": "right"}
	got := map[string]string{}
	var dstBase ssa.Value
	nCopy := 0
	Instrs(refresh, func(i ssa.Instruction) {
		call, ok := i.(*ssa.Call)
		if !ok {
			return
		}
		b, isB := call.Call.Value.(*ssa.Builtin)
		if !isB || b.Name() != "copy" {
			return
		}
		nCopy++
		sl, ok := call.Call.Args[0].(*ssa.Slice)
		if !ok {
			return
		}
		if dstBase == nil {
			dstBase = sl.X
		} else if dstBase != sl.X {
			got["!"] = "different destinations"
		}
		terms, okT := lenTerms(sl.Low, recv)
		side, okS := sidePlugins(call.Call.Args[1], recv)
		if !okT || !okS {
			got["?"] = "unrecognised"
			return
		}
		sort.Strings(terms)
		got[strings.Join(terms, "+")] = side
	})
	okOrder := nCopy == 3 && len(got) == 3
	for k, v := range want {
		if got[k] != v {
			okOrder = false
		}
	}
	// the merged slice is what becomes the effective list
	stored := false
	Instrs(refresh, func(i ssa.Instruction) {
		if st, ok := i.(*ssa.Store); ok && st.Val == dstBase && dstBase != nil {
			if fr, _, ok := FieldOfAddr(st.Addr); ok && fr.String() == "pluginSingleContainer.plugins" {
				stored = true
			}
		}
	})
	if !(okOrder && stored) && nCopy == 0 {
		// the other way to write it: append(append(append(make(.., 0, n), left...), middle...), right...)
		Instrs(refresh, func(i ssa.Instruction) {
			st, ok := i.(*ssa.Store)
			if !ok {
				return
			}
			if fr, _, ok := FieldOfAddr(st.Addr); !ok || fr.String() != "pluginSingleContainer.plugins" {
				return
			}
			var sides []string
			v := st.Val
			for k := 0; k < 4; k++ {
				call, isCall := v.(*ssa.Call)
				if !isCall {
					break
				}
				b, isB := call.Call.Value.(*ssa.Builtin)
				if !isB || b.Name() != "append" || len(call.Call.Args) != 2 {
					break
				}
				side, okS := sidePlugins(call.Call.Args[1], recv)
				if !okS {
					sides = append(sides, "?")
				} else {
					sides = append(sides, side)
				}
				v = call.Call.Args[0]
			}
			mk, isMk := v.(*ssa.MakeSlice)
			empty := false
			if isMk {
				if n, isC := ConstIntOf(mk.Len); isC && n == 0 {
					empty = true
				}
			}
			if empty && len(sides) == 3 && sides[0] == "right" && sides[1] == "middle" && sides[2] == "left" {
				okOrder, stored = true, true
			}
		})
	}
	c.fact("expression-normalisation")
	c.Check(okOrder && stored, "refresh builds left++middle++right", p.Pos(refresh.Pos()), "copy offsets 0 / |left| / |left|+|middle| with sources left / middle / right; result installed as the effective list",
		fmt.Sprintf("refresh() does not lay the effective list out as left ++ middle ++ right (offset->source found: %v, installed: %v): hooks fire in the wrong container order", got, stored))

	// appendLeft / appendRight
	for _, s := range []struct {
		name        string
		first, rest string
	}{{"appendLeft", "param", "own"}, {"appendRight", "own", "param"}} {
		fn := p.Fn(Root, "pluginSingleContainer", s.name)
		ok := false
		Instrs(fn, func(i ssa.Instruction) {
			call, isC := i.(*ssa.Call)
			if !isC {
				return
			}
			b, isB := call.Call.Value.(*ssa.Builtin)
			if !isB || b.Name() != "append" {
				return
			}
			kind := func(v ssa.Value) string {
				if v == ssa.Value(fn.Params[1]) {
					return "param"
				}
				if fr, fa, okf := LoadedField(v); okf && fa != nil && fr.String() == "pluginSingleContainer.plugins" && fa.X == ssa.Value(fn.Params[0]) {
					return "own"
				}
				return "?"
			}
			if kind(call.Call.Args[0]) == s.first && kind(call.Call.Args[1]) == s.rest {
				// result stored back into own list
				if refs := call.Referrers(); refs != nil {
					for _, r := range *refs {
						if st, isSt := r.(*ssa.Store); isSt {
							if fr, fa, okf := FieldOfAddr(st.Addr); okf && fr.String() == "pluginSingleContainer.plugins" && fa.X == ssa.Value(fn.Params[0]) {
								ok = true
							}
						}
					}
				}
			}
		})
		c.Check(ok, s.name+" order", p.Pos(fn.Pos()), "new plugins go "+map[string]string{"appendLeft": "before", "appendRight": "after"}[s.name]+" the existing ones", s.name+" does not place the new plugins on its side of the existing list: registration order is not hook order")
	}
	// AppendLeft / AppendRight address the left / right side and refresh the tree
	for _, s := range []struct{ name, side, inner string }{{"AppendLeft", "left", "appendLeft"}, {"AppendRight", "right", "appendRight"}} {
		fn := p.Fn(Root, "PluginContainer", s.name)
		inner := p.MethodObj(Root, "pluginSingleContainer", s.inner)
		ok := false
		for _, call := range CallsTo(fn, inner) {
			if fr, fa, okf := LoadedField(call.Common().Args[0]); okf && fa != nil && fr.Struct.Obj().Name() == "PluginContainer" && fa.X == ssa.Value(fn.Params[0]) {
				st := fr.Struct.Underlying().(*types.Struct)
				if st.Field(fr.Index).Name() == s.side {
					ok = true
				}
			}
		}
		// refreshTree invoked afterwards
		_, rtIdx := p.FieldIndex(Root, "PluginContainer", "refreshTree")
		refreshed := false
		for _, call := range AllCalls(fn) {
			if fr, _, okf := LoadedField(call.Common().Value); okf && fr.Struct.Obj().Name() == "PluginContainer" && fr.Index == rtIdx {
				refreshed = true
			}
		}
		c.Check(ok && refreshed, s.name+" targets the "+s.side+" list and refreshes the tree", p.Pos(fn.Pos()), s.inner+" on p."+s.side+"; refreshTree()", s.name+" does not update the "+s.side+" side and refresh every derived container")
	}
	// cloneAndAppendMiddle
	cl := p.Fn(Root, "PluginContainer", "cloneAndAppendMiddle")
	pcN, leftIdx := p.FieldIndex(Root, "PluginContainer", "left")
	_, rightIdx := p.FieldIndex(Root, "PluginContainer", "right")
	_, midIdx := p.FieldIndex(Root, "PluginContainer", "middle")
	shareL, shareR, newMid := false, false, false
	Instrs(cl, func(i ssa.Instruction) {
		st, ok := i.(*ssa.Store)
		if !ok {
			return
		}
		fr, fa, ok := FieldOfAddr(st.Addr)
		if !ok || fr.Struct != pcN || Resolve(fa.X) == ssa.Value(cl.Params[0]) || fa.X == ssa.Value(cl.Params[0]) {
			return
		}
		switch fr.Index {
		case leftIdx:
			shareL = isFieldLoad(st.Val, pcN, leftIdx)
		case rightIdx:
			shareR = isFieldLoad(st.Val, pcN, rightIdx)
		case midIdx:
			if call, ok := st.Val.(*ssa.Call); ok && CalleeObj(call) != nil && CalleeObj(call).Name() == "newPluginSingleContainer" {
				newMid = true
			}
		}
	})
	refreshM := p.MethodObj(Root, "PluginContainer", "refresh")
	refreshedNow := len(CallsTo(cl, refreshM)) > 0
	chained := false
	_, rtIdx2 := p.FieldIndex(Root, "PluginContainer", "refreshTree")
	for _, a := range cl.AnonFuncs {
		// the closure installed as the parent's refreshTree: calls the old chain and the derived container's refreshTree
		nOld, nTree := 0, 0
		for _, call := range AllCalls(a) {
			v := call.Common().Value
			if fr, _, ok := LoadedField(v); ok && fr.Struct == pcN && fr.Index == rtIdx2 {
				nTree++
			} else if _, isFV := Resolve(v).(*ssa.FreeVar); isFV || isLoadOfFreeVar(v) {
				nOld++
			}
		}
		if nTree >= 1 && nOld >= 1 {
			chained = true
		}
	}
	c.Check(shareL && shareR && newMid && refreshedNow && chained, "cloneAndAppendMiddle derives a container", p.Pos(cl.Pos()), "shares left/right with the parent, own middle, refreshed now and on every later parent refresh",
		fmt.Sprintf("cloneAndAppendMiddle broken (share left %v, share right %v, own middle %v, refreshed %v, parent's refreshTree chains the derived container's refreshTree %v): a group/handler (or containers derived from it) misses global plugins added later with AppendLeft/AppendRight", shareL, shareR, newMid, refreshedNow, chained))
}

func runC09_3(c *Ctx) {
	p := c.P
	cl := p.Fn(Root, "PluginContainer", "cloneAndAppendMiddle")
	n := 0
	// every append in cloneAndAppendMiddle whose result (transitively) is stored into a plugins field
	Instrs(cl, func(i ssa.Instruction) {
		call, ok := i.(*ssa.Call)
		if !ok {
			return
		}
		b, isB := call.Call.Value.(*ssa.Builtin)
		if !isB || b.Name() != "append" {
			return
		}
		n++
		key := "append in cloneAndAppendMiddle"
		first := call.Call.Args[0]
		ownerOK, why := appendBaseOwned(p, first, cl)
		c.fact("value-origin")
		c.Check(ownerOK, key, p.InstrPos(i), why, "the derived container's middle list is built by appending to a slice owned by the parent container ("+why+"): when the parent's backing array has spare capacity, sibling groups/handlers created from the same parent overwrite each other's plugins - a handler then runs another handler's plugin")
	})
	if n == 0 {
		// list built some other way (make+copy): accept if no parent slice is stored directly
		bad := false
		Instrs(cl, func(i ssa.Instruction) {
			st, ok := i.(*ssa.Store)
			if !ok {
				return
			}
			if fr, _, ok := FieldOfAddr(st.Addr); ok && fr.String() == "pluginSingleContainer.plugins" {
				if okb, _ := appendBaseOwned(p, st.Val, cl); !okb {
					bad = true
				}
			}
		})
		c.Check(!bad, "derived middle list storage", p.Pos(cl.Pos()), "no parent-owned slice installed", "the parent's slice is installed as the derived container's list")
	}
}

// appendBaseOwned: is the base slice of an append fresh or owned by the object being built?
func appendBaseOwned(p *Prog, v ssa.Value, fn *ssa.Function) (bool, string) {
	switch x := v.(type) {
	case *ssa.Const:
		return true, "starts from nil"
	case *ssa.MakeSlice:
		return true, "starts from a fresh make"
	case *ssa.Slice:
		return appendBaseOwned(p, x.X, fn)
	case *ssa.Convert:
		return appendBaseOwned(p, x.X, fn)
	case *ssa.ChangeType:
		return appendBaseOwned(p, x.X, fn)
	case *ssa.Call:
		if b, ok := x.Call.Value.(*ssa.Builtin); ok && b.Name() == "append" {
			return appendBaseOwned(p, x.Call.Args[0], fn)
		}
		if o := CalleeObj(x); o != nil && o.Name() == "GetAll" {
			return false, "base is " + describeCall(x) + " of another container"
		}
		return false, "base is the result of " + describeCall(x)
	case *ssa.UnOp:
		if fr, fa, ok := LoadedField(v); ok && fa != nil && fr.String() == "pluginSingleContainer.plugins" {
			// owned iff the container is one created in this function
			if call, ok := Resolve(fa.X).(*ssa.Call); ok && CalleeObj(call) != nil && CalleeObj(call).Name() == "newPluginSingleContainer" {
				return true, "appends to the list of the container created here"
			}
			return false, "base is the plugins field of an existing container"
		}
	}
	return false, "unrecognised base " + v.String()
}

func shortFn(fn *ssa.Function) string {
	s := fn.String()
	s = strings.ReplaceAll(s, Root+".", "")
	return s
}

func runC09_4(c *Ctx) {
	p := c.P
	// callers
	for _, name := range sortedKeys(stageCallers) {
		want := map[string]bool{}
		for _, w := range stageCallers[name] {
			want[w] = true
		}
		var m *types.Func
		if name == "preNewPeer" {
			m = p.MethodObj(Root, "PluginContainer", name)
		} else {
			m = p.MethodObj(Root, "pluginSingleContainer", name)
		}
		// callers are compared by owner: the top-level framework function a caller belongs to (closures belong to
		// their enclosing function, an unexported helper with a single static caller to that caller's owner), so that
		// extracting a closure body or a block into a helper does not change the table
		wantOwners := map[string]int{}
		for w := range want {
			wantOwners[ownerName(w)]++
		}
		seen := map[string]int{}
		for _, fn := range p.ShippedFuncs() {
			for range CallsTo(fn, m) {
				seen[p.ownerOf(fn, 0)]++
			}
		}
		ok := len(seen) == len(wantOwners)
		for k, n := range seen {
			if wantOwners[k] != n {
				ok = false
			}
		}
		uses := p.funcValueUses(stageFn(p, name))
		c.fact("callers")
		c.Check(ok && len(uses) == 0, "callers of "+name, "", fmt.Sprintf("exactly %v, once each", stageCallers[name]), fmt.Sprintf("stage %s is called from %v (expected exactly %v, once each; function-value uses: %d): a hook fires at the wrong moment, twice, or for the wrong message kind", name, seen, stageCallers[name], len(uses)))
	}
	// order inside functions
	type ord struct {
		fn    *ssa.Function
		name  string
		steps []func(ssa.Instruction) bool
		desc  []string
	}
	callTo := func(objs ...*types.Func) func(ssa.Instruction) bool {
		return func(i ssa.Instruction) bool {
			if _, isDefer := i.(*ssa.Defer); isDefer {
				return false
			}
			return IsCallTo(i, objs...)
		}
	}
	sc := func(n string) *types.Func { return p.MethodObj(Root, "pluginSingleContainer", n) }
	write := p.MethodObj(Root, "session", "write")
	writeReply := p.MethodObj(Root, "handlerCtx", "writeReply")
	hcN, pcIdx := p.FieldIndex(Root, "handlerCtx", "pluginContainer")
	_, getCallIdx := p.FieldIndex(Root, "session", "getCallHandler")
	_, getPushIdx := p.FieldIndex(Root, "session", "getPushHandler")
	sessN := p.Named(Root, "session")
	lookup := func(idx int) func(ssa.Instruction) bool {
		return func(i ssa.Instruction) bool {
			call, ok := i.(*ssa.Call)
			return ok && !call.Call.IsInvoke() && isFieldLoad(call.Call.Value, sessN, idx)
		}
	}
	containerSwitch := func(i ssa.Instruction) bool {
		st, ok := i.(*ssa.Store)
		if !ok || !isFieldAddr(st.Addr, hcN, pcIdx) {
			return false
		}
		fr, _, ok := LoadedField(st.Val)
		return ok && fr.String() == "Handler.pluginContainer"
	}
	_, rc := readLoopReadCall(p)
	isRead := func(i ssa.Instruction) bool { return rc != nil && i == rc }
	orders := []ord{
		{p.Fn(Root, "session", "AsyncCall"), "AsyncCall", []func(ssa.Instruction) bool{callTo(sc("preWriteCall")), callTo(write), callTo(sc("postWriteCall"))}, []string{"preWriteCall", "write", "postWriteCall"}},
		{p.Fn(Root, "session", "Push"), "Push", []func(ssa.Instruction) bool{callTo(sc("preWritePush")), callTo(write), callTo(sc("postWritePush"))}, []string{"preWritePush", "write", "postWritePush"}},
		{p.Fn(Root, "session", "startReadAndHandle"), "read loop", []func(ssa.Instruction) bool{callTo(sc("preReadHeader")), isRead}, []string{"preReadHeader", "read"}},
		{p.Fn(Root, "handlerCtx", "bindCall"), "bindCall", []func(ssa.Instruction) bool{callTo(sc("postReadCallHeader")), lookup(getCallIdx), containerSwitch, callTo(sc("preReadCallBody"))}, []string{"postReadCallHeader", "route lookup", "container switch", "preReadCallBody"}},
		{p.Fn(Root, "handlerCtx", "bindPush"), "bindPush", []func(ssa.Instruction) bool{callTo(sc("postReadPushHeader")), lookup(getPushIdx), containerSwitch, callTo(sc("preReadPushBody"))}, []string{"postReadPushHeader", "route lookup", "container switch", "preReadPushBody"}},
		{p.Fn(Root, "handlerCtx", "bindReply"), "bindReply", []func(ssa.Instruction) bool{callTo(sc("postReadReplyHeader")), callTo(sc("preReadReplyBody"))}, []string{"postReadReplyHeader", "preReadReplyBody"}},
		{p.Fn(Root, "handlerCtx", "handleCall"), "handleCall", []func(ssa.Instruction) bool{callTo(sc("postReadCallBody")), callTo(sc("preWriteReply")), callTo(writeReply), callTo(sc("postWriteReply"))}, []string{"postReadCallBody", "preWriteReply", "writeReply", "postWriteReply"}},
	}
	for _, o := range orders {
		var firsts []ssa.Instruction
		ok := true
		bad := ""
		for k, pred := range o.steps {
			var hit []ssa.Instruction
			Instrs(o.fn, func(i ssa.Instruction) {
				if pred(i) {
					hit = append(hit, i)
				}
			})
			if len(hit) == 0 {
				ok = false
				bad = "missing " + o.desc[k]
				break
			}
			firsts = append(firsts, hit[0])
			if k > 0 {
				// step k is reachable from step k-1 and step k-1 is never reachable from step k
				prev := o.steps[k-1]
				fwd := false
				Instrs(o.fn, func(i ssa.Instruction) {
					if prev(i) && len(p.ReachableFrom(i, pred, nil, nil)) > 0 {
						fwd = true
					}
				})
				for _, h := range hit {
					if len(p.ReachableFrom(h, prev, func(i ssa.Instruction) bool { return isLoopRestart(p, i) }, nil)) > 0 {
						ok = false
						bad = o.desc[k] + " can be followed by " + o.desc[k-1]
					}
				}
				if !fwd {
					ok = false
					bad = o.desc[k] + " is not reachable from " + o.desc[k-1]
				}
			}
		}
		c.fact("dominance")
		c.Check(ok, "stage order in "+o.name, p.Pos(o.fn.Pos()), strings.Join(o.desc, " -> "), "stage order broken in "+o.name+": "+bad)
	}
	// handler between body hook and preWriteReply in handleCall
	hc := p.Fn(Root, "handlerCtx", "handleCall")
	hcalls := handlerCalls(p, hc)
	okH := len(hcalls) == 2
	for _, h := range hcalls {
		for _, pre := range CallsTo(hc, sc("postReadCallBody")) {
			if !Dominates(pre, h) {
				okH = false
			}
		}
		for _, post := range CallsTo(hc, sc("preWriteReply")) {
			if len(p.ReachableFrom(post, func(i ssa.Instruction) bool { return i == h.(ssa.Instruction) }, nil, nil)) > 0 {
				okH = false
			}
		}
	}
	c.Check(okH, "handler sits between body hook and pre-write-reply", p.Pos(hc.Pos()), "postReadCallBody -> handler -> preWriteReply", "the handler is not invoked between postReadCallBody and preWriteReply")
	// postWrite* only on the write's OK edge
	okM := p.MethodObj(statusPkg, "Status", "OK")
	for _, s := range []struct {
		fn      *ssa.Function
		w, post *types.Func
		name    string
	}{{p.Fn(Root, "session", "AsyncCall"), write, sc("postWriteCall"), "postWriteCall"}, {p.Fn(Root, "session", "Push"), write, sc("postWritePush"), "postWritePush"}, {hc, writeReply, sc("postWriteReply"), "postWriteReply"}} {
		ok := false
		for _, post := range CallsTo(s.fn, s.post) {
			for _, e := range CondCallEdges(s.fn, okM) {
				// receiver: result (or extract #1) of the write call, possibly via a field/cell
				if okRecvOfCall(e.Recv, s.w) && BlockDominatesInstr(e.True, post) {
					ok = true
				}
			}
			// AsyncCall: cmd.stat = write(); if !cmd.stat.OK() {...} - the OK test reads a field stored from the call
			if !ok {
				for _, e := range CondCallEdges(s.fn, okM) {
					if BlockDominatesInstr(e.True, post) {
						for _, w := range CallsTo(s.fn, s.w) {
							if Dominates(w, e.Call) {
								ok = true
							}
						}
					}
				}
			}
		}
		c.Check(ok, s.name+" only after a successful write", p.Pos(s.fn.Pos()), "on the OK edge of the write", s.name+" fires although the write failed (or before it)")
	}
}

func okRecvOfCall(v ssa.Value, target *types.Func) bool {
	switch x := v.(type) {
	case *ssa.Call:
		return CalleeObj(x) == target
	case *ssa.Extract:
		if call, ok := x.Tuple.(*ssa.Call); ok {
			return CalleeObj(call) == target
		}
	}
	return false
}

func runC09_5(c *Ctx) {
	p := c.P
	sc := func(n string) *types.Func { return p.MethodObj(Root, "pluginSingleContainer", n) }
	hcN, statIdx := p.FieldIndex(Root, "handlerCtx", "stat")
	// bind stages: `c.stat = hook(c); if !c.stat.OK() { return nil }`
	for _, s := range []struct {
		fn, hook string
		later    []string
	}{
		{"bindCall", "postReadCallHeader", []string{"preReadCallBody"}},
		{"bindCall", "preReadCallBody", nil},
		{"bindPush", "postReadPushHeader", []string{"preReadPushBody"}},
		{"bindPush", "preReadPushBody", nil},
	} {
		fn := p.Fn(Root, "handlerCtx", s.fn)
		e := okEdgeAfterHook(p, fn, sc(s.hook))
		key := s.fn + ": veto of " + s.hook
		if e == nil {
			c.Viol(key, p.Pos(fn.Pos()), "the result of "+s.hook+" is not stored in c.stat and tested: a veto is ignored")
			continue
		}
		// stored into c.stat
		stored := false
		Instrs(fn, func(i ssa.Instruction) {
			if st, ok := i.(*ssa.Store); ok && isFieldAddr(st.Addr, hcN, statIdx) {
				if call, ok := st.Val.(*ssa.Call); ok && CalleeObj(call) == sc(s.hook) {
					stored = true
				}
			}
		})
		var laterObjs []*types.Func
		for _, l := range s.later {
			laterObjs = append(laterObjs, sc(l))
		}
		reach := p.ReachableFromBlock(e.False, func(i ssa.Instruction) bool { return len(laterObjs) > 0 && IsCallTo(i, laterObjs...) }, nil, nil)
		w := &Walk{P: p}
		w.FromBlock(e.False)
		retNil := len(w.Exits) > 0
		for _, r := range w.Exits {
			if !IsNilConst(ReturnVals(r.(*ssa.Return))[0]) {
				retNil = false
			}
		}
		c.fact("path-search")
		c.Check(stored && len(reach) == 0 && retNil, key, p.InstrPos(e.If), "status kept in c.stat; no later stage; returns nil (no body decoded)", "after a veto of "+s.hook+" a later stage still runs, the body is still decoded, or the vetoing status is not kept for the reply")
	}
	// bindReply: veto stored in callCmd.stat, nil returned
	br := p.Fn(Root, "handlerCtx", "bindReply")
	ccN, cstatIdx := p.FieldIndex(Root, "callCmd", "stat")
	for _, hook := range []string{"postReadReplyHeader", "preReadReplyBody"} {
		ok := false
		for _, e := range CondCallEdges(br, p.MethodObj(statusPkg, "Status", "OK")) {
			call, isC := e.Recv.(*ssa.Call)
			if !isC || CalleeObj(call) != sc(hook) {
				continue
			}
			storedVeto := false
			w := &Walk{P: p, Stop: func(i ssa.Instruction) bool {
				if st, ok := i.(*ssa.Store); ok && isFieldAddr(st.Addr, ccN, cstatIdx) && st.Val == ssa.Value(call) {
					storedVeto = true
				}
				return false
			}}
			w.FromBlock(e.False)
			retNil := len(w.Exits) > 0
			for _, r := range w.Exits {
				if !IsNilConst(ReturnVals(r.(*ssa.Return))[0]) {
					retNil = false
				}
			}
			later := p.ReachableFromBlock(e.False, func(i ssa.Instruction) bool {
				return hook == "postReadReplyHeader" && IsCallTo(i, sc("preReadReplyBody"))
			}, nil, nil)
			ok = storedVeto && retNil && len(later) == 0
		}
		c.Check(ok, "bindReply: veto of "+hook, p.Pos(br.Pos()), "status stored in the call; nil returned; no later stage", "a veto of "+hook+" is not delivered to the caller as the call's status")
	}
	// AsyncCall / Push: veto of the pre-write stage writes nothing
	write := p.MethodObj(Root, "session", "write")
	ac := p.Fn(Root, "session", "AsyncCall")
	okAC := false
	for _, e := range CondCallEdges(ac, p.MethodObj(statusPkg, "Status", "OK")) {
		// the first OK test after preWriteCall
		pre := CallsTo(ac, sc("preWriteCall"))
		if len(pre) != 1 || !Dominates(pre[0], e.Call) {
			continue
		}
		ws := CallsTo(ac, write)
		if len(ws) > 0 && Dominates(ws[0], e.Call) {
			continue // this is the test of the write result
		}
		if fr, _, ok := LoadedField(e.Recv); !ok || fr != (FieldRef{ccN, cstatIdx}) {
			continue
		}
		reach := p.ReachableFromBlock(e.False, func(i ssa.Instruction) bool { return IsCallTo(i, write) }, nil, nil)
		okAC = len(reach) == 0
	}
	// the hook's result is what is stored in cmd.stat
	storedAC := false
	Instrs(ac, func(i ssa.Instruction) {
		if st, ok := i.(*ssa.Store); ok && isFieldAddr(st.Addr, ccN, cstatIdx) {
			if call, ok := st.Val.(*ssa.Call); ok && CalleeObj(call) == sc("preWriteCall") {
				storedAC = true
			}
		}
	})
	c.fact("path-search")
	c.Check(okAC && storedAC, "AsyncCall: veto of preWriteCall writes nothing", p.Pos(ac.Pos()), "cmd.stat = hook result; non-OK edge never reaches session.write", "a vetoing PreWriteCall plugin does not stop the frame from being written, or its status is not the call's status")
	push := p.Fn(Root, "session", "Push")
	okP := false
	for _, e := range CondCallEdges(push, p.MethodObj(statusPkg, "Status", "OK")) {
		call, isC := e.Recv.(*ssa.Call)
		if !isC || CalleeObj(call) != sc("preWritePush") {
			continue
		}
		reach := p.ReachableFromBlock(e.False, func(i ssa.Instruction) bool { return IsCallTo(i, write) }, nil, nil)
		w := &Walk{P: p}
		w.FromBlock(e.False)
		ret := len(w.Exits) > 0
		for _, r := range w.Exits {
			if ReturnVals(r.(*ssa.Return))[0] != ssa.Value(call) {
				ret = false
			}
		}
		okP = len(reach) == 0 && ret
	}
	c.Check(okP, "Push: veto of preWritePush writes nothing", p.Pos(push.Pos()), "non-OK edge returns the hook's status without reaching session.write", "a vetoing PreWritePush plugin does not stop the frame from being written, or its status is not returned")
	// read loop: preReadHeader error ends the loop before reading
	loop := p.Fn(Root, "session", "startReadAndHandle")
	_, rc := readLoopReadCall(p)
	okL := false
	for _, e := range NilCmpEdges(loop, func(v ssa.Value) bool {
		call, ok := v.(*ssa.Call)
		return ok && CalleeObj(call) == sc("preReadHeader")
	}) {
		reach := p.ReachableFromBlock(e.NonNil, func(i ssa.Instruction) bool { return i == rc }, nil, nil)
		okL = len(reach) == 0
	}
	c.Check(okL, "read loop: preReadHeader error stops reading", p.Pos(loop.Pos()), "no read after a PreReadHeader veto", "the loop keeps reading after a PreReadHeader plugin returned an error")
}

func runC09_6(c *Ctx) {
	p := c.P
	hcN, pcIdx := p.FieldIndex(Root, "handlerCtx", "pluginContainer")
	binding := p.Fn(Root, "handlerCtx", "binding")
	var globalStore ssa.Instruction
	Instrs(binding, func(i ssa.Instruction) {
		st, ok := i.(*ssa.Store)
		if !ok || !isFieldAddr(st.Addr, hcN, pcIdx) {
			return
		}
		if fr, _, ok := LoadedField(st.Val); ok && fr.String() == "peer.pluginContainer" {
			globalStore = i
		}
	})
	ok := globalStore != nil
	if ok {
		for _, call := range AllCalls(binding) {
			if IsCallTo(call, p.MethodObj(Root, "handlerCtx", "bindCall"), p.MethodObj(Root, "handlerCtx", "bindPush"), p.MethodObj(Root, "handlerCtx", "bindReply")) && !Dominates(globalStore, call) {
				ok = false
			}
		}
	}
	c.fact("dominance")
	c.Check(ok, "binding installs the global container first", p.Pos(binding.Pos()), "c.pluginContainer = peer.pluginContainer dominates the per-kind binders", "the header stages run on a stale or nil container: global plugins do not see the message")
	// the effective list used by stage functions is the merged one: stage functions read pluginSingleContainer.plugins of the receiver,
	// and callers pass c.pluginContainer.pluginSingleContainer (the embedded merged list)
	for _, fnName := range []string{"bindCall", "bindPush", "handleCall", "handlePush", "bindReply", "handleReply"} {
		fn := p.Fn(Root, "handlerCtx", fnName)
		okRecv := true
		n := 0
		for _, call := range AllCalls(fn) {
			o := CalleeObj(call)
			if o == nil || stageFuncs[o.Name()] == "" || call.Common().IsInvoke() {
				continue
			}
			n++
			// receiver: load of PluginContainer.pluginSingleContainer of load handlerCtx.pluginContainer
			fr, fa, ok := LoadedField(call.Common().Args[0])
			if !ok || fa == nil || fr.String() != "PluginContainer.pluginSingleContainer" || !isFieldLoad(fa.X, hcN, pcIdx) {
				okRecv = false
			}
		}
		if n == 0 {
			continue
		}
		c.Check(okRecv, "stages in "+fnName+" run on the context's current container", p.Pos(fn.Pos()), "receiver is c.pluginContainer's merged list", "a stage in "+fnName+" runs on a container other than the context's current one")
	}
}

// sameViaCell: v is target, or a load of a (named result / captured) cell into which target is stored
// and no other non-nil value is stored in this function.
func sameViaCell(v ssa.Value, target ssa.Value) bool {
	if v == target {
		return true
	}
	u, ok := v.(*ssa.UnOp)
	if !ok || u.Op != token.MUL {
		return false
	}
	al, ok := u.X.(*ssa.Alloc)
	if !ok || al.Referrers() == nil {
		return false
	}
	found := false
	for _, r := range *al.Referrers() {
		if st, ok := r.(*ssa.Store); ok && st.Addr == ssa.Value(al) {
			if st.Val == target {
				found = true
			} else if lu, isLoad := st.Val.(*ssa.UnOp); isLoad && lu.Op == token.MUL && lu.X == ssa.Value(al) {
				// `return stat` with a named result: the cell is re-assigned its own value
			} else if !IsNilConst(st.Val) {
				return false
			}
		}
	}
	return found
}

// isLoopRestart: the start of a new read-loop iteration / retry is a new message, not a stage-order violation.
func isLoopRestart(p *Prog, i ssa.Instruction) bool {
	return IsCallTo(i, p.MethodObj(Root, "peer", "getContext"))
}

func isLoadOfFreeVar(v ssa.Value) bool {
	if _, ok := v.(*ssa.FreeVar); ok {
		return true
	}
	u, ok := v.(*ssa.UnOp)
	if !ok {
		return false
	}
	_, isFV := u.X.(*ssa.FreeVar)
	return isFV
}
