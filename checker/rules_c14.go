package main

import (
	"fmt"
	"go/token"
	"go/types"
	"sort"
	"strings"

	"golang.org/x/tools/go/ssa"
)

func init() {
	register(&Rule{ID: "C14.6", Prop: "C14", Min: 4,
		Text: "safe publication of sessions: after a session has been handed to the index (SessionHub.set) or its read loop started, the publishing function performs no plain (non-atomic, unlocked) store to a field of that session - a field written after publication (e.g. the redial function) races with the readers the index hands the session to",
		Run:  runC14_6})
	register(&Rule{ID: "C14.1", Prop: "C14", Min: 12,
		Text: "atomic consistency: a struct field of shipped code that is accessed through sync/atomic anywhere is accessed that way everywhere (constructors before publication exempt); the frozen atomic-only set session.{status,seq,didCloseNotify}, socket.curState, connLimiter.{lim,now,tmp}, qpsLimiter.{tokens,limit,once} is covered",
		Run:  runC14_1})
	register(&Rule{ID: "C14.2", Prop: "C14", Min: 20,
		Text: "guarded fields: every access to a field of the frozen guard table (session.sessionAge/contextAge, socket.id/swap/Conn/protocol, Overloader limiters) happens with its mutex held (constructors and RawLocked exempt); methods promoted from the embedded net.Conn of socket read Conn without the lock",
		Run:  runC14_2})
	register(&Rule{ID: "C14.3", Prop: "C14", Min: 2,
		Text: "publication order of call results: in the completing goroutine no field of the callCmd is written after done()/cancel() signalled completion (readers synchronise on the done channel)",
		Run:  runC14_3})
	register(&Rule{ID: "C14.4", Prop: "C14", Min: 4,
		Text: "per-direction thrift counters: the write counter is zeroed/read only with the pack lock held, the read counter only with the unpack lock held",
		Run:  runC14_4})
	register(&Rule{ID: "C14.5", Prop: "C14", Min: 2,
		Text: "wait-group discipline: a WaitGroup.Add with positive delta and the Wait on the same WaitGroup field share a mutex, or the Add is ordered before the Wait by a state test made under that mutex (Add at counter zero concurrent with Wait is a WaitGroup misuse and a data race)",
		Run:  runC14_5})
}

// structIsFresh: is v (the struct pointer of a field access) an object created in this function (not yet published)?
func structIsFresh(v ssa.Value) bool {
	switch x := Resolve(v).(type) {
	case *ssa.Alloc:
		return true
	case *ssa.Call:
		_ = x
	}
	return false
}

func runC14_1(c *Ctx) {
	p := c.P
	frozen := map[string]bool{"session.status": true, "session.seq": true, "session.didCloseNotify": true, "socket.curState": true,
		"connLimiter.lim": true, "connLimiter.now": true, "connLimiter.tmp": true, "qpsLimiter.tokens": true, "qpsLimiter.limit": true, "qpsLimiter.once": true}
	seenFrozen := map[string]bool{}
	// all named struct types of shipped packages
	var structs []*types.Named
	for _, sp := range p.Shipped {
		for _, m := range sp.Members {
			if t, ok := m.(*ssa.Type); ok {
				if n, ok := t.Type().(*types.Named); ok {
					if _, isS := n.Underlying().(*types.Struct); isS {
						structs = append(structs, n)
					}
				}
			}
		}
	}
	sort.Slice(structs, func(i, j int) bool { return structs[i].String() < structs[j].String() })
	for _, n := range structs {
		accs := p.FieldAccesses(n)
		byField := map[int][]FieldAccess{}
		for _, a := range accs {
			byField[a.Field.Index] = append(byField[a.Field.Index], a)
		}
		for idx, as := range byField {
			fr := FieldRef{n, idx}
			name := fr.String()
			anyAtomic := false
			for _, a := range as {
				if a.Kind == AccAtomic {
					anyAtomic = true
				}
			}
			if !anyAtomic {
				if frozen[name] {
					c.Viol("atomic field "+name, p.Pos(n.Obj().Pos()), "field "+name+" is in the frozen atomic-only set but is never accessed atomically any more")
					seenFrozen[name] = true
				}
				continue
			}
			if frozen[name] {
				seenFrozen[name] = true
			}
			for _, a := range as {
				if a.Kind == AccAtomic {
					continue
				}
				// constructor exemption: the struct is created in this function
				var base ssa.Value
				if fa, ok := fieldAddrOf(a.Instr); ok {
					base = fa.X
				}
				if base != nil && structIsFresh(base) {
					continue
				}
				if a.Kind == AccWrite && a.Fn.Name() == "newSession" {
					continue
				}
				c.fact("field-access-set")
				c.Viol(fmt.Sprintf("%s %s in %s", name, a.Kind, FnName(a.Fn)), p.InstrPos(a.Instr),
					fmt.Sprintf("field %s is accessed with sync/atomic elsewhere but %s here without it: a data race between this access and the atomic ones (torn or stale value)", name, map[AccessKind]string{AccRead: "read", AccWrite: "written", AccAddr: "its address is taken"}[a.Kind]))
			}
			c.Hold("atomic field "+name, p.Pos(n.Obj().Pos()), fmt.Sprintf("%d accesses examined", len(as)))
		}
	}
	for f := range frozen {
		if !seenFrozen[f] {
			c.Undec("atomic field "+f, "", "frozen atomic-only field not found")
		}
	}
}

func fieldAddrOf(i ssa.Instruction) (*ssa.FieldAddr, bool) {
	switch x := i.(type) {
	case *ssa.Store:
		fa, ok := x.Addr.(*ssa.FieldAddr)
		return fa, ok
	case *ssa.UnOp:
		fa, ok := x.X.(*ssa.FieldAddr)
		return fa, ok
	case ssa.CallInstruction:
		for _, a := range x.Common().Args {
			if fa, ok := a.(*ssa.FieldAddr); ok {
				return fa, true
			}
		}
	}
	return nil, false
}

type guardSpec struct {
	pkg, typ, field, mutex string
	exemptFns              []string
}

var guardTable = []guardSpec{
	{Root, "session", "sessionAge", "sessionAgeLock", []string{"newSession"}},
	{Root, "session", "contextAge", "contextAgeLock", []string{"newSession"}},
	{Root + "/socket", "socket", "id", "idMutex", nil},
	{Root + "/socket", "socket", "swap", "swapMutex", nil},
	{Root + "/socket", "socket", "Conn", "mu", []string{"newSocket", "RawLocked", "initOptimize"}},
	{Root + "/socket", "socket", "protocol", "mu", []string{"newSocket"}},
	{Root, "callCmd", "stat", "mu", []string{"Status", "StatusOK", "Reply", "handleReply", "handleReply$1"}},
	{Root, "callCmd", "inputMeta", "mu", []string{"InputMeta", "RealIP"}},
	{Root + "/plugin/overloader", "Overloader", "connLimiter", "connLimiterLock", nil},
	{Root + "/plugin/overloader", "Overloader", "totalQPSLimiter", "totalQPSLimiterLock", nil},
	{Root + "/plugin/overloader", "Overloader", "handlerQPSLimiter", "handlerQPSLimiterLock", []string{"New"}},
}

func runC14_2(c *Ctx) {
	p := c.P
	for _, g := range guardTable {
		n, fIdx := p.FieldIndex(g.pkg, g.typ, g.field)
		_, mIdx := p.FieldIndex(g.pkg, g.typ, g.mutex)
		cnt := 0
		for _, a := range p.FieldAccesses(n) {
			if a.Field.Index != fIdx {
				continue
			}
			cnt++
			key := fmt.Sprintf("%s.%s %s in %s", g.typ, g.field, a.Kind, FnName(a.Fn))
			exempt := false
			for _, e := range g.exemptFns {
				if a.Fn.Name() == e {
					exempt = true
				}
			}
			if exempt {
				c.HoldTrivial(key, p.InstrPos(a.Instr), "exempt: constructor / documented caller-locked accessor / accessor used after completion (synchronised by the done channel) / cross-stage lock (C02.5)")
				continue
			}
			// a write needs the exclusive lock: RLock admits concurrent writers
			held := heldAtMode(p, a.Fn, n, mIdx, a.Instr, a.Kind == AccWrite)
			if !held && a.Kind == AccWrite && heldAt(p, a.Fn, n, mIdx, a.Instr) {
				c.Viol(key, p.InstrPos(a.Instr), fmt.Sprintf("%s.%s is written while only the READ lock of %s is held: concurrent readers-turned-writers race (e.g. lazy initialisation under RLock hands different objects to different goroutines)", g.typ, g.field, g.mutex))
				continue
			}
			if !held {
				// callee invoked only with the lock held (one level): e.g. initOptimize from Reset
				allHeld, nCallers := true, 0
				for _, fn := range p.ShippedFuncs() {
					for _, call := range AllCalls(fn) {
						if StaticFn(call) == a.Fn {
							nCallers++
							if !heldAt(p, fn, n, mIdx, call) {
								allHeld = false
							}
						}
					}
				}
				held = nCallers > 0 && allHeld
			}
			c.fact("lockset")
			c.Check(held, key, p.InstrPos(a.Instr), g.mutex+" held", fmt.Sprintf("%s.%s is %s without %s held, while other accesses use that mutex: data race (e.g. with a concurrent reset/update)", g.typ, g.field, a.Kind, g.mutex))
		}
		if cnt == 0 {
			c.Undec(g.typ+"."+g.field+" accesses", "", "no access found")
		}
	}
	// promoted net.Conn methods of *socket read the embedded Conn without s.mu
	sockN := p.Named(Root+"/socket", "socket")
	ms := types.NewMethodSet(types.NewPointer(sockN))
	var promoted []string
	for i := 0; i < ms.Len(); i++ {
		sel := ms.At(i)
		if len(sel.Index()) > 1 { // promoted through an embedded field
			st := sockN.Underlying().(*types.Struct)
			if st.Field(sel.Index()[0]).Name() == "Conn" {
				promoted = append(promoted, sel.Obj().Name())
			}
		}
	}
	sort.Strings(promoted)
	for _, m := range promoted {
		c.Viol("socket."+m+" promoted from the embedded net.Conn", p.Pos(sockN.Obj().Pos()), "method "+m+" of *socket is promoted from the embedded net.Conn: its implicit read of s.Conn is not protected by s.mu, while Reset (redial, ModifySocket) replaces s.Conn under s.mu - data race with e.g. sess.RemoteAddr()/SetWriteDeadline during a redial")
	}
}

func runC14_3(c *Ctx) {
	p := c.P
	ccN := p.Named(Root, "callCmd")
	doneM := p.MethodObj(Root, "callCmd", "done")
	cancelM := p.MethodObj(Root, "callCmd", "cancel")
	n := 0
	for _, fn := range p.ShippedFuncs() {
		if fn.Pkg == nil || fn.Pkg.Pkg.Path() != Root {
			continue
		}
		for _, call := range AllCalls(fn) {
			if !IsCallTo(call, doneM, cancelM) {
				continue
			}
			if _, isCall := call.(*ssa.Call); !isCall {
				continue
			}
			n++
			writes := p.ReachableFrom(call, func(i ssa.Instruction) bool {
				st, ok := i.(*ssa.Store)
				if !ok {
					return false
				}
				fr, _, ok := FieldOfAddr(st.Addr)
				return ok && fr.Struct == ccN
			}, nil, nil)
			c.fact("path-search")
			key := fmt.Sprintf("no callCmd write after %s() in %s", CalleeObj(call).Name(), FnName(fn))
			c.Check(len(writes) == 0, key, p.InstrPos(call), "completion is the last write to the call", fmt.Sprintf("callCmd field written at %s after completion was signalled: the caller, released by the done channel, reads it concurrently", posOfFirst(p, writes)))
		}
	}
	// inside done/cancel: the signal (close) is after the stat/table writes
	for _, name := range []string{"done", "cancel"} {
		fn := p.Fn(Root, "callCmd", name)
		var closeI ssa.Instruction
		Instrs(fn, func(i ssa.Instruction) {
			if call, ok := i.(ssa.CallInstruction); ok {
				if b, ok := call.Common().Value.(*ssa.Builtin); ok && b.Name() == "close" {
					closeI = i
				}
			}
		})
		ok := closeI != nil
		if ok {
			late := p.ReachableFrom(closeI, func(i ssa.Instruction) bool {
				st, ok := i.(*ssa.Store)
				if !ok {
					return false
				}
				fr, _, ok := FieldOfAddr(st.Addr)
				return ok && fr.Struct == ccN
			}, nil, nil)
			ok = len(late) == 0
		}
		c.Check(ok, "callCmd."+name+": nothing written after the signal", p.Pos(fn.Pos()), "close(doneChan) follows every write", "callCmd."+name+" writes a field after closing the done channel")
	}
	if n < 3 {
		c.Undec("completion call sites", "", fmt.Sprintf("found %d", n))
	}
}

func runC14_4(c *Ctx) {
	p := c.P
	tp := Root + "/proto/thriftproto"
	for _, s := range []struct {
		typ, fn, lock string
	}{{"tBinaryProto", "binaryPack", "packLock"}, {"tBinaryProto", "binaryUnpack", "unpackLock"}, {"tStructProto", "structPack", "packLock"}, {"tStructProto", "structUnpack", "unpackLock"}} {
		fn := p.Fn(tp, s.typ, s.fn)
		n, mIdx := p.FieldIndex(tp, "tBinaryProto", s.lock)
		n2 := p.Named(tp, s.typ)
		ok := true
		cnt := 0
		for _, call := range AllCalls(fn) {
			o := CalleeObj(call)
			if o == nil || o.Pkg() == nil || o.Pkg().Path() != Root+"/utils" {
				continue
			}
			switch o.Name() {
			case "Zero", "Readed", "Writed":
				cnt++
				if !heldAt(p, fn, n, mIdx, call) && !heldAt(p, fn, n2, mIdx, call) {
					ok = false
				}
			}
		}
		c.fact("lockset")
		c.Check(ok && cnt >= 2, s.typ+"."+s.fn+" counters under "+s.lock, p.Pos(fn.Pos()), fmt.Sprintf("%d counter accesses, all with %s held", cnt, s.lock), "a thrift byte counter is accessed without its direction's lock")
	}
}

func runC14_5(c *Ctx) {
	p := c.P
	sessN := p.Named(Root, "session")
	wgAdd := p.MethodObj("sync", "WaitGroup", "Add")
	wgWait := p.MethodObj("sync", "WaitGroup", "Wait")
	st := sessN.Underlying().(*types.Struct)
	for fi := 0; fi < st.NumFields(); fi++ {
		f := st.Field(fi)
		if n, ok := f.Type().(*types.Named); !ok || n.Obj().Name() != "WaitGroup" {
			continue
		}
		type site struct {
			fn   *ssa.Function
			call ssa.CallInstruction
		}
		var adds, waits []site
		for _, fn := range p.ShippedFuncs() {
			for _, call := range AllCalls(fn) {
				o := CalleeObj(call)
				if (o != wgAdd && o != wgWait) || !isFieldAddr(call.Common().Args[0], sessN, fi) {
					continue
				}
				if o == wgAdd {
					adds = append(adds, site{fn, call})
				} else {
					waits = append(waits, site{fn, call})
				}
			}
		}
		// mutexes held at the waits
		muts := []int{}
		for mi := 0; mi < st.NumFields(); mi++ {
			if n, ok := st.Field(mi).Type().(*types.Named); ok && (n.Obj().Name() == "Mutex" || n.Obj().Name() == "RWMutex") {
				muts = append(muts, mi)
			}
		}
		for _, a := range adds {
			shared := false
			for _, mi := range muts {
				allWaits := len(waits) > 0
				for _, w := range waits {
					if !heldAt(p, w.fn, sessN, mi, w.call) {
						allWaits = false
					}
				}
				if allWaits && heldAt(p, a.fn, sessN, mi, a.call) {
					shared = true
				}
			}
			c.fact("lockset")
			key := fmt.Sprintf("%s.Add in %s vs Wait", f.Name(), FnName(a.fn))
			c.Check(shared, key, p.InstrPos(a.call), "Add and Wait share a mutex", fmt.Sprintf("session.%s.Add(1) in %s is not ordered with the Wait in closeLocked/readDisconnected by any mutex: while a close is waiting at counter zero, the read loop (allowed to run while closing actively) or a new call can Add - a WaitGroup misuse the race detector reports, and a handler/call the close no longer waits for", f.Name(), FnName(a.fn)))
		}
	}
}

var _ = strings.Contains
var _ = token.ADD

func runC14_6(c *Ctx) {
	p := c.P
	set := p.MethodObj(Root, "SessionHub", "set")
	loop := p.Fn(Root, "session", "startReadAndHandle")
	anyway := p.FuncObj(Root, "AnywayGo")
	sessN := p.Named(Root, "session")
	n := 0
	for _, fn := range p.ShippedFuncs() {
		if fn.Pkg == nil || fn.Pkg.Pkg.Path() != Root {
			continue
		}
		idx := map[string]int{}
		for _, call := range AllCalls(fn) {
			what := ""
			if CalleeObj(call) == set {
				what = "index insert"
			} else if CalleeObj(call) == anyway && len(call.Common().Args) == 1 {
				// AnywayGo(sess.startReadAndHandle): bound method closure
				if mc, ok := call.Common().Args[0].(*ssa.MakeClosure); ok {
					if f, isF := mc.Fn.(*ssa.Function); isF && (f == loop || strings.HasPrefix(f.Name(), "startReadAndHandle$bound")) {
						what = "read loop start"
					}
				}
			}
			if what == "" {
				continue
			}
			n++
			key := what + " in " + FnName(fn)
			idx[key]++
			if idx[key] > 1 {
				key = fmt.Sprintf("%s#%d", key, idx[key])
			}
			late := p.ReachableFrom(call, func(i ssa.Instruction) bool {
				st, ok := i.(*ssa.Store)
				if !ok {
					return false
				}
				fr, _, isF := FieldOfAddr(st.Addr)
				return isF && fr.Struct == sessN
			}, nil, nil)
			c.fact("path-search")
			if len(late) == 0 {
				c.Hold(key, p.InstrPos(call), "no plain store to a session field follows the publication in this function")
			} else {
				fr, _, _ := FieldOfAddr(late[0].(*ssa.Store).Addr)
				c.Viol(key, p.InstrPos(call), fmt.Sprintf("session.%s is written (plain store at %s) after the session was published: a goroutine that obtained the session from the index (GetSession/RangeSession) or the read loop reads the field concurrently without any ordering", fr.String(), p.InstrPos(late[0])))
			}
		}
	}
	if n < 4 {
		c.Undec("publication sites", "", fmt.Sprintf("found %d, expected >= 4", n))
	}
}
