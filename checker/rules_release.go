package main

import (
	"fmt"
	"go/token"
	"go/types"

	"golang.org/x/tools/go/ssa"
)

// Double release: an object handed back to its pool twice is handed out to two users at once
// (C20: the next user does not get a fresh object; C01: two sessions share one message).

func init() {
	text := "single release: no path of a function hands the same object back to its pool twice - neither two explicit releases of one value (without the variable being re-assigned in between) nor an explicit release of a variable that a deferred function of the same activation releases as well (PutMessage, putContext, ReleaseArgs, ReleaseByteBuffer, BufferPool.Put)"
	register(&Rule{ID: "C20.7", Prop: "C20", Min: 20, Text: text, Run: runDoubleRelease})
	register(&Rule{ID: "C01.9", Prop: "C01", Min: 20, Text: text, Run: runDoubleRelease})
}

func releaseFuncs(p *Prog) map[*types.Func]int {
	return map[*types.Func]int{
		p.FuncObj(Root+"/socket", "PutMessage"):         0,
		p.MethodObj(Root, "peer", "putContext"):         0,
		p.FuncObj(Root+"/utils", "ReleaseArgs"):         0,
		p.FuncObj(Root+"/utils", "ReleaseByteBuffer"):   0,
		p.MethodObj(Root+"/utils", "BufferPool", "Put"): 0,
	}
}

// relKey identifies the released object: the variable (cell) it is read from, else the SSA value.
func relKey(v ssa.Value) ssa.Value {
	v = stripIface(v)
	if u, ok := v.(*ssa.UnOp); ok && u.Op == token.MUL {
		switch a := u.X.(type) {
		case *ssa.Alloc:
			return a
		case *ssa.FreeVar:
			if b := freeVarBinding(a); b != nil {
				return b
			}
			return a
		}
	}
	if fv, ok := v.(*ssa.FreeVar); ok {
		if b := freeVarBinding(fv); b != nil {
			return relKey(b)
		}
	}
	return v
}

func runDoubleRelease(c *Ctx) {
	p := c.P
	rel := releaseFuncs(p)
	relArg := func(call ssa.CallInstruction) (ssa.Value, bool) {
		o := CalleeObj(call)
		if o == nil {
			return nil, false
		}
		k, ok := rel[o]
		if !ok {
			return nil, false
		}
		args := CallArgs(call)
		if k >= len(args) {
			return nil, false
		}
		return args[k], true
	}
	n := 0
	for _, fn := range p.ShippedFuncs() {
		type ev struct {
			in  ssa.Instruction
			key ssa.Value
		}
		var explicit []ev
		var deferred []ev // Defer instruction + key released when it runs
		Instrs(fn, func(i ssa.Instruction) {
			call, ok := i.(ssa.CallInstruction)
			if !ok {
				return
			}
			if d, isDefer := i.(*ssa.Defer); isDefer {
				if a, isRel := relArg(call); isRel {
					deferred = append(deferred, ev{d, relKey(a)})
					return
				}
				// deferred closure releasing a captured variable
				var cl *ssa.Function
				switch x := d.Call.Value.(type) {
				case *ssa.MakeClosure:
					cl, _ = x.Fn.(*ssa.Function)
				case *ssa.Function:
					cl = x
				}
				if cl != nil {
					for _, inner := range AllCalls(cl) {
						if _, isCall := inner.(*ssa.Call); !isCall {
							continue
						}
						if a, isRel := relArg(inner); isRel {
							deferred = append(deferred, ev{d, relKey(a)})
						}
					}
				}
				return
			}
			if _, isGo := i.(*ssa.Go); isGo {
				return
			}
			if a, isRel := relArg(call); isRel {
				explicit = append(explicit, ev{i, relKey(a)})
			}
		})
		if len(explicit)+len(deferred) == 0 {
			continue
		}
		idx := map[string]int{}
		// a re-definition of the key between two releases makes them releases of different objects
		redefines := func(key ssa.Value) func(ssa.Instruction) bool {
			return func(i ssa.Instruction) bool {
				if st, ok := i.(*ssa.Store); ok && st.Addr == key {
					return true
				}
				if v, ok := i.(ssa.Value); ok && v == key {
					return true
				}
				return false
			}
		}
		for _, e := range explicit {
			n++
			key := fmt.Sprintf("release of %s in %s", describeVal(e.key), FnName(fn))
			idx[key]++
			if idx[key] > 1 {
				key = fmt.Sprintf("%s#%d", key, idx[key])
			}
			bad := ""
			for _, o := range explicit {
				if o.key != e.key {
					continue
				}
				hits := p.ReachableFrom(e.in, func(i ssa.Instruction) bool { return i == o.in }, redefines(e.key), nil)
				if len(hits) > 0 {
					bad = "released again at " + p.InstrPos(o.in)
				}
			}
			for _, d := range deferred {
				if d.key != e.key {
					continue
				}
				// the defer is registered on a path to this release (or after it): both run in this activation,
				// unless the variable is re-assigned after the explicit release (the deferred function then sees the new value)
				registered := Dominates(d.in, e.in) || len(p.ReachableFrom(d.in, func(i ssa.Instruction) bool { return i == e.in }, nil, nil)) > 0 ||
					len(p.ReachableFrom(e.in, func(i ssa.Instruction) bool { return i == d.in }, redefines(e.key), nil)) > 0
				if !registered {
					continue
				}
				reassigned := false
				if _, isCell := e.key.(*ssa.Alloc); isCell {
					ok, _ := p.MustPassBeforeExit(e.in, func(i ssa.Instruction) bool {
						st, isSt := i.(*ssa.Store)
						return isSt && st.Addr == e.key
					}, nil)
					reassigned = ok
				}
				if !reassigned {
					bad = "released again by the deferred function registered at " + p.InstrPos(d.in)
				}
			}
			c.fact("path-search")
			c.Check(bad == "", key, p.InstrPos(e.in), "no second release of this object on any path", "the object is handed back to its pool twice ("+bad+"): the pool then hands the same object to two users at once - their messages overwrite each other")
		}
		for _, d := range deferred {
			n++
			key := fmt.Sprintf("deferred release of %s in %s", describeVal(d.key), FnName(fn))
			idx[key]++
			if idx[key] > 1 {
				key = fmt.Sprintf("%s#%d", key, idx[key])
			}
			bad := ""
			for _, o := range deferred {
				if o.in != d.in && o.key == d.key {
					if len(p.ReachableFrom(d.in, func(i ssa.Instruction) bool { return i == o.in }, redefines(d.key), nil)) > 0 {
						bad = "a second deferred release is registered at " + p.InstrPos(o.in)
					}
				}
			}
			c.Check(bad == "", key, p.InstrPos(d.in), "the only deferred release of this object", "the object is handed back to its pool twice ("+bad+")")
		}
	}
	if n < 20 {
		c.Undec("release sites", "", fmt.Sprintf("found %d release sites, expected >= 20", n))
	}
}

func describeVal(v ssa.Value) string {
	switch x := v.(type) {
	case *ssa.Alloc:
		if x.Comment != "" {
			return "variable " + x.Comment
		}
	case *ssa.Parameter:
		return "parameter " + x.Name()
	case *ssa.Call:
		if o := CalleeObj(x); o != nil {
			return "result of " + o.Name() + "()"
		}
	case *ssa.Extract:
		if call, ok := x.Tuple.(*ssa.Call); ok {
			if o := CalleeObj(call); o != nil {
				return fmt.Sprintf("result #%d of %s()", x.Index, o.Name())
			}
		}
	case *ssa.Phi:
		if x.Comment != "" {
			return "variable " + x.Comment
		}
	}
	return v.Name()
}
