package main

// Clauses that several properties depend on: the same decision procedure is registered under each property it
// is a necessary condition of (round-3 seeded changes were caught by a sibling property's rule only).

func init() {
	register(&Rule{ID: "C13.10", Prop: "C13", Min: 4,
		Text: "calls in flight at the loss are completed exactly once: cancel() in the disconnect drain only on !hasReply() && stat.OK() (same obligations as C02.2) - a call its own writer has just failed must not be cancelled again (the reader would block for ever and the session never redials)",
		Run:  runC02_2})
	register(&Rule{ID: "C17.8", Prop: "C17", Min: 30,
		Text: "the secure plugin's pre-read and post-read hooks run on the same container: bindCall/bindPush switch to the handler's container BEFORE the body stages (same obligations as C09.4, stage order) - a route-level secure plugin whose pre-read hook is skipped never swaps in the envelope",
		Run:  runC09_4})
	register(&Rule{ID: "C06.9", Prop: "C06", Min: 3,
		Text: "input ending during a local Close leaves no caller blocked: readDisconnected drains the pending calls on every non-closed path, including ActiveClosing (same obligations as C02.6)",
		Run:  runC02_6})
	register(&Rule{ID: "C08.8", Prop: "C08", Min: 3,
		Text: "calls issued before closing complete with a connection error if the connection is lost first: the drain of readDisconnected also runs in the ActiveClosing state (same obligations as C02.6) - Close() waits for exactly that",
		Run:  runC02_6})
	register(&Rule{ID: "C01.10", Prop: "C01", Min: 2,
		Text: "metadata of another message is never observable: a recycled metadata slot is fully overwritten by both of its consumers (same obligations as C20.6)",
		Run:  runC20_6})
	register(&Rule{ID: "C04.12", Prop: "C04", Min: 3,
		Text: "the reply's status is not overwritten by the write result: AsyncCall holds the per-call mutex (deferred unlock) from before the publication until it returns, and completion happens under that mutex (same obligations as C02.3)",
		Run:  runC02_3})
	register(&Rule{ID: "C14.7", Prop: "C14", Min: 4,
		Text: "a completed call does not point into the pooled read context: reply metadata is copied into an Args owned by the call, the result is decoded into the call's own object (same obligations as C01.3)",
		Run:  runC01_3})
	register(&Rule{ID: "C07.12", Prop: "C07", Min: 2,
		Text: "a dial/accept hook that panics fails the establishment: the recover branch of postDial/postAccept sets the function's result (same obligations as C16.7)",
		Run:  runC16_7})
	register(&Rule{ID: "C16.8", Prop: "C16", Min: 23,
		Text: "every accept/dial plugin is consulted: the hook runners are canonical loops - the OK edge continues with the next plugin, only a non-OK verdict returns (same obligations as C09.1); a runner that returns after the first plugin never reaches the auth checker registered behind it",
		Run:  runC09_1})
	register(&Rule{ID: "C18.8", Prop: "C18", Min: 3,
		Text: "a slot is released only when the session ends: postDisconnect runs exactly once per close path and, after a connection loss, only on the non-redial tail (same obligations as C07.8) - a session that redials successfully keeps its slot",
		Run:  runC07_8})
	register(&Rule{ID: "C05.8", Prop: "C05", Min: 8,
		Text: "a packed payload is not overwritten before it is framed: no filter or protocol returns bytes of a pooled buffer it has released (same obligations as C12.6)",
		Run:  runPooledBufferEscape})
	register(&Rule{ID: "C01.11", Prop: "C01", Min: 8,
		Text: "no byte of another session's message: no filter or protocol returns bytes of a pooled buffer it has released (same obligations as C12.6) - a concurrent packer on another session takes the same buffer",
		Run:  runPooledBufferEscape})
}
