package main

import (
	"bufio"
	"encoding/json"
	"fmt"
	"os"
	"os/exec"
	"path/filepath"
	"regexp"
	"sort"
	"strings"
	"sync"
)

// A variant is a seeded mutation of the real tree, applied through a go/packages overlay in a
// sub-process; the named rule must report a violation on it ("the checker fires when the code is broken").
type variant struct {
	Name   string   `json:"name"`
	Prop   string   `json:"property"`
	Rules  []string `json:"expect_rules"`
	Patch  string   `json:"patch,omitempty"` // unified diff (seeded change)
	File   string   `json:"file,omitempty"`  // or: exact text substitution in one file
	Old    string   `json:"old,omitempty"`
	New    string   `json:"new,omitempty"`
	Origin string   `json:"origin"`
	Quiet  bool     `json:"quiet,omitempty"` // a behaviour-preserving refactoring: NO rule may report it
}

type variantResult struct {
	Name    string   `json:"name"`
	Origin  string   `json:"origin"`
	Rules   []string `json:"expect_rules"`
	Outcome string   `json:"outcome"` // fired | MISSED | quiet | FALSE-ALARM | skipped(<why>) | error(<why>)
	Fired   []string `json:"fired_rules,omitempty"`
}

func loadVariants(prop string) []variant {
	var out []variant
	// seeded changes produced by independent sub-agents
	dirs, _ := filepath.Glob(filepath.Join(*flagVerif, "seeded", "*"))
	sort.Strings(dirs)
	for _, d := range dirs {
		b, err := os.ReadFile(filepath.Join(d, "meta.json"))
		if err != nil {
			continue
		}
		var m struct {
			ID       string   `json:"id"`
			Breaks   string   `json:"breaks_property"`
			Expected []string `json:"expected_rules"`
		}
		if json.Unmarshal(b, &m) != nil || m.Breaks != prop || len(m.Expected) == 0 {
			continue
		}
		out = append(out, variant{Name: "seed-" + m.ID, Prop: prop, Rules: m.Expected, Patch: filepath.Join(d, "patch.diff"), Origin: "seeded change (sub-agent)"})
	}
	// behaviour-preserving refactorings (sub-agents): the checks must stay silent on them
	rdirs, _ := filepath.Glob(filepath.Join(*flagVerif, "refactorings", "*"))
	sort.Strings(rdirs)
	for _, d := range rdirs {
		b, err := os.ReadFile(filepath.Join(d, "meta.json"))
		if err != nil {
			continue
		}
		var m struct {
			ID       string   `json:"id"`
			Relevant []string `json:"relevant_properties"`
			Quiet    *bool    `json:"quiet_variant"` // false: a refactoring some rule still does not recognise (DESIGN section 8)
		}
		if json.Unmarshal(b, &m) != nil {
			continue
		}
		if m.Quiet != nil && !*m.Quiet {
			continue
		}
		for _, r := range m.Relevant {
			if r == prop {
				out = append(out, variant{Name: "refactor-" + m.ID, Prop: prop, Quiet: true, Patch: filepath.Join(d, "patch.diff"), Origin: "behaviour-preserving refactoring (sub-agent)"})
			}
		}
	}
	// hand-written micro mutations
	files, _ := filepath.Glob(filepath.Join(*flagVerif, "variants", prop+"-*.json"))
	sort.Strings(files)
	for _, f := range files {
		b, err := os.ReadFile(f)
		if err != nil {
			continue
		}
		var v variant
		if json.Unmarshal(b, &v) == nil {
			v.Prop = prop
			if v.Name == "" {
				v.Name = strings.TrimSuffix(filepath.Base(f), ".json")
			}
			if v.Origin == "" {
				v.Origin = "hand-written mutation"
			}
			out = append(out, v)
		}
	}
	return out
}

var diffFileRe = regexp.MustCompile(`(?m)^\+\+\+ b/(\S+)`)

// prepareOverlay materialises the mutated files in tmp and returns the overlay map file.
func prepareOverlay(v variant, tmp string) (string, error) {
	overlay := map[string]string{}
	if v.Patch != "" {
		pb, err := os.ReadFile(v.Patch)
		if err != nil {
			return "", err
		}
		for _, m := range diffFileRe.FindAllStringSubmatch(string(pb), -1) {
			rel := m[1]
			src := filepath.Join(*flagRepo, rel)
			dst := filepath.Join(tmp, rel)
			os.MkdirAll(filepath.Dir(dst), 0o755)
			overlay[src] = dst
			b, err := os.ReadFile(src)
			if err != nil {
				// a file the patch creates: git apply writes it, the overlay adds it to the package
				if strings.Contains(string(pb), "new file mode") {
					continue
				}
				return "", fmt.Errorf("skipped(file %s missing)", rel)
			}
			if err := os.WriteFile(dst, b, 0o644); err != nil {
				return "", err
			}
		}
		cmd := exec.Command("git", "apply", "--unsafe-paths", "-p1", v.Patch)
		cmd.Dir = tmp
		cmd.Env = append(os.Environ(), "GIT_DIR=/nonexistent", "GIT_CEILING_DIRECTORIES=/")
		if out, err := cmd.CombinedOutput(); err != nil {
			return "", fmt.Errorf("skipped(patch does not apply to the current tree: %s)", strings.TrimSpace(firstLine(string(out))))
		}
	} else {
		src := filepath.Join(*flagRepo, v.File)
		b, err := os.ReadFile(src)
		if err != nil {
			return "", fmt.Errorf("skipped(file %s missing)", v.File)
		}
		if strings.Count(string(b), v.Old) != 1 {
			return "", fmt.Errorf("skipped(anchor text occurs %d times in %s)", strings.Count(string(b), v.Old), v.File)
		}
		dst := filepath.Join(tmp, v.File)
		os.MkdirAll(filepath.Dir(dst), 0o755)
		if err := os.WriteFile(dst, []byte(strings.Replace(string(b), v.Old, v.New, 1)), 0o644); err != nil {
			return "", err
		}
		overlay[src] = dst
	}
	of := filepath.Join(tmp, "overlay.json")
	ob, _ := json.Marshal(overlay)
	return of, os.WriteFile(of, ob, 0o644)
}

func firstLine(s string) string {
	if i := strings.IndexByte(s, '\n'); i >= 0 {
		return s[:i]
	}
	return s
}

// runSub runs this checker on the property with extra arguments and returns the violated/undecided rule ids.
func runSub(prop string, extra []string, env []string) (violated map[string]bool, summary string, err error) {
	args := append([]string{"-prop", prop, "-repo", *flagRepo, "-verif", *flagVerif, "-no-evidence", "-tier", "quick"}, extra...)
	cmd := exec.Command(os.Args[0], args...)
	cmd.Env = append(os.Environ(), env...)
	out, _ := cmd.Output()
	violated = map[string]bool{}
	sc := bufio.NewScanner(strings.NewReader(string(out)))
	sc.Buffer(make([]byte, 1<<20), 1<<22)
	re := regexp.MustCompile(`^(violated|UNDECIDED) rule=(\S+) `)
	for sc.Scan() {
		l := sc.Text()
		if m := re.FindStringSubmatch(l); m != nil {
			violated[m[2]] = true
		}
		if strings.HasPrefix(l, "SUMMARY ") {
			summary = l
		}
		if strings.HasPrefix(l, "ERROR ") {
			err = fmt.Errorf("%s", l)
		}
	}
	if summary == "" && err == nil {
		err = fmt.Errorf("sub-run produced no summary")
	}
	return
}

func runVariants(prop string) []variantResult {
	vs := loadVariants(prop)
	res := make([]variantResult, len(vs))
	sem := make(chan struct{}, 5)
	var wg sync.WaitGroup
	for i, v := range vs {
		wg.Add(1)
		go func(i int, v variant) {
			defer wg.Done()
			sem <- struct{}{}
			defer func() { <-sem }()
			r := variantResult{Name: v.Name, Origin: v.Origin, Rules: v.Rules}
			tmp, err := os.MkdirTemp("", "tpv-")
			if err != nil {
				r.Outcome = "error(" + err.Error() + ")"
				res[i] = r
				return
			}
			defer os.RemoveAll(tmp)
			of, err := prepareOverlay(v, tmp)
			if err != nil {
				if strings.HasPrefix(err.Error(), "skipped(") {
					r.Outcome = err.Error()
				} else {
					r.Outcome = "error(" + err.Error() + ")"
				}
				res[i] = r
				return
			}
			viol, _, err := runSub(prop, []string{"-overlay", of}, nil)
			if err != nil {
				// a mutation that no longer type-checks says nothing about the rule
				r.Outcome = "skipped(mutant does not load: " + err.Error() + ")"
				res[i] = r
				return
			}
			for k := range viol {
				r.Fired = append(r.Fired, k)
			}
			sort.Strings(r.Fired)
			if v.Quiet {
				r.Outcome = "quiet"
				if len(viol) > 0 {
					r.Outcome = "FALSE-ALARM"
				}
				res[i] = r
				return
			}
			r.Outcome = "MISSED"
			for _, want := range v.Rules {
				if viol[want] {
					r.Outcome = "fired"
				}
			}
			res[i] = r
		}(i, v)
	}
	wg.Wait()
	return res
}

// runOtherConfig re-evaluates the property under another build configuration and compares the set of violated rules.
func runOtherConfig(prop string, quickViolated map[string]bool, goarch string) (same bool, detail string) {
	viol, _, err := runSub(prop, nil, []string{"TPCHECK_GOARCH=" + goarch})
	if err != nil {
		return false, "configuration linux/" + goarch + ": " + err.Error()
	}
	var diff []string
	for k := range viol {
		if !quickViolated[k] {
			diff = append(diff, "+"+k)
		}
	}
	for k := range quickViolated {
		if !viol[k] {
			diff = append(diff, "-"+k)
		}
	}
	sort.Strings(diff)
	return len(diff) == 0, "configuration linux/" + goarch + ": " + strings.Join(diff, " ")
}
