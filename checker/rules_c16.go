package main

import (
	"fmt"
	"go/token"
	"go/types"

	"golang.org/x/tools/go/ssa"
)

const authPkg = Root + "/plugin/auth"

func init() {
	register(&Rule{ID: "C16.1", Prop: "C16", Min: 4,
		Text: "nothing starts before the accept/dial hooks succeeded: at each of the four establishment sites the read loop (startReadAndHandle, directly or via AnywayGo) is started only on the hook-success edge (status Ok and index insert: C07.3, C07.6)",
		Run:  runC16_1})
	register(&Rule{ID: "C16.2", Prop: "C16", Min: 4,
		Text: "pre-session I/O is gated by the preparing state: in PreSend, PreReceive, PreCall, PreReply every socket I/O (send/doSend/ReadMessage/PreReceive) is dominated by the true edge of checkStatus(statusPreparing); the false edge returns the misuse status",
		Run:  runC16_2})
	register(&Rule{ID: "C16.3", Prop: "C16", Min: 2,
		Text: "per-message entry points are reachable only through gated paths: binding() is only installed as the body factory of pooled contexts' input (read loop), and handlers are invoked only from handleCall/handlePush (C03.3) which only handle() calls (C03.1)",
		Run:  runC16_3})
	register(&Rule{ID: "C16.4", Prop: "C16", Min: 4,
		Text: "the auth verdict is what the accept hook returns: authCheckerPlugin.PostAccept returns nil only when no checker is configured, otherwise the checker's status, or the PreSend failure on its non-OK edge; authBearerPlugin.PostDial returns the bearer function's status",
		Run:  runC16_4})
	register(&Rule{ID: "C16.7", Prop: "C16", Min: 2,
		Text: "a hook that panics rejects: in every hook runner of the plugin container that returns a *Status and recovers (postAccept, postDial, ...), the status assigned in the recover branch is the function's RESULT variable (the value the recovered activation returns), and it is a non-nil status - a runner that recovers into a local returns nil, i.e. accepts the connection",
		Run:  runC16_7})
	register(&Rule{ID: "C16.6", Prop: "C16", Min: 5,
		Text: "a rejected connection is closed and not listed: on the non-OK edge of the accept/dial hooks every path removes the session from the index (C07.11), and closeLocked deletes the index entry for every state it closes from - including Preparing, since a hook may have indexed the session through SetID",
		Run:  func(c *Ctx) { runC07_11(c); checkCloseLockedDeletes(c) }})
	register(&Rule{ID: "C16.5", Prop: "C16", Min: 2,
		Text: "the exchange happens once per connection: the RecvOnce/SendOnce closures start with a CAS on a flag allocated per hook invocation; the failure edge returns the misuse status and all I/O is on the success edge",
		Run:  runC16_5})
}

func runC16_1(c *Ctx) {
	p := c.P
	sub := &Ctx{P: p, rule: c.rule, Facts: c.Facts}
	sites := establishmentSites(sub)
	start := p.Fn(Root, "session", "startReadAndHandle")
	startM := p.MethodObj(Root, "session", "startReadAndHandle")
	isStart := func(i ssa.Instruction) bool {
		if IsCallTo(i, startM) {
			return true
		}
		// AnywayGo(sess.startReadAndHandle): a bound-method closure of startReadAndHandle passed on
		if call, ok := i.(ssa.CallInstruction); ok {
			for _, a := range call.Common().Args {
				if mc, ok := a.(*ssa.MakeClosure); ok {
					if bf, ok := mc.Fn.(*ssa.Function); ok && bf.Synthetic != "" && bf.Object() == start.Object() {
						return true
					}
				}
			}
		}
		return false
	}
	startEf := effect{"read loop start", isStart}
	n := 0
	for _, s := range sites {
		starts := p.performs(s.fn, startEf, 0)
		if len(starts) == 0 {
			c.Viol(s.name+" starts the read loop", p.Pos(s.fn.Pos()), "no start of the read loop found at this establishment site")
			continue
		}
		for _, st := range starts {
			n++
			c.fact("dominance")
			c.Check(p.guardedBySites(sites, s.fn, st, 0), s.name+" read loop only after hooks", p.InstrPos(st), "dominated by the "+s.how, "the read loop is started in "+s.name+" on a path where the accept/dial hooks (authentication) have not succeeded: handlers and message hooks run for an unauthenticated connection")
		}
	}
	// no other start of the read loop anywhere: every start is in a site or in a helper called only on hook-success edges
	for _, fn := range p.ShippedFuncs() {
		Instrs(fn, func(i ssa.Instruction) {
			if !isStart(i) {
				return
			}
			if !p.guardedBySites(sites, fn, i, 0) {
				in := false
				for _, s := range sites {
					if s.fn == fn {
						in = true
					}
				}
				if !in {
					c.Viol("read loop started in "+FnName(fn), p.InstrPos(i), "startReadAndHandle is started outside the four establishment sites (or in a helper that is not called only on their hook-success edges)")
				}
			}
		})
	}
	for _, u := range p.funcValueUses(start) {
		if !isStart(u) && !p.guardedBySites(sites, u.Parent(), u, 0) {
			// a bound-method value that is not handed straight to the goroutine starter
			ok := false
			if mc, isMC := u.(*ssa.MakeClosure); isMC && mc.Referrers() != nil {
				for _, r := range *mc.Referrers() {
					if isStart(r) {
						ok = true
					}
				}
			}
			if !ok {
				c.Viol("read loop value in "+FnName(u.Parent()), p.InstrPos(u), "startReadAndHandle escapes as a function value outside the establishment sites")
			}
		}
	}
	if n < 4 {
		c.Undec("read-loop starts", "", fmt.Sprintf("found %d starts of the read loop, expected 4", n))
	}
}

func runC16_2(c *Ctx) {
	p := c.P
	st := p.statusTable()
	check := p.MethodObj(Root, "session", "checkStatus")
	ios := []string{"send", "doSend", "PreReceive"}
	readMsg := p.MethodObj(Root+"/socket", "Socket", "ReadMessage")
	writeMsg := p.MethodObj(Root+"/socket", "Socket", "WriteMessage")
	unprepared := p.Global(Root, "statUnpreparedError")
	for _, name := range []string{"PreSend", "PreReceive", "PreCall", "PreReply"} {
		fn := p.Fn(Root, "session", name)
		var gate *CondEdge
		for _, e := range CondCallEdges(fn, check) {
			vals, ok := VariadicInts(CallArgs(e.Call)[0])
			if ok && len(vals) == 1 && st.name[vals[0]] == "statusPreparing" {
				e := e
				gate = &e
			}
		}
		key := name + " gated by checkStatus(statusPreparing)"
		if gate == nil {
			c.Viol(key, p.Pos(fn.Pos()), name+" has no checkStatus(statusPreparing) gate: pre-session I/O possible on an established (or closed) session, bypassing hooks and the write lock discipline")
			continue
		}
		ok := true
		nIO := 0
		for _, f := range WithAnon(fn) {
			for _, call := range AllCalls(f) {
				isIO := IsCallTo(call, readMsg, writeMsg)
				for _, m := range ios {
					if IsCallTo(call, p.MethodObj(Root, "session", m)) {
						isIO = true
					}
				}
				if !isIO {
					continue
				}
				nIO++
				if f != fn || !BlockDominatesInstr(gate.True, call) {
					ok = false
				}
			}
		}
		// the false edge returns without I/O, carrying the misuse status
		retOK := false
		w := &Walk{P: p}
		w.FromBlock(gate.False)
		for _, e := range w.Exits {
			r := e.(*ssa.Return)
			if len(r.Results) == 0 {
				continue
			}
			v := ReturnVals(r)[0]
			if IsLoadOfGlobal(v, unprepared) {
				retOK = true
			}
			// PreReceive returns the message with SetStatus(statUnpreparedError)
			if name == "PreReceive" {
				Instrs(fn, func(i ssa.Instruction) {
					if call, isC := i.(ssa.CallInstruction); isC && CalleeObj(call) != nil && CalleeObj(call).Name() == "SetStatus" && BlockDominatesInstr(gate.False, i) {
						if IsLoadOfGlobal(call.Common().Args[0], unprepared) {
							retOK = true
						}
					}
				})
			}
		}
		c.fact("dominance")
		c.Check(ok && nIO > 0 && retOK, key, p.InstrPos(gate.If), fmt.Sprintf("%d I/O call(s), all on the preparing edge; refusal returns statUnpreparedError", nIO),
			name+": socket I/O not confined to the statusPreparing edge (or the refusal does not report the misuse status)")
	}
}

func runC16_3(c *Ctx) {
	p := c.P
	binding := p.Fn(Root, "handlerCtx", "binding")
	allowed := map[*ssa.Function]bool{p.Fn(Root, "", "newReadHandleCtx"): true, p.Fn(Root, "handlerCtx", "clean"): true}
	uses := p.funcValueUses(binding)
	if len(uses) == 0 {
		c.Undec("binding installation", p.Pos(binding.Pos()), "binding is never installed as a body factory")
		return
	}
	for _, u := range uses {
		c.Check(allowed[u.Parent()], "binding installed in "+FnName(u.Parent()), p.InstrPos(u), "installed on a pooled context's input message only", "binding (the per-message hook/route entry point) is installed outside the pooled context constructors: per-message hooks can run on a path that is not gated by the read loop")
	}
	// direct calls of binding: none
	bm := p.MethodObj(Root, "handlerCtx", "binding")
	n := 0
	for _, fn := range p.ShippedFuncs() {
		n += len(CallsTo(fn, bm))
	}
	c.fact("callers")
	c.Check(n == 0, "binding never called directly", p.Pos(binding.Pos()), "only invoked by the message decoder through NewBodyFunc", "binding is called directly somewhere: per-message hooks can run outside the read loop")
	// the context input is read only by the read loop: ReadMessage callers
	readMsg := p.MethodObj(Root+"/socket", "Socket", "ReadMessage")
	readers := map[string]bool{}
	for _, fn := range p.ShippedFuncs() {
		if fn.Pkg == nil || fn.Pkg.Pkg.Path() != Root {
			continue
		}
		if len(CallsTo(fn, readMsg)) > 0 {
			readers[fn.Name()] = true
		}
	}
	okReaders := true
	for r := range readers {
		if r != "startReadAndHandle" && r != "readMessage" && r != "PreReceive" {
			okReaders = false
		}
	}
	c.Check(okReaders && len(readers) >= 2, "Socket.ReadMessage callers", p.Pos(binding.Pos()), fmt.Sprintf("only the read loop and PreReceive read from the socket (%v)", sortedKeys(readers)), fmt.Sprintf("unexpected reader of the session socket: %v", sortedKeys(readers)))
}

func runC16_4(c *Ctx) {
	p := c.P
	okM := p.MethodObj("github.com/henrylee2cn/goutil/status", "Status", "OK")
	preSend := p.MethodObj(Root, "PreSession", "PreSend")
	// checker
	pa := p.Fn(authPkg, "authCheckerPlugin", "PostAccept")
	acN, cfIdx := p.FieldIndex(authPkg, "authCheckerPlugin", "checkerFunc")
	var verdict ssa.Value // extract #1 of the checkerFunc call
	Instrs(pa, func(i ssa.Instruction) {
		ex, ok := i.(*ssa.Extract)
		if !ok || ex.Index != 1 {
			return
		}
		call, ok := ex.Tuple.(*ssa.Call)
		if ok && isFieldLoad(call.Call.Value, acN, cfIdx) {
			verdict = ex
		}
	})
	if verdict == nil {
		c.Undec("PostAccept verdict", p.Pos(pa.Pos()), "cannot find the call of the configured checker function")
		return
	}
	n := 0
	Instrs(pa, func(i ssa.Instruction) {
		ret, ok := i.(*ssa.Return)
		if !ok {
			return
		}
		n++
		v := ReturnVals(ret)[0]
		key := "authCheckerPlugin.PostAccept return"
		pos := p.InstrPos(ret)
		switch {
		case IsNilConst(v):
			dom := false
			for _, e := range NilCmpEdges(pa, func(x ssa.Value) bool { return isFieldLoad(x, acN, cfIdx) }) {
				if BlockDominatesInstr(e.Nil, ret) {
					dom = true
				}
			}
			c.Check(dom, key, pos, "nil only when no checker is configured", "PostAccept returns nil (accept) on a path where a checker is configured: the connection is admitted without a verdict")
		case v == verdict:
			c.Hold(key, pos, "returns the checker's status")
		default:
			// PreSend failure on its non-OK edge
			call, isCall := v.(*ssa.Call)
			good := false
			if isCall && CalleeObj(call) == preSend {
				for _, e := range CondCallEdges(pa, okM) {
					if e.Recv == v && BlockDominatesInstr(e.False, ret) {
						good = true
					}
				}
			}
			c.Check(good, key, pos, "returns the PreSend failure on its non-OK edge", "PostAccept returns a status that is neither the checker's verdict nor a send failure")
		}
	})
	c.fact("return-value-flow")
	if n < 3 {
		c.Undec("PostAccept returns", p.Pos(pa.Pos()), fmt.Sprintf("found %d returns, expected >= 3", n))
	}
	// bearer
	pd := p.Fn(authPkg, "authBearerPlugin", "PostDial")
	abN, bfIdx := p.FieldIndex(authPkg, "authBearerPlugin", "bearerFunc")
	Instrs(pd, func(i ssa.Instruction) {
		ret, ok := i.(*ssa.Return)
		if !ok {
			return
		}
		v := ReturnVals(ret)[0]
		key := "authBearerPlugin.PostDial return"
		if IsNilConst(v) {
			dom := false
			for _, e := range NilCmpEdges(pd, func(x ssa.Value) bool { return isFieldLoad(x, abN, bfIdx) }) {
				if BlockDominatesInstr(e.Nil, ret) {
					dom = true
				}
			}
			c.Check(dom, key, p.InstrPos(ret), "nil only when no bearer is configured", "PostDial returns nil although a bearer function is configured")
			return
		}
		call, isCall := v.(*ssa.Call)
		c.Check(isCall && isFieldLoad(call.Call.Value, abN, bfIdx), key, p.InstrPos(ret), "returns the bearer function's status", "PostDial does not return the bearer function's status")
	})
}

func runC16_5(c *Ctx) {
	p := c.P
	preSend := p.MethodObj(Root, "PreSession", "PreSend")
	preReceive := p.MethodObj(Root, "PreSession", "PreReceive")
	for _, s := range []struct {
		typ, fn, sentinel string
	}{{"authCheckerPlugin", "PostAccept", "MultiRecvErr"}, {"authBearerPlugin", "PostDial", "MultiSendErr"}} {
		fn := p.Fn(authPkg, s.typ, s.fn)
		sentinel := p.Global(authPkg, s.sentinel)
		key := s.typ + " once-closure"
		var once *ssa.Function
		// the closure handed to the session: the one that does the exchange (directly or through a helper of the package)
		for _, a := range fn.AnonFuncs {
			if len(p.callsReaching(a, preReceive)) > 0 {
				once = a
			}
		}
		if once == nil {
			c.Undec(key, p.Pos(fn.Pos()), "cannot find the RecvOnce/SendOnce closure")
			continue
		}
		// CAS on a free variable bound to a fresh Alloc of the hook invocation
		var casTrue, casFalse *ssa.BasicBlock
		perConn := false
		for _, b := range once.Blocks {
			ifi, ok := b.Instrs[len(b.Instrs)-1].(*ssa.If)
			if !ok {
				continue
			}
			cv, neg := stripNot(ifi.Cond)
			cas, ok := cv.(*ssa.Call)
			if !ok || CalleeObj(cas) == nil || CalleeObj(cas).FullName() != "sync/atomic.CompareAndSwapInt32" {
				continue
			}
			if fv, ok := cas.Call.Args[0].(*ssa.FreeVar); ok {
				if al, ok := freeVarBinding(fv).(*ssa.Alloc); ok && al.Parent() == fn && al.Heap {
					perConn = true
				}
			}
			o, okO := ConstIntOf(cas.Call.Args[1])
			n, okN := ConstIntOf(cas.Call.Args[2])
			if !okO || !okN || o != 0 || n != 1 {
				continue
			}
			casTrue, casFalse = b.Succs[0], b.Succs[1]
			if neg {
				casTrue, casFalse = casFalse, casTrue
			}
		}
		if casTrue == nil {
			c.Viol(key, p.Pos(once.Pos()), "the once-closure does not start with a CAS(0,1) on its flag: the auth exchange can be repeated on one connection")
			continue
		}
		ioOK := true
		nIO := 0
		for _, call := range append(p.callsReaching(once, preSend), p.callsReaching(once, preReceive)...) {
			nIO++
			if !BlockDominatesInstr(casTrue, call) {
				ioOK = false
			}
		}
		if nIO == 0 {
			ioOK = false
		}
		retOK := false
		w := &Walk{P: p}
		w.FromBlock(casFalse)
		for _, e := range w.Exits {
			if IsLoadOfGlobal(ReturnVals(e.(*ssa.Return))[0], sentinel) {
				retOK = true
			}
		}
		c.fact("dominance")
		c.Check(perConn && ioOK && retOK, key, p.Pos(once.Pos()), "flag allocated per hook invocation; CAS failure returns "+s.sentinel+"; all I/O on the success edge",
			fmt.Sprintf("once-closure broken (per-connection flag: %v, I/O only after CAS success: %v, misuse status on failure: %v)", perConn, ioOK, retOK))
	}
}

func runC16_7(c *Ctx) {
	p := c.P
	pscN := p.Named(Root, "pluginSingleContainer")
	statusPtr := types.NewPointer(p.Named(statusPkg, "Status"))
	n := 0
	for _, fn := range p.ShippedFuncs() {
		if fn.Signature.Recv() == nil || derefNamed(fn.Signature.Recv().Type()) != pscN {
			continue
		}
		res := fn.Signature.Results()
		if res.Len() != 1 || !types.Identical(res.At(0).Type(), statusPtr) {
			continue
		}
		var rec *ssa.Function
		var mc *ssa.MakeClosure
		Instrs(fn, func(i ssa.Instruction) {
			d, ok := i.(*ssa.Defer)
			if !ok {
				return
			}
			m, isMC := d.Call.Value.(*ssa.MakeClosure)
			if !isMC {
				return
			}
			cl, _ := m.Fn.(*ssa.Function)
			if cl == nil {
				return
			}
			Instrs(cl, func(j ssa.Instruction) {
				if call, isCall := j.(*ssa.Call); isCall {
					if b, isB := call.Call.Value.(*ssa.Builtin); isB && b.Name() == "recover" {
						rec, mc = cl, m
					}
				}
			})
		})
		if rec == nil {
			continue
		}
		n++
		key := "recover branch of " + fn.Name() + " sets the result"
		// the cell returned by the recovered activation
		var cell *ssa.Alloc
		if fn.Recover != nil {
			for _, in := range fn.Recover.Instrs {
				if ret, ok := in.(*ssa.Return); ok && len(ret.Results) == 1 {
					if u, isU := ret.Results[0].(*ssa.UnOp); isU && u.Op == token.MUL {
						cell, _ = u.X.(*ssa.Alloc)
					}
				}
			}
		}
		ok := false
		if cell != nil {
			for k, fv := range rec.FreeVars {
				if mc.Bindings[k] != ssa.Value(cell) {
					continue
				}
				// stored, non-nil, on the recover() != nil edge
				for _, e := range NilCmpEdges(rec, func(v ssa.Value) bool {
					call, isCall := v.(*ssa.Call)
					if !isCall {
						return false
					}
					b, isB := call.Call.Value.(*ssa.Builtin)
					return isB && b.Name() == "recover"
				}) {
					all, _ := p.MustPassBeforeExit(e.NonNil.Instrs[0], func(i ssa.Instruction) bool {
						st, isSt := i.(*ssa.Store)
						return isSt && st.Addr == ssa.Value(fv) && !IsNilConst(st.Val)
					}, nil)
					// the first instruction itself may be the store
					if st, isSt := e.NonNil.Instrs[0].(*ssa.Store); isSt && st.Addr == ssa.Value(fv) && !IsNilConst(st.Val) {
						all = true
					}
					if all {
						ok = true
					}
				}
			}
		}
		c.fact("must-pass")
		c.Check(ok, key, p.Pos(fn.Pos()), "the recovered activation returns the named result, which the recover branch sets to a non-nil status on every path",
			fn.Name()+" recovers from a panicking hook but the status it builds does not reach the caller (the recovered activation returns nil = OK): a checker that panics on a crafted credential accepts the connection")
	}
	if n < 2 {
		c.Undec("recovering hook runners", "", fmt.Sprintf("found %d, expected >= 2", n))
	}
}
