package main

import (
	"fmt"
	"go/token"
	"go/types"
	"sort"

	"golang.org/x/tools/go/ssa"
)

// Flow is a field-based, context-insensitive value-flow graph over SSA values of a
// chosen type family. Nodes are SSA values, struct fields (all instances of T.f are
// one location), globals, captured-variable cells, function parameters/results and
// one summary node per container element type. An edge a->b means "a value held by
// a may be held by b".
type Flow struct {
	P     *Prog
	Track func(types.Type) bool // which value types carry the tracked objects
	succ  map[interface{}][]interface{}
	scope map[*ssa.Function]bool
	Edges int
	// ExtAlias: for callees outside the scope, full name -> argument indexes (receiver = 0)
	// whose value the first result may alias (e.g. goutil.BytesToString: {0}).
	ExtAlias map[string][]int
	// ConvertCopies: string<->[]byte conversions copy (no alias edge).
	ConvertCopies bool
}

type fieldNode struct {
	T   *types.Named
	Idx int
}
type paramNode struct {
	Fn *ssa.Function
	I  int
}
type resultNode struct {
	Fn *ssa.Function
	I  int
}
type collNode struct{ Elem string }
type derefNode struct{ T string }

func (f fieldNode) String() string { return FieldRef{f.T, f.Idx}.String() }

// NewFlow builds the graph over the given functions.
func NewFlow(p *Prog, fns []*ssa.Function, track func(types.Type) bool) *Flow {
	return NewFlowOpt(p, fns, track, nil, false)
}

// NewFlowOpt is NewFlow with external alias summaries and copy-semantics for conversions.
func NewFlowOpt(p *Prog, fns []*ssa.Function, track func(types.Type) bool, extAlias map[string][]int, convertCopies bool) *Flow {
	fl := &Flow{P: p, Track: track, succ: map[interface{}][]interface{}{}, scope: map[*ssa.Function]bool{}, ExtAlias: extAlias, ConvertCopies: convertCopies}
	for _, fn := range fns {
		fl.scope[fn] = true
	}
	for _, fn := range fns {
		fl.buildFn(fn)
	}
	return fl
}

func (fl *Flow) edge(a, b interface{}) {
	if a == nil || b == nil || a == b {
		return
	}
	fl.succ[a] = append(fl.succ[a], b)
	fl.Edges++
}

func (fl *Flow) tracked(v ssa.Value) bool {
	return v != nil && fl.Track(v.Type())
}

// loc maps an address value to the abstract location it denotes.
func (fl *Flow) loc(addr ssa.Value) interface{} {
	switch a := addr.(type) {
	case *ssa.FieldAddr:
		if n := derefNamed(a.X.Type()); n != nil {
			return fieldNode{n, a.Field}
		}
		return derefNode{a.Type().String()}
	case *ssa.Global:
		return a
	case *ssa.Alloc:
		return a
	case *ssa.FreeVar:
		if b := freeVarBinding(a); b != nil {
			if al, ok := b.(*ssa.Alloc); ok {
				return al
			}
		}
		return a
	case *ssa.IndexAddr:
		return collNode{a.Type().String()}
	default:
		return derefNode{addr.Type().String()}
	}
}

func (fl *Flow) buildFn(fn *ssa.Function) {
	for pi, prm := range fn.Params {
		if fl.tracked(prm) {
			fl.edge(paramNode{fn, pi}, prm)
		}
	}
	for _, b := range fn.Blocks {
		for _, in := range b.Instrs {
			switch x := in.(type) {
			case *ssa.Store:
				if fl.tracked(x.Val) {
					fl.edge(x.Val, fl.loc(x.Addr))
				}
			case *ssa.UnOp:
				if x.Op == token.MUL && fl.tracked(x) {
					fl.edge(fl.loc(x.X), x)
					// an element loaded from a container inherits the container's taint
					if ia, ok := x.X.(*ssa.IndexAddr); ok {
						fl.edge(ia.X, x)
					}
				}
				if x.Op == token.ARROW && fl.tracked(x) {
					fl.edge(collNode{x.X.Type().String()}, x)
				}
			case *ssa.Send:
				if fl.tracked(x.X) {
					fl.edge(x.X, collNode{x.Chan.Type().String()})
				}
			case *ssa.Phi:
				if fl.tracked(x) {
					for _, e := range x.Edges {
						fl.edge(e, x)
					}
				}
			case *ssa.MakeInterface:
				if fl.tracked(x.X) {
					fl.edge(x.X, x)
				}
			case *ssa.ChangeInterface:
				fl.edge(x.X, x)
			case *ssa.ChangeType:
				if fl.tracked(x.X) {
					fl.edge(x.X, x)
				}
			case *ssa.Convert:
				if fl.tracked(x.X) && fl.tracked(x) && !fl.ConvertCopies {
					fl.edge(x.X, x)
				}
			case *ssa.Range:
				fl.edge(x.X, x)
			case *ssa.Next:
				fl.edge(x.Iter, x)
			case *ssa.TypeAssert:
				if fl.tracked(x) || x.CommaOk {
					fl.edge(x.X, x)
				}
			case *ssa.Extract:
				if fl.tracked(x) {
					if call, ok := x.Tuple.(*ssa.Call); ok {
						fl.edge(callResultKey{call, x.Index}, x)
					} else if _, isNext := x.Tuple.(*ssa.Next); !isNext || x.Index > 0 {
						fl.edge(x.Tuple, x)
					}
				}
			case *ssa.Field:
				if fl.tracked(x) {
					if n := derefNamed(x.X.Type()); n != nil {
						fl.edge(fieldNode{n, x.Field}, x)
					}
				}
			case *ssa.Lookup:
				if fl.tracked(x) {
					fl.edge(collNode{x.X.Type().String()}, x)
					fl.edge(x.X, x)
				}
			case *ssa.Index:
				if fl.tracked(x) {
					fl.edge(x.X, x)
				}
			case *ssa.MapUpdate:
				if fl.tracked(x.Value) {
					fl.edge(x.Value, collNode{x.Map.Type().String()})
				}
			case *ssa.Slice:
				if fl.tracked(x) {
					fl.edge(x.X, x)
				}
			case *ssa.MakeClosure:
				if f, ok := x.Fn.(*ssa.Function); ok {
					for bi, bv := range x.Bindings {
						if bi < len(f.FreeVars) {
							// cells are handled through loc(); plain captured values flow directly
							if _, isAlloc := bv.(*ssa.Alloc); !isAlloc && fl.tracked(bv) {
								fl.edge(bv, f.FreeVars[bi])
							}
						}
					}
				}
			case *ssa.Return:
				for ri, r := range x.Results {
					if fl.tracked(r) {
						fl.edge(r, resultNode{fn, ri})
					}
				}
			}
			if call, ok := in.(ssa.CallInstruction); ok {
				fl.buildCall(call)
			}
		}
	}
}

type callResultKey struct {
	Call *ssa.Call
	I    int
}

func (fl *Flow) buildCall(call ssa.CallInstruction) {
	cc := call.Common()
	callees := fl.P.SiteCallees(call)
	var args []ssa.Value
	if cc.IsInvoke() {
		args = append([]ssa.Value{cc.Value}, cc.Args...)
	} else {
		args = cc.Args
	}
	if fl.ExtAlias != nil {
		if o := CalleeObj(call); o != nil {
			if idxs, ok := fl.ExtAlias[o.FullName()]; ok {
				if v, ok := call.(*ssa.Call); ok {
					for _, ai := range idxs {
						if ai < len(args) {
							if v.Type() != nil {
								if tup, isTup := v.Type().(*types.Tuple); isTup && tup.Len() > 1 {
									fl.edge(args[ai], callResultKey{v, 0})
								} else {
									fl.edge(args[ai], v)
								}
							}
						}
					}
				}
			}
		}
	}
	for _, cal := range callees {
		if cal == nil || !fl.scope[cal] || cal.Blocks == nil {
			continue
		}
		// closures called through a MakeClosure value: free variables already linked
		for i, a := range args {
			if i < len(cal.Params) && fl.tracked(a) {
				fl.edge(a, paramNode{cal, i})
			}
		}
		if v, ok := call.(*ssa.Call); ok {
			n := cal.Signature.Results().Len()
			if n == 1 && fl.tracked(v) {
				fl.edge(resultNode{cal, 0}, v)
			} else if n > 1 {
				for i := 0; i < n; i++ {
					fl.edge(resultNode{cal, i}, callResultKey{v, i})
				}
			}
		}
	}
}

// Reach does a BFS from the sources; returns the predecessor map (node -> pred).
func (fl *Flow) Reach(sources []interface{}) map[interface{}]interface{} {
	pred := map[interface{}]interface{}{}
	var q []interface{}
	for _, s := range sources {
		if _, ok := pred[s]; !ok {
			pred[s] = nil
			q = append(q, s)
		}
	}
	for len(q) > 0 {
		n := q[0]
		q = q[1:]
		for _, m := range fl.succ[n] {
			if _, ok := pred[m]; !ok {
				pred[m] = n
				q = append(q, m)
			}
		}
	}
	return pred
}

// PathTo renders the flow path from a source to node n.
func (fl *Flow) PathTo(pred map[interface{}]interface{}, n interface{}) []string {
	var rev []string
	for cur := n; cur != nil; cur = pred[cur] {
		rev = append(rev, fl.describe(cur))
		if len(rev) > 40 {
			break
		}
	}
	out := make([]string, 0, len(rev))
	for i := len(rev) - 1; i >= 0; i-- {
		if len(out) > 0 && out[len(out)-1] == rev[i] {
			continue
		}
		out = append(out, rev[i])
	}
	return out
}

func (fl *Flow) describe(n interface{}) string {
	p := fl.P
	switch x := n.(type) {
	case *ssa.Global:
		return "global " + x.Name()
	case fieldNode:
		return "field " + x.String()
	case paramNode:
		return fmt.Sprintf("param #%d of %s", x.I, FnName(x.Fn))
	case resultNode:
		return fmt.Sprintf("result #%d of %s", x.I, FnName(x.Fn))
	case callResultKey:
		return fmt.Sprintf("result #%d of call at %s", x.I, p.InstrPos(x.Call))
	case collNode:
		return "element of " + x.Elem
	case derefNode:
		return "*(" + x.T + ")"
	case *ssa.Alloc:
		return "variable " + x.Comment + " at " + p.Pos(x.Pos())
	case ssa.Instruction:
		return fmt.Sprintf("%s at %s", shortInstr(x), p.InstrPos(x))
	case ssa.Value:
		return x.Name() + " (" + x.String() + ")"
	}
	return fmt.Sprintf("%v", n)
}

func shortInstr(i ssa.Instruction) string {
	s := i.String()
	if len(s) > 70 {
		s = s[:70] + "..."
	}
	return s
}

// sortInstrs orders instructions by position string for stable output.
func sortInstrs(p *Prog, is []ssa.Instruction) {
	sort.Slice(is, func(a, b int) bool { return p.InstrPos(is[a]) < p.InstrPos(is[b]) })
}
