package main

import (
	"fmt"
	"go/types"
	"sort"

	"golang.org/x/tools/go/ssa"
)

// resetSpec describes one (type, reset function) pair of C20.1.
type resetSpec struct {
	pkg, typ, fn string
	// exempt: field -> one-line reason
	exempt map[string]string
	// how each field may be reset besides a direct store: field -> accepted callee (pkg, type, method)
	viaMethod map[string][3]string
	// fields reset by a method of the receiver itself
	viaSelf map[string]string
	// expectation on a directly stored value: "zero" (default), "slice0" (x = x[:0]), "any"
	want map[string]string
}

var resetSpecs = []resetSpec{
	{pkg: Root + "/socket", typ: "message", fn: "Reset",
		viaMethod: map[string][3]string{"meta": {Root + "/utils", "Args", "Reset"}, "xferPipe": {Root + "/xfer", "XferPipe", "Reset"}}},
	{pkg: Root, typ: "handlerCtx", fn: "clean",
		exempt:    map[string]string{"start": "timing statistic overwritten by binding()/Push before any read; never transmitted, no public accessor"},
		viaMethod: map[string][3]string{"input": {Root + "/socket", "Message", "Reset"}, "output": {Root + "/socket", "Message", "Reset"}},
		want:      map[string]string{"arg": "any"}},
	{pkg: Root + "/utils", typ: "Args", fn: "Reset",
		exempt: map[string]string{"buf": "scratch buffer, always re-sliced from [:0] before use"},
		want:   map[string]string{"args": "slice0"}},
	{pkg: Root + "/xfer", typ: "XferPipe", fn: "Reset", want: map[string]string{"filters": "slice0"}},
	{pkg: Root + "/utils", typ: "ByteBuffer", fn: "Reset", want: map[string]string{"B": "slice0"}},
	{pkg: Root + "/socket", typ: "socket", fn: "Reset",
		exempt:    map[string]string{"idMutex": "mutex", "swapMutex": "mutex", "mu": "mutex", "fromPool": "pool membership flag, constant for the object's life"},
		viaMethod: map[string][3]string{"readerWithBuffer": {"bufio", "Reader", "Reset"}},
		viaSelf:   map[string]string{"id": "SetID"},
		want:      map[string]string{"Conn": "any", "protocol": "any", "curState": "any"}},
}

func isZeroConst(v ssa.Value) bool {
	c, ok := v.(*ssa.Const)
	if !ok {
		return false
	}
	return c.Value == nil || c.IsNil() || isZeroVal(c)
}

func isZeroVal(c *ssa.Const) bool {
	if c.Value == nil {
		return true
	}
	s := c.Value.ExactString()
	return s == "0" || s == `""` || s == "false"
}

func init() {
	register(&Rule{ID: "C20.1", Prop: "C20", Min: 30,
		Text: "reset completeness: every field of each pooled type is assigned its default (or has its own reset method called) on every path of the type's reset function; a new field without a reset is a violation by construction",
		Run:  runC20_1})
	register(&Rule{ID: "C20.2", Prop: "C20", Min: 5,
		Text: "every sync.Pool of framework objects has a reset on its only way in or out: each Put site is dominated by the reset of the value being put, or every Get site is followed by the reset on all paths",
		Run:  runC20_2})
	register(&Rule{ID: "C20.6", Prop: "C20", Min: 2,
		Text: "a recycled metadata slot is fully overwritten: allocArg hands out slots that still hold a previous pair, so both consumers - the query parser argsScanner.next (on every feasible path that reports a pair, tracked through its isKey flag) and appendArg - store the slot's key AND value",
		Run:  runC20_6})
	register(&Rule{ID: "C20.3", Prop: "C20", Min: 3,
		Text: "getContext runs clean() then reInit() on every path before handing out a context; reInit installs a fresh swap map and the new session on every path",
		Run:  runC20_3})
}

func runC20_1(c *Ctx) {
	p := c.P
	for _, sp := range resetSpecs {
		n := p.Named(sp.pkg, sp.typ)
		st := n.Underlying().(*types.Struct)
		fn := p.Fn(sp.pkg, sp.typ, sp.fn)
		recv := fn.Params[0]
		for i := 0; i < st.NumFields(); i++ {
			f := st.Field(i)
			key := fmt.Sprintf("%s.%s/%s field=%s", pkgShort(sp.pkg), sp.typ, sp.fn, f.Name())
			if why, ok := sp.exempt[f.Name()]; ok {
				c.HoldTrivial(key, p.Pos(f.Pos()), "exempt: "+why)
				continue
			}
			var accepted *types.Func
			if m, ok := sp.viaMethod[f.Name()]; ok {
				accepted = p.MethodObj(m[0], m[1], m[2])
			}
			var selfM *types.Func
			if m, ok := sp.viaSelf[f.Name()]; ok {
				selfM = p.MethodObj(sp.pkg, sp.typ, m)
			}
			want := sp.want[f.Name()]
			if want == "" {
				want = "zero"
			}
			idx := i
			var badStore, badSetter ssa.Instruction
			pass := func(in ssa.Instruction) bool {
				switch x := in.(type) {
				case *ssa.Store:
					if !IsRecvField(x.Addr, recv, idx) {
						return false
					}
					switch want {
					case "zero":
						if !isZeroConst(x.Val) {
							badStore = in
							return false
						}
					case "slice0":
						sl, ok := x.Val.(*ssa.Slice)
						if !ok {
							badStore = in
							return false
						}
						hi, okc := ConstIntOf(sl.High)
						fr, _, okf := LoadedField(sl.X)
						if !okc || hi != 0 || !okf || fr.Index != idx {
							badStore = in
							return false
						}
					}
					return true
				case ssa.CallInstruction:
					if _, isDefer := in.(*ssa.Defer); isDefer {
						return false
					}
					o := CalleeObj(x)
					if o == nil {
						return false
					}
					cc := x.Common()
					// atomic store to &recv.f
					if isAtomicFn(o) && len(cc.Args) > 0 {
						if IsRecvField(cc.Args[0], recv, idx) && (o.Name() == "StoreInt32" || o.Name() == "StoreInt64" || o.Name() == "StoreUint32") {
							return true
						}
					}
					var rv ssa.Value
					if cc.IsInvoke() {
						rv = cc.Value
					} else if len(cc.Args) > 0 {
						rv = cc.Args[0]
					}
					if accepted != nil && o == accepted {
						if fr, fa, ok := LoadedField(rv); ok && fa != nil && IsRecvField(fa, recv, idx) && fr.Index == idx {
							return true
						}
					}
					if selfM != nil && o == selfM && rv != nil && Resolve(rv) == recv {
						// the setter is handed the default and stores its argument into the field unconditionally
						args := CallArgs(x)
						if len(args) == 1 && isZeroConst(args[0]) && setterStoresParam(p, p.Fn(sp.pkg, sp.typ, selfM.Name()), idx) {
							return true
						}
						badSetter = in
					}
				}
				return false
			}
			c.fact("must-pass-from-entry")
			ok, exits := p.MustPassFromEntry(fn, pass, nil)
			if ok {
				c.Hold(key, p.Pos(fn.Pos()), "reset on every path")
			} else {
				msg := fmt.Sprintf("field %s.%s is not reset on every path of %s (a previous user's value survives recycling)", sp.typ, f.Name(), FnName(fn))
				if badStore != nil {
					msg = fmt.Sprintf("field %s.%s is assigned a non-default value at %s in %s", sp.typ, f.Name(), p.InstrPos(badStore), FnName(fn))
				}
				if badSetter != nil && badStore == nil {
					msg = fmt.Sprintf("the reset of %s.%s is delegated to %s at %s, but that call does not pass the default or the setter does not store its argument on every path (e.g. it ignores the empty value): a previous user's value survives recycling", sp.typ, f.Name(), selfM.Name(), p.InstrPos(badSetter))
				}
				var path []string
				for _, e := range exits {
					path = append(path, "exit without reset: "+p.InstrPos(e))
				}
				c.Viol(key, p.Pos(fn.Pos()), msg, path...)
			}
		}
	}
}

// setterStoresParam: on every path from its entry fn stores its (single) parameter into recv.field[idx].
func setterStoresParam(p *Prog, fn *ssa.Function, idx int) bool {
	if fn == nil || len(fn.Params) != 2 {
		return false
	}
	recv, prm := fn.Params[0], fn.Params[1]
	ok, _ := p.MustPassFromEntry(fn, func(in ssa.Instruction) bool {
		st, isSt := in.(*ssa.Store)
		return isSt && IsRecvField(st.Addr, recv, idx) && st.Val == ssa.Value(prm)
	}, nil)
	return ok
}

func pkgShort(path string) string {
	if path == Root {
		return "erpc"
	}
	if len(path) > len(Root) && path[:len(Root)] == Root {
		return "erpc" + path[len(Root):]
	}
	return path
}

// poolSpec: a sync.Pool location and the reset that must guard it.
type poolSpec struct {
	name                      string
	globalPkg, global         string    // package-level pool variable, or
	fieldPkg, fieldTyp, field string    // struct field holding the pool
	reset                     [3]string // pkg, type, method
}

var poolSpecs = []poolSpec{
	{name: "socket.messagePool", globalPkg: Root + "/socket", global: "messagePool", reset: [3]string{Root + "/socket", "Message", "Reset"}},
	{name: "erpc.ctxPool", globalPkg: Root, global: "ctxPool", reset: [3]string{Root, "handlerCtx", "clean"}},
	{name: "utils.argsPool", globalPkg: Root + "/utils", global: "argsPool", reset: [3]string{Root + "/utils", "Args", "Reset"}},
	{name: "socket.socketPool", globalPkg: Root + "/socket", global: "socketPool", reset: [3]string{Root + "/socket", "socket", "Reset"}},
	{name: "utils.BufferPool.pool", fieldPkg: Root + "/utils", fieldTyp: "BufferPool", field: "pool", reset: [3]string{Root + "/utils", "ByteBuffer", "Reset"}},
}

// stripIface removes interface boxing / type assertions / conversions.
func stripIface(v ssa.Value) ssa.Value {
	for {
		switch x := v.(type) {
		case *ssa.MakeInterface:
			v = x.X
		case *ssa.ChangeInterface:
			v = x.X
		case *ssa.TypeAssert:
			v = x.X
		case *ssa.ChangeType:
			v = x.X
		default:
			return v
		}
	}
}

func runC20_2(c *Ctx) {
	p := c.P
	poolPut := p.MethodObj("sync", "Pool", "Put")
	poolGet := p.MethodObj("sync", "Pool", "Get")
	for _, ps := range poolSpecs {
		reset := p.MethodObj(ps.reset[0], ps.reset[1], ps.reset[2])
		isThisPool := func(v ssa.Value) bool {
			// receiver of Put/Get: *sync.Pool value
			switch x := v.(type) {
			case *ssa.Global:
				return ps.global != "" && x == p.Global(ps.globalPkg, ps.global)
			case *ssa.UnOp: // pool var is itself a *sync.Pool (argsPool = &sync.Pool{})
				if g, ok := x.X.(*ssa.Global); ok {
					return ps.global != "" && g == p.Global(ps.globalPkg, ps.global)
				}
			case *ssa.FieldAddr:
				if ps.field == "" {
					return false
				}
				n, idx := p.FieldIndex(ps.fieldPkg, ps.fieldTyp, ps.field)
				return derefNamed(x.X.Type()) == n && x.Field == idx
			}
			return false
		}
		var puts, gets []ssa.CallInstruction
		for _, fn := range p.ShippedFuncs() {
			for _, call := range AllCalls(fn) {
				o := CalleeObj(call)
				if (o != poolPut && o != poolGet) || len(call.Common().Args) == 0 {
					continue
				}
				if !isThisPool(call.Common().Args[0]) {
					continue
				}
				if o == poolPut {
					puts = append(puts, call)
				} else {
					gets = append(gets, call)
				}
			}
		}
		key := "pool=" + ps.name
		if len(puts) == 0 || len(gets) == 0 {
			c.Undec(key, "", fmt.Sprintf("pool %s: %d Put / %d Get sites found (expected both)", ps.name, len(puts), len(gets)))
			continue
		}
		// receiver of a reset call
		resetRecv := func(in ssa.Instruction) ssa.Value {
			call, ok := in.(*ssa.Call)
			if !ok || CalleeObj(call) != reset {
				return nil
			}
			if call.Call.IsInvoke() {
				return call.Call.Value
			}
			return call.Call.Args[0]
		}
		// (a) all Put sites dominated by reset of the same value
		putOK := true
		var putMsg string
		for _, put := range puts {
			val := stripIface(put.Common().Args[1])
			found := false
			Instrs(put.Parent(), func(in ssa.Instruction) {
				rv := resetRecv(in)
				if rv != nil && stripIface(rv) == val && Dominates(in, put) {
					found = true
				}
			})
			c.fact("dominance")
			if !found {
				putOK = false
				putMsg = fmt.Sprintf("Put at %s (%s) not dominated by %s of the value", p.InstrPos(put), FnName(put.Parent()), reset.Name())
			}
		}
		// (b) all Get sites followed by reset on all paths
		getOK := true
		var getMsg string
		for _, get := range gets {
			gv := get.(ssa.Value)
			pass := func(in ssa.Instruction) bool {
				rv := resetRecv(in)
				return rv != nil && stripIface(rv) == gv
			}
			c.fact("must-pass")
			ok, _ := p.MustPassBeforeExit(get, pass, nil)
			if !ok {
				getOK = false
				getMsg = fmt.Sprintf("Get at %s (%s) can return without %s", p.InstrPos(get), FnName(get.Parent()), reset.Name())
			}
		}
		pos := p.InstrPos(puts[0])
		if putOK || getOK {
			side := "put"
			if !putOK {
				side = "get"
			}
			c.Hold(key, pos, fmt.Sprintf("%d Put / %d Get sites; reset guaranteed on the %s side", len(puts), len(gets), side))
		} else {
			c.Viol(key, pos, fmt.Sprintf("pool %s: neither side guarantees a reset: %s; %s", ps.name, putMsg, getMsg))
		}
	}
}

func runC20_3(c *Ctx) {
	p := c.P
	getCtx := p.Fn(Root, "peer", "getContext")
	clean := p.MethodObj(Root, "handlerCtx", "clean")
	reInit := p.MethodObj(Root, "handlerCtx", "reInit")
	poolGet := p.MethodObj("sync", "Pool", "Get")
	gets := CallsTo(getCtx, poolGet)
	if len(gets) != 1 {
		c.Undec("getContext/Get", p.Pos(getCtx.Pos()), fmt.Sprintf("%d pool Get calls in getContext", len(gets)))
		return
	}
	gv := gets[0].(ssa.Value)
	var cleanCall ssa.Instruction
	okClean, _ := p.MustPassBeforeExit(gets[0], func(in ssa.Instruction) bool {
		if call, ok := in.(*ssa.Call); ok && CalleeObj(call) == clean && stripIface(call.Call.Args[0]) == gv {
			cleanCall = in
			return true
		}
		return false
	}, nil)
	c.Check(okClean, "getContext clean-on-all-paths", p.InstrPos(gets[0]), "clean() on every path after Get", "getContext can return a context without clean()")
	if cleanCall != nil {
		okRe, _ := p.MustPassBeforeExit(cleanCall, func(in ssa.Instruction) bool {
			call, ok := in.(*ssa.Call)
			return ok && CalleeObj(call) == reInit && stripIface(call.Call.Args[0]) == gv
		}, nil)
		c.Check(okRe, "getContext reInit-after-clean", p.InstrPos(cleanCall), "reInit() on every path after clean()", "getContext can return a context without reInit() after clean()")
	}
	// reInit stores sess and a fresh swap
	re := p.Fn(Root, "handlerCtx", "reInit")
	_, swapIdx := p.FieldIndex(Root, "handlerCtx", "swap")
	_, sessIdx := p.FieldIndex(Root, "handlerCtx", "sess")
	recv := re.Params[0]
	rwMap := p.FuncObj("github.com/henrylee2cn/goutil", "RwMap")
	okSwap, _ := p.MustPassFromEntry(re, func(in ssa.Instruction) bool {
		st, ok := in.(*ssa.Store)
		if !ok {
			return false
		}
		if !IsRecvField(st.Addr, recv, swapIdx) {
			return false
		}
		call, ok := st.Val.(*ssa.Call)
		return ok && CalleeObj(call) == rwMap
	}, nil)
	okSess, _ := p.MustPassFromEntry(re, func(in ssa.Instruction) bool {
		st, ok := in.(*ssa.Store)
		if !ok {
			return false
		}
		return IsRecvField(st.Addr, recv, sessIdx) && Resolve(st.Val) == re.Params[1]
	}, nil)
	c.Check(okSwap && okSess, "reInit fresh-swap-and-session", p.Pos(re.Pos()), "reInit stores the session parameter and a fresh goutil.RwMap on every path",
		fmt.Sprintf("reInit does not install a fresh swap map (%v) / the new session (%v) on every path", okSwap, okSess))
}

func runC20_6(c *Ctx) {
	p := c.P
	utils := Root + "/utils"
	kvN, keyIdx := p.FieldIndex(utils, "argsKV", "key")
	_, valIdx := p.FieldIndex(utils, "argsKV", "value")
	// consumers of allocArg are exactly ParseBytes (through next) and appendArg
	alloc := p.FuncObj(utils, "allocArg")
	var users []string
	for _, fn := range p.ShippedFuncs() {
		if len(CallsTo(fn, alloc)) > 0 {
			users = append(users, fn.Name())
		}
	}
	sort.Strings(users)
	okUsers := len(users) >= 1
	for _, u := range users {
		if u != "ParseBytes" && u != "appendArg" {
			okUsers = false
		}
	}
	c.Check(okUsers, "allocArg consumers", "", "ParseBytes (via argsScanner.next) and appendArg", fmt.Sprintf("allocArg (which recycles slots) is used by %v: every consumer must overwrite key and value; the rule knows only ParseBytes and appendArg", users))
	// appendArg: both stores on every path
	aa := p.Fn(utils, "", "appendArg")
	for _, f := range []struct {
		name string
		idx  int
	}{{"key", keyIdx}, {"value", valIdx}} {
		idx := f.idx
		ok, _ := p.MustPassFromEntry(aa, func(i ssa.Instruction) bool {
			st, isSt := i.(*ssa.Store)
			return isSt && isFieldAddr(st.Addr, kvN, idx)
		}, nil)
		c.fact("must-pass")
		c.Check(ok, "appendArg overwrites the slot's "+f.name, p.Pos(aa.Pos()), "stored on every path", "appendArg does not overwrite the recycled slot's "+f.name+": a previous user's metadata survives")
	}
	// argsScanner.next: path-sensitive on the isKey flag
	next := p.Fn(utils, "argsScanner", "next")
	kv := next.Params[1]
	var isKey *ssa.Phi
	for _, b := range next.Blocks {
		for _, in := range b.Instrs {
			if phi, ok := in.(*ssa.Phi); ok && phi.Comment == "isKey" {
				if isKey == nil || len(phi.Edges) > len(isKey.Edges) {
					isKey = phi
				}
			}
		}
	}
	if isKey == nil {
		c.Undec("argsScanner.next overwrites key and value", p.Pos(next.Pos()), "cannot find the isKey flag of the scanner (idiom changed): the rule must be re-read")
		return
	}
	const keyStored, valStored = 1, 2
	bad := ""
	nTrue := 0
	vt := &ValTrack{P: p, Tracked: isKey, Consts: map[int64]uint{0: 0, 1: 1}}
	vt.Visit = func(i ssa.Instruction, mask, fl uint32) (uint32, bool) {
		if st, ok := i.(*ssa.Store); ok {
			if fa, ok := st.Addr.(*ssa.FieldAddr); ok && fa.X == ssa.Value(kv) {
				if fa.Field == keyIdx {
					fl |= keyStored
				}
				if fa.Field == valIdx {
					fl |= valStored
				}
			}
		}
		return fl, false
	}
	vt.OnExit = func(r *ssa.Return, mask, fl uint32) {
		cst, ok := r.Results[0].(*ssa.Const)
		if !ok || cst.Value == nil || cst.Value.String() != "true" {
			return
		}
		nTrue++
		if fl&keyStored == 0 || fl&valStored == 0 {
			bad = fmt.Sprintf("return true at %s reachable with key stored=%v value stored=%v", p.InstrPos(r), fl&keyStored != 0, fl&valStored != 0)
		}
	}
	vt.Run(next, 0)
	c.fact("value-tracking")
	c.Check(bad == "" && nTrue > 0, "argsScanner.next overwrites key and value", p.Pos(next.Pos()), fmt.Sprintf("every feasible `return true` stored both fields (%d states)", vt.States),
		"the query parser can report a pair without overwriting both fields of the recycled slot ("+bad+"): a metadata container that is reused shows the value of a previous message for a key sent without value")
}
