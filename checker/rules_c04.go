package main

import (
	"fmt"
	"go/types"
	"sort"
	"strings"

	"golang.org/x/tools/go/ssa"
)

func init() {
	register(&Rule{ID: "C04.1", Prop: "C04", Min: 17,
		Text: "code table: the framework status codes have their documented numeric values and every predefined status is constructed from its own code constant and that code's text",
		Run:  runC04_1})
	register(&Rule{ID: "C04.2", Prop: "C04", Min: 3,
		Text: "error reply construction: on the non-OK edge writeReply sets the status and clears body and body codec before the write (same obligations as C03.10)",
		Run:  runErrorReplyConstruction})
	register(&Rule{ID: "C04.3", Prop: "C04", Min: 8,
		Text: "handler status plumbing: the four call-handler closures agree - non-OK result => ctx.stat = stat and output.SetStatus(stat), OK => output.SetBody(result); the four push-handler closures store the returned status in ctx.stat",
		Run:  runC04_3})
	register(&Rule{ID: "C04.4", Prop: "C04", Min: 3,
		Text: "what the caller sees: in handleReply the call's status is assigned from the reply frame's status, else from the read/decode error recorded by the read loop, else from the post-read hook - and only while the call's status is still OK (a veto recorded by bindReply is never overwritten)",
		Run:  runC04_4})
	register(&Rule{ID: "C04.6", Prop: "C04", Min: 8,
		Text: "every shipped wire protocol carries the status: each Proto implementation reads Message.Status in Pack and decodes into Message.Status(true) in Unpack (shared with C05.1)",
		Run:  func(c *Ctx) { runProtoCoverage(c, []string{"Status"}) }})
	register(&Rule{ID: "C04.7", Prop: "C04", Min: 3,
		Text: "a handler panic is reported as 500: same obligations as C03.5",
		Run:  runC03_5})
	register(&Rule{ID: "C04.8", Prop: "C04", Min: 2,
		Text: "a refused write is reported with the 102 sentinel: same obligations as C07.5/C07.9",
		Run:  runC07_5})
	register(&Rule{ID: "C04.10", Prop: "C04", Min: 5,
		Text: "a published call status is stable: pooled context inputs never get a status object installed or re-installed by the framework (same obligations as C15.2) - the caller's CallCmd keeps the pointer of the reply's status, so a recycled object would change under it",
		Run:  runC15_2})
	register(&Rule{ID: "C04.11", Prop: "C04", Min: 6,
		Text: "every status on the wire is decoded: on the receive path of each protocol the decode of the frame's status field is not made conditional on the length or content of that field (other than emptiness) - `code=7` is as short as `code=0`",
		Run:  runC04_11})
	register(&Rule{ID: "C04.9", Prop: "C04", Min: 1,
		Text: "the status handed to the caller is not storage owned by a pooled message: Message.Status(autoInit) installs a freshly allocated Status (the caller's *Status must not change when the pooled context reads its next frame)",
		Run:  runC04_9})
}

func runC04_1(c *Ctx) {
	p := c.P
	want := map[string]int64{"CodeOK": 0, "CodeConnClosed": 102, "CodeWriteFailed": 104, "CodeDialFailed": 105, "CodeBadMessage": 400, "CodeUnauthorized": 401,
		"CodeNotFound": 404, "CodeMtypeNotAllowed": 405, "CodeHandleTimeout": 408, "CodeInternalServerError": 500, "CodeBadGateway": 502}
	for _, n := range sortedKeys(want) {
		got := p.ConstInt(Root, n)
		c.fact("constants")
		c.Check(got == want[n], "code "+n, "", fmt.Sprintf("= %d", got), fmt.Sprintf("%s = %d, documented value %d: peers and callers interpret the code differently", n, got, want[n]))
	}
	sent := map[string]string{"statConnClosed": "CodeConnClosed", "statBadMessage": "CodeBadMessage", "statNotFound": "CodeNotFound", "statCodeMtypeNotAllowed": "CodeMtypeNotAllowed",
		"statInternalServerError": "CodeInternalServerError", "statWriteFailed": "CodeWriteFailed", "statDialFailed": "CodeDialFailed"}
	var initFn *ssa.Function
	for _, fn := range p.ShippedFuncs() {
		if fn.Pkg != nil && fn.Pkg.Pkg.Path() == Root && fn.Name() == "init" && strings.HasPrefix(fn.Synthetic, "package initializer") {
			initFn = fn
		}
	}
	if initFn == nil {
		c.Undec("sentinel construction", "", "package initializer of the root package not found")
		return
	}
	codeText := p.FuncObj(Root, "CodeText")
	for _, n := range sortedKeys(sent) {
		g := p.Global(Root, n)
		code := p.ConstInt(Root, sent[n])
		ok := false
		Instrs(initFn, func(i ssa.Instruction) {
			st, isSt := i.(*ssa.Store)
			if !isSt || st.Addr != ssa.Value(g) {
				return
			}
			call, isC := st.Val.(*ssa.Call)
			if !isC || len(call.Call.Args) < 2 {
				return
			}
			k, okc := ConstIntOf(call.Call.Args[0])
			txt, isT := call.Call.Args[1].(*ssa.Call)
			if !okc || k != code || !isT || CalleeObj(txt) != codeText {
				return
			}
			k2, okc2 := ConstIntOf(txt.Call.Args[0])
			// constructor: status.New through the NewStatus variable
			ok = okc2 && k2 == code
		})
		c.fact("initialiser")
		c.Check(ok, "sentinel "+n, p.Pos(g.Pos()), "NewStatus("+sent[n]+", CodeText("+sent[n]+"), ...)", n+" is not constructed from "+sent[n]+" and its text")
	}
}

func runC04_3(c *Ctx) {
	p := c.P
	okM := p.MethodObj(statusPkg, "Status", "OK")
	hcN, statIdx := p.FieldIndex(Root, "handlerCtx", "stat")
	_, outIdx := p.FieldIndex(Root, "handlerCtx", "output")
	setStatus := p.MethodObj(Root+"/socket", "Header", "SetStatus")
	setBody := p.MethodObj(Root+"/socket", "Body", "SetBody")
	var callClosures, pushClosures []*ssa.Function
	for _, mk := range []string{"makeCallHandlersFromStruct", "makeCallHandlersFromFunc"} {
		for _, a := range p.Fn(Root, "", mk).AnonFuncs {
			if a.Signature.Params().Len() == 2 {
				callClosures = append(callClosures, a)
			}
		}
	}
	for _, a := range p.Fn(Root, "Router", "SetUnknownCall").AnonFuncs {
		callClosures = append(callClosures, a)
	}
	for _, mk := range []string{"makePushHandlersFromStruct", "makePushHandlersFromFunc"} {
		for _, a := range p.Fn(Root, "", mk).AnonFuncs {
			if a.Signature.Params().Len() == 2 {
				pushClosures = append(pushClosures, a)
			}
		}
	}
	for _, a := range p.Fn(Root, "Router", "SetUnknownPush").AnonFuncs {
		pushClosures = append(pushClosures, a)
	}
	// shape of the function that turns the handler's outs into context state (the closure itself, or a helper
	// every path of the closure calls)
	shape := func(fn *ssa.Function) (nEdges int, storeOK, setOK, bodyOK, badBody bool) {
		edges := CondCallEdges(fn, okM)
		nEdges = len(edges)
		if nEdges != 1 {
			return
		}
		e := edges[0]
		stat := e.Recv
		Instrs(fn, func(i ssa.Instruction) {
			switch x := i.(type) {
			case *ssa.Store:
				if isFieldAddr(x.Addr, hcN, statIdx) && x.Val == stat && BlockDominatesInstr(e.False, i) {
					storeOK = true
				}
			case *ssa.Call:
				if CalleeObj(x) == setStatus && isFieldLoad(x.Call.Value, hcN, outIdx) && x.Call.Args[0] == stat && BlockDominatesInstr(e.False, i) {
					setOK = true
				}
				if CalleeObj(x) == setBody && isFieldLoad(x.Call.Value, hcN, outIdx) {
					if BlockDominatesInstr(e.True, i) {
						bodyOK = true
					} else {
						badBody = true
					}
				}
			}
		})
		return
	}
	for _, cl := range callClosures {
		key := "call handler closure " + shortFn(cl)
		target := cl
		n, storeOK, setOK, bodyOK, badBody := shape(cl)
		if n == 0 {
			// extracted helper: a static callee in the root package that every path of the closure calls
			for _, call := range AllCalls(cl) {
				sc := call.Common().StaticCallee()
				if _, isCall := call.(*ssa.Call); !isCall || sc == nil || sc.Pkg != cl.Pkg || len(sc.Blocks) == 0 {
					continue
				}
				if all, _ := p.MustPassFromEntry(cl, func(i ssa.Instruction) bool { return i == ssa.Instruction(call) }, nil); !all {
					continue
				}
				if hn, a1, a2, a3, a4 := shape(sc); hn == 1 {
					n, storeOK, setOK, bodyOK, badBody = hn, a1, a2, a3, a4
					target = sc
				}
			}
		}
		if n != 1 {
			c.Viol(key, p.Pos(cl.Pos()), fmt.Sprintf("expected one OK() test of the handler's status, found %d", n))
			continue
		}
		how := "non-OK: ctx.stat = stat, output.SetStatus(stat); OK: output.SetBody(result)"
		if target != cl {
			how += " (in " + shortFn(target) + ", called on every path)"
		}
		c.fact("sibling-shape")
		c.Check(storeOK && setOK && bodyOK && !badBody, key, p.Pos(cl.Pos()), how,
			fmt.Sprintf("closure deviates from its siblings (ctx.stat stored on failure: %v, reply status set on failure: %v, body set only on success: %v): the caller sees OK for a failed handler or loses the result", storeOK, setOK, bodyOK && !badBody))
	}
	for _, cl := range pushClosures {
		key := "push handler closure " + shortFn(cl)
		n := 0
		all := true
		Instrs(cl, func(i ssa.Instruction) {
			if st, ok := i.(*ssa.Store); ok && isFieldAddr(st.Addr, hcN, statIdx) {
				n++
				if IsNilConst(st.Val) {
					all = false
				}
			}
		})
		okAll, _ := p.MustPassFromEntry(cl, func(i ssa.Instruction) bool {
			st, ok := i.(*ssa.Store)
			return ok && isFieldAddr(st.Addr, hcN, statIdx)
		}, nil)
		c.Check(n == 1 && all && okAll, key, p.Pos(cl.Pos()), "ctx.stat = <returned status> on every path", "push closure does not record the handler's status in ctx.stat")
	}
	if len(callClosures) != 4 || len(pushClosures) != 4 {
		c.Undec("handler closures", "", fmt.Sprintf("found %d call and %d push handler closures, expected 4 and 4", len(callClosures), len(pushClosures)))
	}
}

// valueOrigins collects the non-phi values a value may be (through phis).
func valueOrigins(v ssa.Value) []ssa.Value {
	seen := map[ssa.Value]bool{}
	var out []ssa.Value
	var rec func(x ssa.Value)
	rec = func(x ssa.Value) {
		if seen[x] {
			return
		}
		seen[x] = true
		if phi, ok := x.(*ssa.Phi); ok {
			for _, e := range phi.Edges {
				rec(e)
			}
			return
		}
		out = append(out, x)
	}
	rec(v)
	return out
}

func runC04_4(c *Ctx) {
	p := c.P
	fn := p.Fn(Root, "handlerCtx", "handleReply")
	okM := p.MethodObj(statusPkg, "Status", "OK")
	ccN, cstatIdx := p.FieldIndex(Root, "callCmd", "stat")
	hcN, statIdx := p.FieldIndex(Root, "handlerCtx", "stat")
	_, inIdx := p.FieldIndex(Root, "handlerCtx", "input")
	statusM := p.MethodObj(Root+"/socket", "Header", "Status")
	hook := p.MethodObj(Root, "pluginSingleContainer", "postReadReplyBody")
	var stores []*ssa.Store
	Instrs(fn, func(i ssa.Instruction) {
		if st, ok := i.(*ssa.Store); ok && isFieldAddr(st.Addr, ccN, cstatIdx) {
			stores = append(stores, st)
		}
	})
	if len(stores) == 0 {
		c.Viol("handleReply assigns the call's status", p.Pos(fn.Pos()), "handleReply never assigns callCmd.stat: the caller always sees OK")
		return
	}
	fromWire, fromRead, fromHook := false, false, false
	guarded := true
	// origins of the stored status, looking through a helper of the package that computes it
	var helpers []*ssa.Function
	origins := func(v ssa.Value) []ssa.Value {
		var out []ssa.Value
		for _, o := range valueOrigins(v) {
			out = append(out, o)
			call, ok := o.(*ssa.Call)
			if !ok || CalleeObj(call) == statusM || CalleeObj(call) == hook {
				continue
			}
			if h := call.Call.StaticCallee(); h != nil && h.Pkg == fn.Pkg && len(h.Blocks) > 0 {
				helpers = append(helpers, h)
				Instrs(h, func(i ssa.Instruction) {
					if ret, isRet := i.(*ssa.Return); isRet && len(ret.Results) == 1 {
						out = append(out, valueOrigins(ReturnVals(ret)[0])...)
					}
				})
			}
		}
		return out
	}
	for _, st := range stores {
		for _, o := range origins(st.Val) {
			if call, ok := o.(*ssa.Call); ok {
				if CalleeObj(call) == statusM && isFieldLoad(call.Call.Value, hcN, inIdx) {
					fromWire = true
				}
				if CalleeObj(call) == hook {
					fromHook = true
				}
			}
			if isFieldLoad(o, hcN, statIdx) {
				fromRead = true
			}
		}
		dom := false
		for _, e := range CondCallEdges(fn, okM) {
			if isFieldLoad(e.Recv, ccN, cstatIdx) && BlockDominatesInstr(e.True, st) {
				dom = true
			}
		}
		if !dom {
			guarded = false
		}
	}
	c.fact("phi-origins+dominance")
	c.Check(fromWire, "reply frame status reaches the caller", p.InstrPos(stores[0]), "callCmd.stat may take input.Status()", "the status carried by the reply frame never reaches callCmd.stat: the caller sees OK for a failed call")
	c.Check(fromRead, "read/decode error reaches the caller", p.InstrPos(stores[0]), "callCmd.stat may take c.stat (set by the read loop on a decode error)", "a reply whose body could not be decoded into the caller's result still completes with OK: the read error recorded in c.stat never reaches callCmd.stat")
	c.Check(fromHook, "post-read hook verdict reaches the caller", p.InstrPos(stores[0]), "callCmd.stat may take postReadReplyBody's result", "the verdict of PostReadReplyBody plugins never reaches callCmd.stat")
	c.Check(guarded, "a status recorded earlier is not overwritten", p.InstrPos(stores[0]), "callCmd.stat assigned only on the OK edge of its current value", "handleReply overwrites callCmd.stat unconditionally: a veto recorded by bindReply (reply header / pre-body plugin, body not decoded) is replaced by the wire status and the caller sees OK with an unfilled result")
	// precedence: the wire status is consulted first: the hook only on the OK edge of the wire/read status
	okPrec := false
	for _, host := range append([]*ssa.Function{fn}, helpers...) {
		for _, hc := range CallsTo(host, hook) {
			for _, e := range CondCallEdges(host, okM) {
				for _, o := range valueOrigins(e.Recv) {
					if isFieldLoad(o, hcN, statIdx) || (func() bool { call, ok := o.(*ssa.Call); return ok && CalleeObj(call) == statusM })() {
						if BlockDominatesInstr(e.True, hc) {
							okPrec = true
						}
					}
				}
			}
		}
	}
	for _, hc := range CallsTo(fn, hook) {
		for _, e := range CondCallEdges(fn, okM) {
			for _, o := range valueOrigins(e.Recv) {
				if isFieldLoad(o, hcN, statIdx) || (func() bool { call, ok := o.(*ssa.Call); return ok && CalleeObj(call) == statusM })() {
					if BlockDominatesInstr(e.True, hc) {
						okPrec = true
					}
				}
			}
		}
	}
	c.Check(okPrec, "hook runs only for a successfully read OK reply", p.Pos(fn.Pos()), "postReadReplyBody on the OK edge of the frame/read status", "postReadReplyBody runs (and may turn the result into OK) although the reply frame carried an error or could not be decoded")
}

func runC04_9(c *Ctx) {
	p := c.P
	stFn := p.Fn(Root+"/socket", "message", "Status")
	mN, stIdx := p.FieldIndex(Root+"/socket", "message", "status")
	fresh, other := false, false
	Instrs(stFn, func(i ssa.Instruction) {
		st, ok := i.(*ssa.Store)
		if !ok || !isFieldAddr(st.Addr, mN, stIdx) {
			return
		}
		if al, ok := st.Val.(*ssa.Alloc); ok && al.Heap {
			fresh = true
		} else {
			other = true
		}
	})
	c.fact("allocation-site")
	c.Check(fresh && !other, "message.Status(true) allocates", p.Pos(stFn.Pos()), "a nil status is replaced by new(Status)", "Message.Status(autoInit) hands out storage that is not freshly allocated (e.g. a buffer embedded in the pooled message): the *Status a caller received for a failed call is overwritten when the pooled context decodes its next frame")
}

// ---------------------------------------------------------------- protocol field coverage (C04.6 / C05.1)

type protoImpl struct {
	name   string
	pack   *ssa.Function
	unpack *ssa.Function
}

// protoImpls lists the shipped Proto implementations (types with Pack/Unpack(Message) error and Version()).
func protoImpls(p *Prog) []protoImpl {
	protoIface := p.Named(Root+"/socket", "Proto").Underlying().(*types.Interface)
	var out []protoImpl
	seen := map[string]bool{}
	for _, sp := range p.Shipped {
		for _, m := range sp.Members {
			t, ok := m.(*ssa.Type)
			if !ok {
				continue
			}
			n, ok := t.Type().(*types.Named)
			if !ok {
				continue
			}
			if _, isI := n.Underlying().(*types.Interface); isI {
				continue
			}
			pt := types.NewPointer(n)
			if !types.Implements(pt, protoIface) && !types.Implements(n, protoIface) {
				continue
			}
			name := pkgShort(sp.Pkg.Path()) + "." + n.Obj().Name()
			if seen[name] {
				continue
			}
			seen[name] = true
			get := func(mn string) *ssa.Function {
				obj, _, _ := types.LookupFieldOrMethod(pt, true, n.Obj().Pkg(), mn)
				f, _ := obj.(*types.Func)
				if f == nil {
					return nil
				}
				return p.SSA.FuncValue(f)
			}
			out = append(out, protoImpl{name, get("Pack"), get("Unpack")})
		}
	}
	sort.Slice(out, func(i, j int) bool { return out[i].name < out[j].name })
	return out
}

// messageMethodsReached: the set of socket.Message/Header/Body method names invoked from fn or from
// same-package functions it (transitively, statically) calls.
func messageMethodsReached(p *Prog, fn *ssa.Function) map[string][]ssa.Instruction {
	out := map[string][]ssa.Instruction{}
	seen := map[*ssa.Function]bool{}
	var rec func(f *ssa.Function, d int)
	rec = func(f *ssa.Function, d int) {
		if f == nil || seen[f] || f.Blocks == nil || d > 4 {
			return
		}
		seen[f] = true
		for _, g := range WithAnon(f) {
			for _, call := range AllCalls(g) {
				o := CalleeObj(call)
				if o != nil && call.Common().IsInvoke() && o.Pkg() != nil && o.Pkg().Path() == Root+"/socket" {
					name := o.Name()
					if name == "Status" && isAutoInitStatusCall(p, call.(ssa.Value)) {
						name = "Status(true)"
					}
					out[name] = append(out[name], call)
				}
				if sf := StaticFn(call); sf != nil && sf.Pkg == fn.Pkg {
					rec(sf, d+1)
				}
			}
		}
	}
	rec(fn, 0)
	return out
}

var packNeeds = []string{"Seq", "Mtype", "ServiceMethod", "Status", "Meta", "BodyCodec", "MarshalBody", "XferPipe", "SetSize"}
var unpackNeeds = []string{"SetSeq", "SetMtype", "SetServiceMethod", "Status", "Meta", "SetBodyCodec", "UnmarshalBody", "XferPipe", "SetSize"}

// protoExempt: frozen, reasoned exemptions (protocol -> direction -> field -> reason).
var protoExempt = map[string]map[string]string{
	"erpc/mixer/websocket.wsProto": {"*": "delegating wrapper: hands the message to the sub-protocol chosen at construction"},
	"erpc/proto/thriftproto.tStructProto": {
		"pack:BodyCodec": "body codec fixed to thrift by construction", "unpack:SetBodyCodec": "sets the fixed thrift codec id",
		"pack:XferPipe": "transfer pipe not supported: rejected with an error when non-empty", "unpack:XferPipe": "transfer pipe not supported",
		"pack:MarshalBody": "the body is written directly as a thrift struct (m.Body().(thrift.TStruct).Write)",
	},
}

func runProtoCoverage(c *Ctx, only []string) {
	p := c.P
	impls := protoImpls(p)
	if len(impls) < 9 {
		c.Undec("proto implementations", "", fmt.Sprintf("found %d Proto implementations, expected >= 9", len(impls)))
	}
	want := func(list []string) []string {
		if only == nil {
			return list
		}
		var out []string
		for _, l := range list {
			for _, o := range only {
				if l == o {
					out = append(out, l)
				}
			}
		}
		return out
	}
	for _, im := range impls {
		if im.pack == nil || im.unpack == nil {
			c.Undec("proto "+im.name, "", "Pack/Unpack SSA body not found")
			continue
		}
		ex := protoExempt[im.name]
		if _, all := ex["*"]; all {
			c.HoldTrivial("proto "+im.name, p.Pos(im.pack.Pos()), "exempt: "+ex["*"])
			continue
		}
		for _, dir := range []struct {
			name  string
			fn    *ssa.Function
			needs []string
		}{{"pack", im.pack, want(packNeeds)}, {"unpack", im.unpack, want(unpackNeeds)}} {
			got := messageMethodsReached(p, dir.fn)
			c.fact("reach-set")
			for _, f := range dir.needs {
				key := fmt.Sprintf("proto %s %s:%s", im.name, dir.name, f)
				if why, ok := ex[dir.name+":"+f]; ok {
					c.HoldTrivial(key, p.Pos(dir.fn.Pos()), "exempt: "+why)
					continue
				}
				have := len(got[f]) > 0
				if f == "Status" {
					if dir.name == "unpack" {
						have = len(got["Status(true)"]) > 0
					} else {
						have = len(got["Status"]) > 0 || len(got["Status(true)"]) > 0
					}
				}
				field := f
				c.Check(have, key, p.Pos(dir.fn.Pos()), "field handled", fmt.Sprintf("%s.%s never touches Message.%s: the %s is not carried over this protocol (%s)", im.name, map[string]string{"pack": "Pack", "unpack": "Unpack"}[dir.name], field, strings.TrimPrefix(strings.TrimPrefix(field, "Set"), "Unmarshal"), map[bool]string{true: "a failed call looks OK to the caller", false: "the field is lost in transit"}[f == "Status"]))
			}
		}
	}
}

func runC04_11(c *Ctx) {
	p := c.P
	decodeQ := p.MethodObj(statusPkg, "Status", "DecodeQuery")
	unJSON := p.MethodObj(statusPkg, "Status", "UnmarshalJSON")
	n := 0
	seen := map[*ssa.Function]bool{}
	for _, im := range protoImpls(p) {
		if im.unpack == nil {
			continue
		}
		for _, fn := range recvReach(p, im.unpack) {
			if seen[fn] {
				continue
			}
			seen[fn] = true
			for _, call := range AllCalls(fn) {
				if !IsCallTo(call, decodeQ, unJSON) {
					continue
				}
				n++
				arg := CallArgs(call)[0]
				// the values the argument is made of (bounds of the slice, the converted string ...)
				src := map[ssa.Value]bool{}
				var collect func(v ssa.Value, d int)
				collect = func(v ssa.Value, d int) {
					if v == nil || src[v] || d > 5 {
						return
					}
					if _, isC := v.(*ssa.Const); isC {
						return
					}
					src[v] = true
					switch x := v.(type) {
					case *ssa.Slice:
						collect(x.Low, d+1)
						collect(x.High, d+1)
					case *ssa.Convert:
						collect(x.X, d+1)
					case *ssa.ChangeType:
						collect(x.X, d+1)
					case *ssa.Call:
						if x.Call.StaticCallee() != nil || x.Call.IsInvoke() {
							for _, a := range x.Call.Args {
								if bufTrack(a.Type()) {
									collect(a, d+1)
								}
							}
							if x.Call.IsInvoke() {
								break
							}
						}
					}
				}
				collect(arg, 0)
				mentions := func(v ssa.Value) bool {
					for k := 0; k < 4 && v != nil; k++ {
						if src[v] {
							return true
						}
						switch x := v.(type) {
						case *ssa.Convert:
							v = x.X
						case *ssa.ChangeType:
							v = x.X
						case *ssa.Call:
							if b, isB := x.Call.Value.(*ssa.Builtin); isB && b.Name() == "len" {
								v = x.Call.Args[0]
							} else {
								return false
							}
						default:
							return false
						}
					}
					return false
				}
				bad := ""
				for _, blk := range fn.Blocks {
					ifi, isIf := blk.Instrs[len(blk.Instrs)-1].(*ssa.If)
					if !isIf {
						continue
					}
					cv, _ := stripNot(ifi.Cond)
					bo, isB := cv.(*ssa.BinOp)
					if !isB {
						continue
					}
					var other ssa.Value
					switch {
					case mentions(bo.X):
						other = bo.Y
					case mentions(bo.Y):
						other = bo.X
					default:
						continue
					}
					// only one of the two edges leads to the decode?
					d0 := BlockDominatesInstr(blk.Succs[0], call)
					d1 := BlockDominatesInstr(blk.Succs[1], call)
					if d0 == d1 {
						continue
					}
					if k, isC := ConstIntOf(other); isC && k == 0 {
						continue // emptiness
					}
					bad = p.InstrPos(ifi)
				}
				c.fact("control-dependence")
				key := "status decode in " + FnName(fn)
				c.Check(bad == "", key, p.InstrPos(call), "not conditional on the status field's length/content", "the decode of the received status is skipped depending on the field's length or content (test at "+bad+"): a non-OK status of that shape arrives as OK at the caller")
			}
		}
	}
	if n < 6 {
		c.Undec("status decode sites", "", fmt.Sprintf("found %d, expected >= 6", n))
	}
}
