package main

import (
	"fmt"
	"go/constant"
	"go/types"
	"sort"
	"strings"

	"golang.org/x/tools/go/ssa"
)

func init() {
	register(&Rule{ID: "C10.1", Prop: "C10", Min: 2,
		Text: "no silent name sharing: in reg the table insert of a handler is dominated, in the same iteration and for the same handler value, by the lookup of its name in the same table on the not-present edge; the present edge ends in the no-return Fatalf",
		Run:  runC10_1})
	register(&Rule{ID: "C10.2", Prop: "C10", Min: 8,
		Text: "CALL and PUSH are separate namespaces end to end: reg chooses callHandlers exactly for the CALL registrations (and their makers) and pushHandlers for PUSH; getCall reads only callHandlers/unknownCall, getPush only pushHandlers/unknownPush; sessions wire getCallHandler->getCall and getPushHandler->getPush; bindCall/bindPush use their own",
		Run:  runC10_2})
	register(&Rule{ID: "C10.3", Prop: "C10", Min: 2,
		Text: "lookup shape: exact match returns that handler; a miss returns the unknown handler iff one is set; otherwise (nil,false) - with C03.3/C03.8 a miss never invokes a registered handler",
		Run:  runC10_3})
	register(&Rule{ID: "C10.4", Prop: "C10", Min: 1,
		Text: "the names returned by a registration are the table keys: reg appends to its result exactly the name field of the handler value it inserts, once per insert",
		Run:  runC10_4})
}

// nameLoadOf: v is a load of field Handler.name; returns the handler value it is loaded from.
func nameLoadOf(p *Prog, v ssa.Value) (ssa.Value, bool) {
	hN, nameIdx := p.FieldIndex(Root, "Handler", "name")
	fr, fa, ok := LoadedField(v)
	if !ok || fa == nil || fr.Struct != hN || fr.Index != nameIdx {
		return nil, false
	}
	return fa.X, true
}

func runC10_1(c *Ctx) {
	p := c.P
	reg := p.Fn(Root, "SubRouter", "reg")
	var updates []*ssa.MapUpdate
	Instrs(reg, func(i ssa.Instruction) {
		if mu, ok := i.(*ssa.MapUpdate); ok {
			if _, isName := nameLoadOf(p, mu.Key); isName {
				updates = append(updates, mu)
			}
		}
	})
	if len(updates) != 1 {
		c.Undec("reg table insert", p.Pos(reg.Pos()), fmt.Sprintf("expected one insert keyed by a handler name in reg, found %d", len(updates)))
		return
	}
	mu := updates[0]
	h, _ := nameLoadOf(p, mu.Key)
	// stored value is that handler
	valOK := mu.Value == h
	// a lookup on the same map, keyed by the name of the same handler value
	ok := false
	fatalOnPresent := false
	Instrs(reg, func(i ssa.Instruction) {
		lk, isL := i.(*ssa.Lookup)
		if !isL || !lk.CommaOk || lk.X != mu.Map {
			return
		}
		h2, isName := nameLoadOf(p, lk.Index)
		if !isName || h2 != h {
			return
		}
		// ok flag
		var okv ssa.Value
		if refs := lk.Referrers(); refs != nil {
			for _, r := range *refs {
				if ex, isEx := r.(*ssa.Extract); isEx && ex.Index == 1 {
					okv = ex
				}
			}
		}
		for _, b := range reg.Blocks {
			ifi, isIf := b.Instrs[len(b.Instrs)-1].(*ssa.If)
			if !isIf {
				continue
			}
			cv, neg := stripNot(ifi.Cond)
			if cv != okv || okv == nil {
				continue
			}
			present, absent := b.Succs[0], b.Succs[1]
			if neg {
				present, absent = absent, present
			}
			_ = absent
			// the lookup precedes the insert on every path; that only the not-present edge continues to it is
			// established below (the present edge ends in the no-return Fatalf)
			if Dominates(lk, mu) {
				ok = true
			}
			// the present edge never reaches the insert nor a return
			w := &Walk{P: p, Stop: func(x ssa.Instruction) bool { return x == ssa.Instruction(mu) }}
			w.FromBlock(present)
			if len(w.Hits) == 0 && len(w.Exits) == 0 {
				fatalOnPresent = true
			}
		}
	})
	c.fact("value-identity+dominance+no-return")
	c.Check(ok && valOK, "insert only after the same handler's name was looked up and absent", p.InstrPos(mu), "lookup(h.name) on the same table, not-present edge dominates table[h.name] = h",
		"the handler table insert in reg is not guarded, for the same handler in the same pass, by a lookup of its name: two handlers whose names collide within one registration silently overwrite each other (the first becomes unreachable, no conflict is reported)")
	c.Check(fatalOnPresent, "a name conflict is fatal", p.InstrPos(mu), "the already-present edge ends in Fatalf (never returns, never inserts)", "a detected name conflict does not stop the registration: the existing handler is silently replaced")
}

func subRouterFieldReads(p *Prog, fn *ssa.Function) []string {
	srN := p.Named(Root, "SubRouter")
	st := srN.Underlying().(*types.Struct)
	seen := map[string]bool{}
	for _, f := range WithAnon(fn) {
		Instrs(f, func(i ssa.Instruction) {
			if fa, ok := i.(*ssa.FieldAddr); ok && derefNamed(fa.X.Type()) == srN {
				seen[st.Field(fa.Field).Name()] = true
			}
		})
	}
	out := sortedKeys(seen)
	return out
}

func runC10_2(c *Ctx) {
	p := c.P
	// getCall / getPush access sets
	for _, s := range []struct {
		fn   string
		want []string
	}{{"getCall", []string{"callHandlers", "unknownCall"}}, {"getPush", []string{"pushHandlers", "unknownPush"}}} {
		fn := p.Fn(Root, "SubRouter", s.fn)
		got := subRouterFieldReads(p, fn)
		sort.Strings(s.want)
		c.fact("field-access-set")
		c.Check(strings.Join(got, ",") == strings.Join(s.want, ","), s.fn+" reads only its own tables", p.Pos(fn.Pos()), "fields touched: "+strings.Join(got, ","),
			fmt.Sprintf("%s touches SubRouter fields %v, expected exactly %v: a %s for an unknown (or known) name can be served from the other namespace", s.fn, got, s.want, map[string]string{"getCall": "CALL", "getPush": "PUSH"}[s.fn]))
	}
	// reg's table choice
	reg := p.Fn(Root, "SubRouter", "reg")
	srN, callIdx := p.FieldIndex(Root, "SubRouter", "callHandlers")
	_, pushIdx := p.FieldIndex(Root, "SubRouter", "pushHandlers")
	pnCall := constant.StringVal(p.ConstVal(Root, "pnCall"))
	okChoice := false
	for _, ee := range EqEdges(reg) {
		if ee.X != ssa.Value(reg.Params[1]) {
			continue
		}
		cst, isC := ee.Y.(*ssa.Const)
		if !isC || cst.Value == nil || cst.Value.Kind() != constant.String || constant.StringVal(cst.Value) != pnCall {
			continue
		}
		t, f := ee.Eq, ee.Ne
		// the map used by the insert is a phi of (callHandlers on the CALL edge, pushHandlers otherwise)
		Instrs(reg, func(i ssa.Instruction) {
			mu, isMU := i.(*ssa.MapUpdate)
			if !isMU {
				return
			}
			phi, isPhi := mu.Map.(*ssa.Phi)
			if !isPhi || len(phi.Edges) != 2 {
				return
			}
			good := 0
			for k, e := range phi.Edges {
				pred := phi.Block().Preds[k]
				if isFieldLoad(e, srN, callIdx) && (edgeCovers(ee.If.Block(), t, pred, nil) || (pred == ee.If.Block() && t == phi.Block())) {
					good++
				}
				if isFieldLoad(e, srN, pushIdx) && (edgeCovers(ee.If.Block(), f, pred, nil) || (pred == ee.If.Block() && f == phi.Block())) {
					good++
				}
			}
			if good == 2 {
				okChoice = true
			}
		})
	}
	if !okChoice {
		// the choice extracted into a helper: insert into helper(typeName), where every return of the helper is
		// callHandlers on its `== CALL` edge and pushHandlers on the other one
		Instrs(reg, func(i ssa.Instruction) {
			mu, isMU := i.(*ssa.MapUpdate)
			if !isMU {
				return
			}
			call, isCall := mu.Map.(*ssa.Call)
			if !isCall || call.Call.StaticCallee() == nil || call.Call.StaticCallee().Pkg != reg.Pkg {
				return
			}
			h := call.Call.StaticCallee()
			pi := -1
			for k, a := range call.Call.Args {
				if a == ssa.Value(reg.Params[1]) {
					pi = k
				}
			}
			if pi < 0 || len(h.Blocks) == 0 {
				return
			}
			nRet, good := 0, 0
			for _, ee := range EqEdges(h) {
				if ee.X != ssa.Value(h.Params[pi]) {
					continue
				}
				cst, isC := ee.Y.(*ssa.Const)
				if !isC || cst.Value == nil || cst.Value.Kind() != constant.String || constant.StringVal(cst.Value) != pnCall {
					continue
				}
				Instrs(h, func(j ssa.Instruction) {
					ret, isRet := j.(*ssa.Return)
					if !isRet {
						return
					}
					nRet++
					v := ReturnVals(ret)[0]
					if isFieldLoad(v, srN, callIdx) && BlockDominatesInstr(ee.Eq, ret) {
						good++
					}
					if isFieldLoad(v, srN, pushIdx) && BlockDominatesInstr(ee.Ne, ret) {
						good++
					}
				})
			}
			if nRet == 2 && good == 2 {
				okChoice = true
			}
		})
	}
	c.fact("phi-provenance")
	c.Check(okChoice, "reg inserts into callHandlers iff routerTypeName == CALL", p.Pos(reg.Pos()), "table = callHandlers on the CALL edge, pushHandlers otherwise", "reg does not select the CALL table exactly for CALL registrations: a CALL handler becomes reachable by PUSH (or vice versa)")
	// callers of reg: (type name constant, maker)
	regM := p.MethodObj(Root, "SubRouter", "reg")
	want := map[string]string{"RouteCall": "CALL|makeCallHandlersFromStruct", "RouteCallFunc": "CALL|makeCallHandlersFromFunc", "RoutePush": "PUSH|makePushHandlersFromStruct", "RoutePushFunc": "PUSH|makePushHandlersFromFunc"}
	n := 0
	for _, fn := range p.ShippedFuncs() {
		for _, call := range CallsTo(fn, regM) {
			n++
			args := CallArgs(call)
			tn := ""
			if cst, ok := args[0].(*ssa.Const); ok && cst.Value != nil && cst.Value.Kind() == constant.String {
				tn = constant.StringVal(cst.Value)
			}
			mk := ""
			if f, ok := stripFuncValue(args[1]).(*ssa.Function); ok {
				mk = f.Name()
			}
			got := tn + "|" + mk
			c.Check(want[fn.Name()] == got, "registration entry "+shortFn(fn), p.InstrPos(call), got, fmt.Sprintf("%s registers with (%s), expected (%s): handlers land in the wrong namespace or are built with the wrong signature rules", shortFn(fn), got, want[fn.Name()]))
		}
	}
	if n < 4 {
		c.Undec("registration entries", "", fmt.Sprintf("found %d calls of reg, expected 4", n))
	}
	// session wiring
	ns := p.Fn(Root, "", "newSession")
	sessN, gcIdx := p.FieldIndex(Root, "session", "getCallHandler")
	_, gpIdx := p.FieldIndex(Root, "session", "getPushHandler")
	wired := map[int]string{}
	Instrs(ns, func(i ssa.Instruction) {
		st, ok := i.(*ssa.Store)
		if !ok {
			return
		}
		fr, _, ok := FieldOfAddr(st.Addr)
		if !ok || fr.Struct != sessN || (fr.Index != gcIdx && fr.Index != gpIdx) {
			return
		}
		if mc, ok := st.Val.(*ssa.MakeClosure); ok {
			if bf, ok := mc.Fn.(*ssa.Function); ok && bf.Object() != nil {
				wired[fr.Index] = bf.Object().Name()
			}
		}
	})
	c.Check(wired[gcIdx] == "getCall" && wired[gpIdx] == "getPush", "session wires its own lookups", p.Pos(ns.Pos()), "getCallHandler=getCall, getPushHandler=getPush", fmt.Sprintf("newSession wires getCallHandler=%q getPushHandler=%q", wired[gcIdx], wired[gpIdx]))
	// bindCall / bindPush use their own lookup field
	for _, s := range []struct {
		fn  string
		idx int
		bad int
	}{{"bindCall", gcIdx, gpIdx}, {"bindPush", gpIdx, gcIdx}} {
		fn := p.Fn(Root, "handlerCtx", s.fn)
		own, other := 0, 0
		for _, call := range AllCalls(fn) {
			if call.Common().IsInvoke() {
				continue
			}
			if isFieldLoad(call.Common().Value, sessN, s.idx) {
				own++
			}
			if isFieldLoad(call.Common().Value, sessN, s.bad) {
				other++
			}
		}
		c.Check(own == 1 && other == 0, s.fn+" looks up in its own namespace", p.Pos(fn.Pos()), "one lookup through the session's own table accessor", s.fn+" resolves the route through the other namespace's lookup")
	}
}

func stripFuncValue(v ssa.Value) ssa.Value {
	for {
		switch x := v.(type) {
		case *ssa.ChangeType:
			v = x.X
		case *ssa.MakeClosure:
			return x.Fn
		default:
			return v
		}
	}
}

func runC10_3(c *Ctx) {
	p := c.P
	for _, s := range []struct{ fn, table, unknown string }{{"getCall", "callHandlers", "unknownCall"}, {"getPush", "pushHandlers", "unknownPush"}} {
		fn := p.Fn(Root, "SubRouter", s.fn)
		srN, tIdx := p.FieldIndex(Root, "SubRouter", s.table)
		_, uIdx := p.FieldIndex(Root, "SubRouter", s.unknown)
		key := s.fn + " lookup shape"
		var lk *ssa.Lookup
		Instrs(fn, func(i ssa.Instruction) {
			if l, ok := i.(*ssa.Lookup); ok && l.CommaOk && isFieldLoad(l.X, srN, tIdx) && l.Index == ssa.Value(fn.Params[1]) {
				lk = l
			}
		})
		if lk == nil {
			c.Undec(key, p.Pos(fn.Pos()), "no direct `h, ok := r."+s.table+"[name]` lookup found (refactored into a helper?): shape must be re-read")
			continue
		}
		var hit, okv ssa.Value
		for _, r := range *lk.Referrers() {
			if ex, isEx := r.(*ssa.Extract); isEx {
				if ex.Index == 0 {
					hit = ex
				} else {
					okv = ex
				}
			}
		}
		good := true
		nRet := 0
		why := ""
		Instrs(fn, func(i ssa.Instruction) {
			ret, isR := i.(*ssa.Return)
			if !isR {
				return
			}
			nRet++
			rv := ReturnVals(ret)
			flag, isC := rv[1].(*ssa.Const)
			if !isC || flag.Value == nil {
				good = false
				why = "non-constant found flag"
				return
			}
			found := flag.Value.String() == "true"
			switch {
			case rv[0] == hit && hit != nil:
				// must be on the ok edge, and the ok edge must return the hit unconditionally
				dom := false
				for _, b := range fn.Blocks {
					ifi, isIf := b.Instrs[len(b.Instrs)-1].(*ssa.If)
					if isIf && ifi.Cond == okv && BlockDominatesInstr(b.Succs[0], ret) {
						dom = true
						w := &Walk{P: p}
						w.FromBlock(b.Succs[0])
						for _, e := range w.Exits {
							if ReturnVals(e.(*ssa.Return))[0] != hit {
								dom = false
							}
						}
					}
				}
				if !dom || !found {
					good = false
					why = "the looked-up handler is returned outside the hit edge / with found=false"
				}
			case IsNilConst(rv[0]):
				if found {
					good = false
					why = "(nil, true) returned"
				}
			default:
				// the unknown handler: load of *r.unknownX on its non-nil edge
				u, isU := rv[0].(*ssa.UnOp)
				if !isU || !isFieldLoad(u.X, srN, uIdx) {
					good = false
					why = "a value other than the hit, *" + s.unknown + " or nil is returned"
					return
				}
				dom := false
				for _, e := range NilCmpEdges(fn, func(v ssa.Value) bool { return v == rv[0] }) {
					if BlockDominatesInstr(e.NonNil, ret) {
						dom = true
					}
				}
				if !dom || !found {
					good = false
					why = "the unknown handler is returned without the non-nil test / with found=false"
				}
			}
		})
		c.fact("return-shape")
		c.Check(good && nRet == 3, key, p.Pos(fn.Pos()), "hit -> (handler,true); miss & unknown set -> (unknown,true); else (nil,false)", s.fn+" deviates from exact-match / unknown / not-found: "+why)
	}
}

func runC10_4(c *Ctx) {
	p := c.P
	reg := p.Fn(Root, "SubRouter", "reg")
	var insertH ssa.Value
	var mu *ssa.MapUpdate
	Instrs(reg, func(i ssa.Instruction) {
		if m, ok := i.(*ssa.MapUpdate); ok {
			if h, isName := nameLoadOf(p, m.Key); isName {
				insertH = h
				mu = m
			}
		}
	})
	if mu == nil {
		c.Undec("reg returned names", p.Pos(reg.Pos()), "no insert found")
		return
	}
	// appends to the result slice: append(names, h.name) with the same h, in the same block region as the insert
	n, ok := 0, true
	Instrs(reg, func(i ssa.Instruction) {
		call, isC := i.(*ssa.Call)
		if !isC {
			return
		}
		b, isB := call.Call.Value.(*ssa.Builtin)
		if !isB || b.Name() != "append" || len(call.Call.Args) != 2 {
			return
		}
		if !types.Identical(call.Type(), types.NewSlice(types.Typ[types.String])) {
			return
		}
		n++
		vals, okv := variadicVals(call.Call.Args[1])
		if !okv || len(vals) != 1 {
			ok = false
			return
		}
		h, isName := nameLoadOf(p, vals[0])
		if !isName || h != insertH || !Dominates(mu, call) {
			ok = false
		}
	})
	// the returned slice is that accumulator
	c.fact("value-identity")
	c.Check(ok && n == 1, "returned names are the inserted keys", p.InstrPos(mu), "names = append(names, h.name) for the inserted h", "the names reg returns are not exactly the keys it inserted: a handler is reachable under a name that was not returned (or not reachable under a returned one)")
}

// variadicVals returns the values of a variadic slice built at the call site.
func variadicVals(v ssa.Value) ([]ssa.Value, bool) {
	sl, ok := v.(*ssa.Slice)
	if !ok {
		return nil, false
	}
	al, ok := sl.X.(*ssa.Alloc)
	if !ok || al.Referrers() == nil {
		return nil, false
	}
	m := map[int64]ssa.Value{}
	for _, r := range *al.Referrers() {
		ia, ok := r.(*ssa.IndexAddr)
		if !ok || ia.Referrers() == nil {
			continue
		}
		idx, okI := ConstIntOf(ia.Index)
		if !okI {
			return nil, false
		}
		for _, rr := range *ia.Referrers() {
			if st, ok := rr.(*ssa.Store); ok && st.Addr == ssa.Value(ia) {
				m[idx] = st.Val
			}
		}
	}
	var out []ssa.Value
	for i := int64(0); i < int64(len(m)); i++ {
		x, ok := m[i]
		if !ok {
			return nil, false
		}
		out = append(out, x)
	}
	return out, true
}
