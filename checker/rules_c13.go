package main

import (
	"fmt"
	"go/token"
	"go/types"
	"strings"

	"golang.org/x/tools/go/ssa"
)

func init() {
	register(&Rule{ID: "C13.1", Prop: "C13", Min: 3,
		Text: "bounded retry: redialCounter.Next returns false at 0, decrements by one when positive and returns true otherwise (negative = unlimited); every re-dial attempt of dialWithRetry is guarded by Next() of a counter created from the configured redialTimes in the same call",
		Run:  runC13_1})
	register(&Rule{ID: "C13.2", Prop: "C13", Min: 4,
		Text: "redial success path: the dial callback resets the socket, restores the id (the user-assigned id is kept, an address id follows the new local address), enters Preparing and runs the dial hooks with isRedial=true; after dialWithRetry succeeded the closure closes the old connection, sets Ok, starts the read loop and re-indexes the session, in that order",
		Run:  runC13_2})
	register(&Rule{ID: "C13.3", Prop: "C13", Min: 2,
		Text: "exhaustion path: when the redial budget is exhausted the closure closes the session (closeLocked), moves Redialing -> RedialFailed and reports false; the caller's non-redial tail then marks PassiveClosed, fires the close notification and the disconnect hook (C07.8)",
		Run:  runC13_3})
	register(&Rule{ID: "C13.4", Prop: "C13", Min: 1,
		Text: "trigger de-duplication: redialForClient tests for a redial function, takes the session lock, returns true without dialing when the connection was already replaced (oldConn != current), and otherwise dials only after the CAS into Redialing - in that dominance order",
		Run:  runC13_4})
	register(&Rule{ID: "C13.5", Prop: "C13", Min: 3,
		Text: "calls in flight at the moment of loss complete with a connection error before any redial: same obligations as C02.6 (drain precedes close/redial/hook on every non-closed path)",
		Run:  runC02_6})
	register(&Rule{ID: "C13.6", Prop: "C13", Min: 2,
		Text: "a write is retried only for the closed-connection sentinel and only after a successful redial: in Push and AsyncCall the path from session.write back to session.write exists only through the true edges of `stat == statConnClosed` and of redialForClient(usedConn)",
		Run:  runC13_6})
	register(&Rule{ID: "C13.9", Prop: "C13", Min: 3,
		Text: "a writer never redials under a live reader: the CAS to Redialing that a writer's redialForClient call can reach (Push, AsyncCall: resolved through the constant flag they pass) starts only from {PassiveClosed, RedialFailed}; the one the reader reaches at the end of readDisconnected starts from PassiveClosing - from Ok or PassiveClosing a writer's redial is followed by the old reader cancelling the re-sent calls and closing the new connection",
		Run:  runC13_9})
	register(&Rule{ID: "C13.7", Prop: "C13", Min: 1,
		Text: "redial is enabled exactly when configured: Dial installs session.redialForClientLocked only on the RedialTimes() != 0 edge (Health() and redialForClient treat a nil function as 'no redial')",
		Run:  runC13_7})
}

func runC13_1(c *Ctx) {
	p := c.P
	next := p.Fn(Root, "redialCounter", "Next")
	// shape: t := *r; if t == 0 return false; if t > 0 { *r = t-1 }; return true
	zeroFalse, decOnPos, trueElse := false, false, false
	recv := next.Params[0]
	for _, b := range next.Blocks {
		ifi, ok := b.Instrs[len(b.Instrs)-1].(*ssa.If)
		if !ok {
			continue
		}
		bo, ok := ifi.Cond.(*ssa.BinOp)
		if !ok {
			continue
		}
		ld, isLd := bo.X.(*ssa.UnOp)
		k, okc := ConstIntOf(bo.Y)
		if !isLd || ld.X != ssa.Value(recv) || !okc || k != 0 {
			continue
		}
		switch bo.Op {
		case token.EQL:
			w := &Walk{P: p}
			w.FromBlock(b.Succs[0])
			for _, e := range w.Exits {
				if cst, isC := e.(*ssa.Return).Results[0].(*ssa.Const); isC && cst.Value != nil && cst.Value.String() == "false" {
					zeroFalse = true
				}
			}
		case token.GTR:
			// the true edge stores load-1 back
			for _, in := range b.Succs[0].Instrs {
				if st, isSt := in.(*ssa.Store); isSt && st.Addr == ssa.Value(recv) {
					if sub, isB := st.Val.(*ssa.BinOp); isB && sub.Op == token.SUB {
						if d, okd := ConstIntOf(sub.Y); okd && d == 1 {
							decOnPos = true
						}
					}
				}
			}
		}
	}
	nTrue := 0
	Instrs(next, func(i ssa.Instruction) {
		if r, ok := i.(*ssa.Return); ok {
			if cst, isC := r.Results[0].(*ssa.Const); isC && cst.Value != nil && cst.Value.String() == "true" {
				nTrue++
			}
		}
	})
	trueElse = nTrue == 1
	c.fact("shape")
	c.Check(zeroFalse && decOnPos && trueElse, "redialCounter.Next counts down to zero", p.Pos(next.Pos()), "0 => false; >0 => decrement, true; <0 => true (unlimited)", fmt.Sprintf("redialCounter.Next broken (false at zero: %v, decrements when positive: %v, single true return: %v): the redial budget is not honoured (endless or no retries)", zeroFalse, decOnPos, trueElse))
	// dialWithRetry: the loop's dialOne (the second one) only on the true edge of Next() on a counter from newRedialCounter
	dwr := p.Fn(Root, "Dialer", "dialWithRetry")
	nextM := p.MethodObj(Root, "redialCounter", "Next")
	newCounter := p.MethodObj(Root, "Dialer", "newRedialCounter")
	dialOne := p.MethodObj(Root, "Dialer", "dialOne")
	dials := p.callsReaching(dwr, dialOne)
	isDial := func(i ssa.Instruction) bool {
		for _, d := range dials {
			if i == ssa.Instruction(d) {
				return true
			}
		}
		return false
	}
	okLoop := len(dials) >= 1
	nextTrue := map[*ssa.BasicBlock]int{}
	for _, e := range CondCallEdges(dwr, nextM) {
		cnt, isC := e.Recv.(*ssa.Call)
		if !isC || CalleeObj(cnt) != newCounter {
			okLoop = false
			continue
		}
		// the counter is created once per dialWithRetry (not inside the retry loop)
		if len(p.ReachableFrom(cnt, func(i ssa.Instruction) bool { return i == ssa.Instruction(cnt) }, nil, nil)) > 0 {
			okLoop = false
		}
		nextTrue[e.If.Block()] = EdgeIndex(e.If.Block(), e.True)
	}
	if len(nextTrue) == 0 {
		okLoop = false
	}
	// between two dials on any path, the true edge of counter.Next() is crossed
	guarded := 0
	for _, d := range dials {
		again := p.ReachableFrom(d, isDial, nil, func(b *ssa.BasicBlock, k int) bool {
			idx, isNext := nextTrue[b]
			return !isNext || idx != k
		})
		if len(again) > 0 {
			okLoop = false
		}
		guarded++
	}
	c.fact("path-search")
	c.Check(okLoop && guarded >= 1, "dialWithRetry re-dials only within the budget", p.Pos(dwr.Pos()), fmt.Sprintf("%d dial site(s); from each, another dial is reachable only across the true edge of Next() on a counter created once", guarded), "dialWithRetry re-dials outside the Next() guard of a fresh redial counter: the configured number of attempts is exceeded (or attempts never stop)")
	// the counter is created from the configured redialTimes
	nc := p.Fn(Root, "Dialer", "newRedialCounter")
	dN, rtIdx := p.FieldIndex(Root, "Dialer", "redialTimes")
	fromCfg := false
	Instrs(nc, func(i ssa.Instruction) {
		if cv, ok := i.(*ssa.ChangeType); ok && isFieldLoad(cv.X, dN, rtIdx) {
			fromCfg = true
		}
		if cv, ok := i.(*ssa.Convert); ok && isFieldLoad(cv.X, dN, rtIdx) {
			fromCfg = true
		}
	})
	c.Check(fromCfg, "the budget is the configured RedialTimes", p.Pos(nc.Pos()), "counter initialised from Dialer.redialTimes", "the redial counter is not initialised from the configured RedialTimes")
}

// redialClosure returns the closure stored into session.redialForClientLocked and its dial callback.
func redialClosure(p *Prog) (closure, callback *ssa.Function) {
	dial := p.Fn(Root, "peer", "Dial")
	_, redialIdx := p.FieldIndex(Root, "session", "redialForClientLocked")
	for _, a := range dial.AnonFuncs {
		if closureStoredToField(dial, a, redialIdx) {
			closure = a
		}
	}
	if closure == nil {
		anchorFail("redial closure not found in Dial")
	}
	dwr := p.MethodObj(Root, "Dialer", "dialWithRetry")
	calls := CallsTo(closure, dwr)
	if len(calls) != 1 {
		anchorFail("redial closure: expected one dialWithRetry call")
	}
	callback = closureArg(calls[0], 2)
	if callback == nil {
		anchorFail("redial closure: dial callback not a closure")
	}
	return
}

func runC13_2(c *Ctx) {
	p := c.P
	st := p.statusTable()
	closure, cb := redialClosure(p)
	reset := p.MethodObj(Root+"/socket", "Socket", "Reset")
	sockSetID := p.MethodObj(Root+"/socket", "Socket", "SetID")
	change := p.MethodObj(Root, "session", "changeStatus")
	postDial := p.MethodObj(Root, "pluginSingleContainer", "postDial")
	idM := p.MethodObj(Root, "session", "ID")
	one := func(fn *ssa.Function, pred func(ssa.Instruction) bool, what string) ssa.Instruction {
		var out []ssa.Instruction
		Instrs(fn, func(i ssa.Instruction) {
			if pred(i) {
				out = append(out, i)
			}
		})
		if len(out) == 0 {
			anchorFail("redial: %s not found", what)
		}
		return out[0]
	}
	isChange := func(to string) func(ssa.Instruction) bool {
		return func(i ssa.Instruction) bool {
			call, ok := i.(ssa.CallInstruction)
			if !ok || CalleeObj(call) != change {
				return false
			}
			k, _ := ConstIntOf(CallArgs(call)[0])
			return st.name[k] == to
		}
	}
	rs := one(cb, func(i ssa.Instruction) bool { return IsCallTo(i, reset) }, "socket.Reset")
	prep := one(cb, isChange("statusPreparing"), "changeStatus(Preparing)")
	pd := one(cb, func(i ssa.Instruction) bool { return IsCallTo(i, postDial) }, "postDial")
	sets := CallsTo(cb, sockSetID)
	okCb := Dominates(rs, prep) && Dominates(prep, pd) && (len(sets) == 2 || len(sets) == 1) // one SetID per branch, or one SetID of the merged value
	for _, s := range sets {
		if !Dominates(rs, s) || !(Dominates(s, prep) || len(p.ReachableFrom(s, func(i ssa.Instruction) bool { return i == prep }, nil, nil)) > 0) {
			okCb = false
		}
	}
	// postDial called with isRedial == true
	if call, ok := pd.(ssa.CallInstruction); ok {
		if cst, isC := CallArgs(call)[1].(*ssa.Const); !isC || cst.Value == nil || cst.Value.String() != "true" {
			okCb = false
		}
	}
	c.fact("dominance")
	c.Check(okCb, "redial callback: Reset -> SetID -> Preparing -> postDial(isRedial=true)", p.Pos(cb.Pos()), "in dominance order", "the redial callback does not reset the socket, restore the id, enter Preparing and run the dial hooks (isRedial=true) in that order: hooks run on the old connection / with the wrong id / PreSend-PreReceive refuse to work")
	// id restoration: one SetID gets the old id read before dialing (a free variable), the other the new local address
	keepsUser := false
	var idArgs []ssa.Value
	for _, s := range sets {
		a := Resolve(CallArgs(s)[0])
		if phi, isPhi := a.(*ssa.Phi); isPhi { // newID := oldID; if ... { newID = LocalAddr() }; SetID(newID)
			for _, e := range phi.Edges {
				idArgs = append(idArgs, Resolve(e))
			}
		} else {
			idArgs = append(idArgs, a)
		}
	}
	for _, arg := range idArgs {
		// the old id: a value computed in the enclosing closure by sess.ID()
		if fv, ok := arg.(*ssa.FreeVar); ok {
			if b := freeVarBinding(fv); b != nil {
				if call, isCall := Resolve(b).(*ssa.Call); isCall && CalleeObj(call) == idM {
					keepsUser = true
				}
			}
		}
		if call, isCall := arg.(*ssa.Call); isCall && CalleeObj(call) == idM {
			keepsUser = true
		}
	}
	c.Check(keepsUser, "redial keeps a user-assigned id", p.Pos(cb.Pos()), "SetID(oldID) with the id read before dialing", "the redial callback no longer restores the id the session had before the loss: a user-assigned id is lost and the session is re-indexed under its address")
	// closure tail order
	dwr := p.MethodObj(Root, "Dialer", "dialWithRetry")
	set := p.MethodObj(Root, "SessionHub", "set")
	d := one(closure, func(i ssa.Instruction) bool { return IsCallTo(i, dwr) }, "dialWithRetry")
	startFn := p.Fn(Root, "session", "startReadAndHandle")
	okEf := okStoreEffect(p)
	setEf := effect{"sessHub.set", func(i ssa.Instruction) bool { _, isCall := i.(*ssa.Call); return isCall && IsCallTo(i, set) }}
	startEf := effect{"read loop start", func(i ssa.Instruction) bool {
		call, ok := i.(ssa.CallInstruction)
		if !ok {
			return false
		}
		for _, a := range call.Common().Args {
			if mc, ok := a.(*ssa.MakeClosure); ok {
				if bf, ok := mc.Fn.(*ssa.Function); ok && bf.Object() == startFn.Object() {
					return true
				}
			}
		}
		return false
	}}
	first := func(fn *ssa.Function, ef effect, what string) ssa.Instruction {
		perf := p.performs(fn, ef, 0)
		if len(perf) == 0 {
			anchorFail("redial: %s not found", what)
		}
		return perf[0]
	}
	// the three effects in order: in the closure itself, or inside the one helper that performs all of them
	var ordered func(fn *ssa.Function, depth int) (bool, ssa.Instruction)
	ordered = func(fn *ssa.Function, depth int) (bool, ssa.Instruction) {
		okI := first(fn, okEf, "changeStatus(Ok)")
		hs := first(fn, setEf, "sessHub.set")
		start := first(fn, startEf, "start of the read loop")
		if okI == start && start == hs && depth < 2 {
			if call, isCall := okI.(*ssa.Call); isCall && call.Call.StaticCallee() != nil {
				ok, _ := ordered(call.Call.StaticCallee(), depth+1)
				return ok, okI
			}
		}
		return Dominates(okI, start) && Dominates(start, hs), okI
	}
	tailOK, okI := ordered(closure, 0)
	c.Check(Dominates(d, okI) && tailOK, "redial tail: Ok -> read loop -> index", p.Pos(closure.Pos()), "dialWithRetry -> changeStatus(Ok) -> AnywayGo(startReadAndHandle) -> sessHub.set", "after a successful redial the session is not set Ok, given a read loop and re-indexed in that order: later calls fail or replies are never read")
	// the old connection is closed on the success path
	netClose := p.MethodObj("net", "Conn", "Close")
	closedOld := false
	for _, call := range CallsTo(closure, netClose) {
		if Dominates(d, call) && (Dominates(call, okI) || call.Block().Dominates(okI.Block()) || len(p.ReachableFrom(call, func(i ssa.Instruction) bool { return i == okI }, nil, nil)) > 0) {
			closedOld = true
		}
	}
	c.Check(closedOld, "redial closes the old connection", p.Pos(closure.Pos()), "oldConn.Close() before Ok", "the redial success path never closes the old connection (descriptor leak; the old reader keeps a usable socket)")
}

func runC13_3(c *Ctx) {
	p := c.P
	st := p.statusTable()
	closure, _ := redialClosure(p)
	dwr := p.MethodObj(Root, "Dialer", "dialWithRetry")
	closeLocked := p.MethodObj(Root, "session", "closeLocked")
	try := p.MethodObj(Root, "session", "tryChangeStatus")
	ok := false
	for _, e := range NilCmpEdges(closure, func(v ssa.Value) bool {
		ex, isEx := v.(*ssa.Extract)
		if !isEx || ex.Index != 1 {
			return false
		}
		call, isC := ex.Tuple.(*ssa.Call)
		return isC && CalleeObj(call) == dwr
	}) {
		closes, failed := false, false
		w := &Walk{P: p, Stop: func(i ssa.Instruction) bool {
			if IsCallTo(i, closeLocked) {
				closes = true
			}
			if call, isC := i.(ssa.CallInstruction); isC && CalleeObj(call) == try {
				to, _ := ConstIntOf(CallArgs(call)[0])
				from, okf := VariadicInts(CallArgs(call)[1])
				if st.name[to] == "statusRedialFailed" && okf && len(from) == 1 && st.name[from[0]] == "statusRedialing" {
					failed = true
				}
			}
			return false
		}}
		w.FromBlock(e.NonNil)
		retFalse := len(w.Exits) > 0
		for _, r := range w.Exits {
			if cst, isC := ReturnVals(r.(*ssa.Return))[0].(*ssa.Const); !isC || cst.Value == nil || cst.Value.String() != "false" {
				retFalse = false
			}
		}
		// and the success edge returns true
		ws := &Walk{P: p}
		ws.FromBlock(e.Nil)
		retTrue := len(ws.Exits) > 0
		for _, r := range ws.Exits {
			if cst, isC := ReturnVals(r.(*ssa.Return))[0].(*ssa.Const); !isC || cst.Value == nil || cst.Value.String() != "true" {
				retTrue = false
			}
		}
		ok = closes && failed && retFalse && retTrue
	}
	c.fact("path-search")
	c.Check(ok, "redial exhaustion: close, RedialFailed, false", p.Pos(closure.Pos()), "err != nil => closeLocked, Redialing->RedialFailed, return false; success => true", "when every redial attempt failed the closure does not close the session, enter RedialFailed and report false (or reports true): the session neither ends nor recovers, callers hang or keep redialing")
	// readDisconnected uses the verdict: on false => PassiveClosed + notify + hook (C07.8 checks the hook)
	rd := p.Fn(Root, "session", "readDisconnected")
	redial := p.MethodObj(Root, "session", "redialForClient")
	notify := p.MethodObj(Root, "session", "notifyClosed")
	okTail := false
	for _, e := range CondCallEdges(rd, redial) {
		w := &Walk{P: p, Stop: func(i ssa.Instruction) bool { return IsCallTo(i, notify) }}
		w.FromBlock(e.False)
		okTail = len(w.Exits) == 0 && len(w.Hits) > 0
	}
	c.Check(okTail, "a session that cannot redial ends", p.Pos(rd.Pos()), "redialForClient false => close notification on every path", "after a failed (or disabled) redial readDisconnected does not fire the close notification: the session never ends for its users")
}

func runC13_4(c *Ctx) {
	p := c.P
	fn := p.Fn(Root, "session", "redialForClient")
	sessN, rfIdx := p.FieldIndex(Root, "session", "redialForClientLocked")
	_, lockIdx := p.FieldIndex(Root, "session", "lock")
	try := p.MethodObj(Root, "session", "tryChangeStatus")
	getConn := p.MethodObj(Root, "session", "getConn")
	var nilTest, lockCall, idTest, dial ssa.Instruction
	var cass []*ssa.Call
	for _, e := range NilCmpEdges(fn, func(v ssa.Value) bool { return isFieldLoad(v, sessN, rfIdx) }) {
		nilTest = e.If
		// nil edge returns false
	}
	Instrs(fn, func(i ssa.Instruction) {
		if call, ok := i.(*ssa.Call); ok {
			if o := CalleeObj(call); o != nil && o.Name() == "Lock" && len(call.Call.Args) > 0 && isFieldAddr(call.Call.Args[0], sessN, lockIdx) {
				lockCall = i
			}
			if CalleeObj(call) == try || isCasFn(p, call.Call.StaticCallee(), try) {
				cass = append(cass, call)
			}
			if !call.Call.IsInvoke() && isFieldLoad(call.Call.Value, sessN, rfIdx) {
				dial = i
			}
		}
	})
	for _, ee := range EqEdges(fn) {
		if call, isC := ee.Y.(*ssa.Call); isC && CalleeObj(call) == getConn && ee.X == ssa.Value(fn.Params[1]) {
			idTest = ee.If
		}
	}
	ok := nilTest != nil && lockCall != nil && idTest != nil && len(cass) > 0 && dial != nil &&
		Dominates(nilTest, lockCall) && Dominates(lockCall, idTest)
	if ok {
		for _, cas := range cass {
			if !Dominates(idTest, cas) {
				ok = false
			}
		}
	}
	// dial only on the success edge of the CAS (one CAS, or one per kind of caller merged in a phi)
	if ok {
		ok = false
		isCasResult := func(v ssa.Value) bool {
			for _, o := range valueOrigins(v) {
				call, isC := o.(*ssa.Call)
				if !isC || (CalleeObj(call) != try && !isCasFn(p, call.Call.StaticCallee(), try)) {
					return false
				}
			}
			return true
		}
		for _, b := range fn.Blocks {
			ifi, isIf := b.Instrs[len(b.Instrs)-1].(*ssa.If)
			if !isIf {
				continue
			}
			cv, neg := stripNot(ifi.Cond)
			if !isCasResult(cv) {
				continue
			}
			t := b.Succs[0]
			if neg {
				t = b.Succs[1]
			}
			if BlockDominatesInstr(t, dial) {
				ok = true
			}
		}
	}
	c.fact("dominance")
	c.Check(ok, "redialForClient: nil test -> lock -> identity test -> CAS -> dial", p.Pos(fn.Pos()), "in dominance order; dial on the CAS success edge", "redialForClient does not test, lock, compare the connection and CAS before dialing in that order: two triggers (a failing writer and the reader) can both redial, or a stale trigger closes a fresh connection")
}

// isCasFn: h is a helper of the root package whose every result is the result of a tryChangeStatus call.
func isCasFn(p *Prog, h *ssa.Function, try *types.Func) bool {
	if h == nil || len(h.Blocks) == 0 || h.Signature.Results().Len() != 1 {
		return false
	}
	n := 0
	ok := true
	Instrs(h, func(i ssa.Instruction) {
		ret, isRet := i.(*ssa.Return)
		if !isRet {
			return
		}
		for _, o := range valueOrigins(ReturnVals(ret)[0]) {
			call, isC := o.(*ssa.Call)
			if !isC || CalleeObj(call) != try {
				ok = false
			}
			n++
		}
	})
	return ok && n > 0
}

func runC13_6(c *Ctx) {
	p := c.P
	write := p.MethodObj(Root, "session", "write")
	redial := p.MethodObj(Root, "session", "redialForClient")
	connClosed := p.Global(Root, "statConnClosed")
	for _, name := range []string{"Push", "AsyncCall"} {
		fn := p.Fn(Root, "session", name)
		ws := CallsTo(fn, write)
		if len(ws) == 0 {
			c.Undec(name+" retry", p.Pos(fn.Pos()), "no session.write found")
			continue
		}
		isW := func(i ssa.Instruction) bool { return IsCallTo(i, write) }
		// the blocks through which the retry passes
		var redialTrue, sentinelTrue *ssa.BasicBlock
		for _, e := range CondCallEdges(fn, redial) {
			redialTrue = e.True
		}
		for _, b := range fn.Blocks {
			ifi, ok := b.Instrs[len(b.Instrs)-1].(*ssa.If)
			if !ok {
				continue
			}
			bo, ok := ifi.Cond.(*ssa.BinOp)
			if !ok || (bo.Op != token.EQL && bo.Op != token.NEQ) {
				continue
			}
			if IsLoadOfGlobal(bo.Y, connClosed) || IsLoadOfGlobal(bo.X, connClosed) {
				sentinelTrue = b.Succs[0]
				if bo.Op == token.NEQ {
					sentinelTrue = b.Succs[1]
				}
			}
		}
		ok := redialTrue != nil && sentinelTrue != nil
		if ok {
			// with the redial-true edge removed, no write can be followed by a write
			for _, w := range ws {
				again := p.ReachableFrom(w, isW, nil, func(b *ssa.BasicBlock, k int) bool { return !(b.Succs[k] == redialTrue && isCondTrueEdge(b, redial)) })
				if len(again) > 0 {
					ok = false
				}
			}
			// the redial test is made only on the sentinel edge
			for _, e := range CondCallEdges(fn, redial) {
				if !BlockDominatesInstr(sentinelTrue, e.Call) {
					ok = false
				}
			}
			// and with it, it can (the retry exists)
			retry := false
			for _, w := range ws {
				if len(p.ReachableFrom(w, isW, nil, nil)) > 0 {
					retry = true
				}
			}
			if !retry {
				ok = false
			}
		}
		c.fact("path-search")
		c.Check(ok, name+" retries only after a successful redial for the closed sentinel", p.Pos(fn.Pos()), "write -> (stat == statConnClosed) -> redialForClient() true -> write", name+" can re-send a frame on a path that is not `stat == statConnClosed && redialForClient(usedConn)` (or never retries): frames are duplicated on other errors, or a redial-enabled session fails a write it could have retried")
	}
}

// isCondTrueEdge: block b ends in `if call(target)` (possibly negated); used to cut exactly that edge.
func isCondTrueEdge(b *ssa.BasicBlock, target interface{ Name() string }) bool {
	ifi, ok := b.Instrs[len(b.Instrs)-1].(*ssa.If)
	if !ok {
		return false
	}
	cv, _ := stripNot(ifi.Cond)
	call, ok := cv.(*ssa.Call)
	if !ok {
		return false
	}
	o := CalleeObj(call)
	return o != nil && o.Name() == target.Name()
}

func runC13_7(c *Ctx) {
	p := c.P
	dial := p.Fn(Root, "peer", "Dial")
	sessN, rfIdx := p.FieldIndex(Root, "session", "redialForClientLocked")
	redialTimes := p.MethodObj(Root, "Dialer", "RedialTimes")
	var store ssa.Instruction
	Instrs(dial, func(i ssa.Instruction) {
		if st, ok := i.(*ssa.Store); ok && isFieldAddr(st.Addr, sessN, rfIdx) {
			store = i
		}
	})
	ok := false
	if store != nil {
		for _, b := range dial.Blocks {
			ifi, isIf := b.Instrs[len(b.Instrs)-1].(*ssa.If)
			if !isIf {
				continue
			}
			bo, isB := ifi.Cond.(*ssa.BinOp)
			if !isB || (bo.Op != token.NEQ && bo.Op != token.EQL) {
				continue
			}
			call, isC := bo.X.(*ssa.Call)
			k, okc := ConstIntOf(bo.Y)
			if !isC || CalleeObj(call) != redialTimes || !okc || k != 0 {
				continue
			}
			t := b.Succs[0]
			if bo.Op == token.EQL {
				t = b.Succs[1]
			}
			if BlockDominatesInstr(t, store) {
				ok = true
			}
		}
	}
	c.fact("dominance")
	c.Check(ok, "redial function installed iff RedialTimes != 0", p.Pos(dial.Pos()), "sess.redialForClientLocked assigned on the RedialTimes() != 0 edge", "Dial does not install the redial function exactly when RedialTimes != 0: sessions redial although disabled, or never redial although enabled")
	// Health and redialForClient treat nil as disabled
	h := p.Fn(Root, "session", "Health")
	hasNil := len(NilCmpEdges(h, func(v ssa.Value) bool { return isFieldLoad(v, sessN, rfIdx) })) > 0
	c.Check(hasNil, "Health() treats a missing redial function as 'no redial'", p.Pos(h.Pos()), "nil test present", "Health() no longer distinguishes sessions without redial")
}

func init() {
	text := "a call that was (re-)written successfully is pending with an OK status: on every path of AsyncCall that reaches postWriteCall, the last value stored in cmd.stat is known to be OK (it is the value whose OK() test led there) - a stale non-OK status left from a failed first attempt would make the reply path drop the reply and the disconnect path skip the call"
	register(&Rule{ID: "C13.8", Prop: "C13", Min: 1, Text: text, Run: runWrittenCallStatusOK})
	register(&Rule{ID: "C02.11", Prop: "C02", Min: 1, Text: text, Run: runWrittenCallStatusOK})
}

// staleValue stands for "the value a phi had in an earlier iteration".
var staleValue ssa.Value = &ssa.Const{}

func runWrittenCallStatusOK(c *Ctx) {
	p := c.P
	fn := p.Fn(Root, "session", "AsyncCall")
	okM := p.MethodObj(statusPkg, "Status", "OK")
	postWriteCall := p.MethodObj(Root, "pluginSingleContainer", "postWriteCall")
	ccN, cstatIdx := p.FieldIndex(Root, "callCmd", "stat")
	// per path: the last value stored to cmd.stat, and the set of values known OK / known non-OK
	type state struct {
		b      *ssa.BasicBlock
		last   ssa.Value
		okSet  string
		badSet string
	}
	edges := map[*ssa.BasicBlock]CondEdge{}
	for _, e := range CondCallEdges(fn, okM) {
		edges[e.If.Block()] = e
	}
	addTo := func(set string, v ssa.Value) string {
		n := v.Name()
		if strings.Contains(set, "|"+n+"|") {
			return set
		}
		return set + "|" + n + "|"
	}
	has := func(set string, v ssa.Value) bool {
		return v != nil && v != staleValue && strings.Contains(set, "|"+v.Name()+"|")
	}
	seen := map[state]bool{}
	bad := ""
	reached := 0
	var visit func(s state)
	visit = func(s state) {
		if seen[s] || len(seen) > 5000 {
			return
		}
		seen[s] = true
		last := s.last
		okSet, badSet := s.okSet, s.badSet
		// a phi denotes a new value each time its block is entered: facts about it (and a stored copy of
		// its previous value) do not carry over
		for _, in := range s.b.Instrs {
			phi, isPhi := in.(*ssa.Phi)
			if !isPhi {
				break
			}
			okSet = strings.ReplaceAll(okSet, "|"+phi.Name()+"|", "")
			badSet = strings.ReplaceAll(badSet, "|"+phi.Name()+"|", "")
			if last == ssa.Value(phi) {
				last = staleValue
			}
		}
		for _, in := range s.b.Instrs {
			if st, ok := in.(*ssa.Store); ok && isFieldAddr(st.Addr, ccN, cstatIdx) {
				last = st.Val
			}
			if IsCallTo(in, postWriteCall) {
				reached++
				known := last != nil && last != staleValue && (IsNilConst(last) || has(okSet, last))
				if !known {
					what := "<never stored>"
					if last == staleValue {
						what = "a value from an earlier loop iteration (the failed attempt)"
					} else if last != nil {
						what = last.Name() + " = " + last.String()
						if has(badSet, last) {
							what += " (known non-OK)"
						}
					}
					bad = fmt.Sprintf("postWriteCall at %s is reachable with cmd.stat last assigned %s, which is not the value whose OK() test succeeded", p.InstrPos(in), what)
				}
				return
			}
			switch in.(type) {
			case *ssa.Return, *ssa.Panic:
				return
			}
		}
		for k, succ := range s.b.Succs {
			ns := state{succ, last, okSet, badSet}
			if e, ok := edges[s.b]; ok {
				// receiver: the value itself, or a load of cmd.stat (then it denotes `last`)
				recv := e.Recv
				if isFieldLoad(recv, ccN, cstatIdx) {
					recv = last
				}
				if recv != nil && recv != staleValue {
					if succ == e.True && EdgeIndex(s.b, e.True) == k {
						ns.okSet = addTo(okSet, recv)
					} else {
						ns.badSet = addTo(badSet, recv)
					}
				}
			}
			visit(ns)
		}
	}
	visit(state{fn.Blocks[0], nil, "", ""})
	c.fact("path-search(last-store tracking)")
	c.Check(bad == "" && reached > 0, "AsyncCall: a written call keeps an OK status", p.Pos(fn.Pos()), fmt.Sprintf("every path to postWriteCall has cmd.stat known OK (%d states)", len(seen)),
		"AsyncCall can consider a call written while cmd.stat still holds a non-OK or unchecked status: "+bad+" - the reply for that call is then refused as 'already completed' and a disconnect does not cancel it: the call never completes")
}

func runC13_9(c *Ctx) {
	p := c.P
	st := p.statusTable()
	fn := p.Fn(Root, "session", "redialForClient")
	redial := p.MethodObj(Root, "session", "redialForClient")
	try := p.MethodObj(Root, "session", "tryChangeStatus")
	rd := p.Fn(Root, "session", "readDisconnected")
	// CAS calls to Redialing with their constant sources and the flag value under which they are reachable
	type casInfo struct {
		call  *ssa.Call
		mask  uint32
		param int  // index of the bool parameter guarding it (-1: none)
		when  bool // value of that parameter on the guarding edge
	}
	var cass []casInfo
	type host struct {
		fn  *ssa.Function
		via *ssa.Call // the call in redialForClient that enters the helper (nil: redialForClient itself)
	}
	hosts := []host{{fn, nil}}
	for _, call := range AllCalls(fn) {
		if cc, isCall := call.(*ssa.Call); isCall && isCasFn(p, cc.Call.StaticCallee(), try) {
			hosts = append(hosts, host{cc.Call.StaticCallee(), cc})
		}
	}
	for _, h := range hosts {
		for _, call := range CallsTo(h.fn, try) {
			cc := call.(*ssa.Call)
			args := CallArgs(cc)
			to, _ := ConstIntOf(args[0])
			if st.name[to] != "statusRedialing" {
				continue
			}
			// the source list: a constant list at the call, or a value merged from constant lists (one per branch)
			type srcList struct {
				vals []int64
				pred *ssa.BasicBlock // nil: the list at the call itself
				join *ssa.BasicBlock
			}
			var lists []srcList
			if vals, okv := VariadicInts(args[1]); okv {
				lists = append(lists, srcList{vals: vals})
			} else if phi, isPhi := args[1].(*ssa.Phi); isPhi {
				for k, e := range phi.Edges {
					vs, okE := VariadicInts(e)
					if !okE {
						lists = nil
						break
					}
					lists = append(lists, srcList{vals: vs, pred: phi.Block().Preds[k], join: phi.Block()})
				}
			}
			if len(lists) == 0 {
				c.Undec("redialForClient CAS sources", p.InstrPos(cc), "the sources of the CAS to Redialing are not a constant list")
				return
			}
			for _, sl := range lists {
				ci := casInfo{call: cc, param: -1}
				for _, v := range sl.vals {
					ci.mask |= 1 << st.bits[v]
				}
				// taken(b): the list is in force when control passed through block b
				taken := func(blk *ssa.BasicBlock, si int) bool {
					t := blk.Succs[si]
					if sl.pred == nil {
						return BlockDominatesInstr(t, cc)
					}
					if blk == sl.pred {
						return t == sl.join
					}
					return t == sl.pred || t.Dominates(sl.pred)
				}
				for k, prm := range h.fn.Params {
					if b, isB := prm.Type().Underlying().(*types.Basic); !isB || b.Kind() != types.Bool {
						continue
					}
					// the flag as redialForClient's callers see it
					outer := k
					if h.via != nil {
						outer = -1
						for j, fp := range fn.Params {
							if k < len(h.via.Call.Args) && h.via.Call.Args[k] == ssa.Value(fp) {
								outer = j
							}
						}
						if outer < 0 {
							continue
						}
					}
					for _, blk := range h.fn.Blocks {
						ifi, isIf := blk.Instrs[len(blk.Instrs)-1].(*ssa.If)
						if !isIf {
							continue
						}
						cv, neg := stripNot(ifi.Cond)
						if cv != ssa.Value(prm) {
							continue
						}
						if taken(blk, 0) {
							ci.param, ci.when = outer, !neg
						}
						if taken(blk, 1) {
							ci.param, ci.when = outer, neg
						}
					}
				}
				cass = append(cass, ci)
			}
		}
	}
	if len(cass) == 0 {
		c.Undec("redialForClient CAS sources", p.Pos(fn.Pos()), "no CAS to Redialing found in redialForClient")
		return
	}
	readerLive := st.mask("statusOk", "statusPassiveClosing")
	n := 0
	for _, caller := range p.ShippedFuncs() {
		for _, call := range CallsTo(caller, redial) {
			n++
			fromReader := EnclosingTop(caller) == rd
			var reach uint32
			for _, ci := range cass {
				if ci.param >= 0 {
					// receiver is Args[0]
					arg := call.Common().Args[ci.param]
					if cst, isC := arg.(*ssa.Const); isC && cst.Value != nil {
						if (cst.Value.String() == "true") != ci.when {
							continue
						}
					}
				}
				reach |= ci.mask
			}
			key := "redial trigger in " + FnName(caller)
			c.fact("constants+dominance")
			if fromReader {
				c.Check(reach&st.mask("statusPassiveClosing") != 0, key, p.InstrPos(call), "the reader redials from "+st.names(reach)+" (PassiveClosing is the state it entered itself)",
					"the reader's redial cannot start from PassiveClosing (only from "+st.names(reach)+"): a lost connection is never redialed")
			} else {
				c.Check(reach&readerLive == 0 && reach != 0, key, p.InstrPos(call), "a writer redials only from "+st.names(reach),
					"a writer's redial can start from "+st.names(reach&readerLive)+": the reader of the old connection is still alive (it has not noticed the loss, or is waiting for handlers before it drains) - when it resumes it cancels the calls re-sent on the new connection and closes the new socket")
				need := st.mask("statusPassiveClosed", "statusRedialFailed")
				c.Check(reach&need == need, key+" (recovers)", p.InstrPos(call), "a writer can start a redial from both states a lost session rests in: "+st.names(need),
					"a writer's redial cannot start from "+st.names(need&^reach)+": a session whose last round of attempts failed (RedialFailed) or whose reader gave up (PassiveClosed) stays dead although the server is reachable again - every later call fails with connection closed (through the proxy: Bad Gateway for ever)")
			}
		}
	}
	if n < 3 {
		c.Undec("redial triggers", "", fmt.Sprintf("found %d callers of redialForClient, expected >= 3", n))
	}
}
