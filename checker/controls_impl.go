package main

func controlsImpl(prop string) (int, error) { return 0, nil }
