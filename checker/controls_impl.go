package main

import (
	"fmt"
	"go/types"
	"path/filepath"
	"sync"

	"golang.org/x/tools/go/packages"
	"golang.org/x/tools/go/ssa"
	"golang.org/x/tools/go/ssa/ssautil"
)

var (
	ctrlOnce sync.Once
	ctrlN    int
	ctrlErr  error
)

// controlsImpl analyses checker/controls/ctrl with the engine primitives. It is independent of /repo.
func controlsImpl(prop string) (int, error) {
	ctrlOnce.Do(func() { ctrlN, ctrlErr = runAllControls() })
	return ctrlN, ctrlErr
}

func runAllControls() (n int, err error) {
	defer func() {
		if r := recover(); r != nil {
			err = fmt.Errorf("controls panicked: %v", r)
		}
	}()
	dir := filepath.Join(*flagVerif, "checker", "controls")
	cfg := &packages.Config{Mode: packages.LoadAllSyntax, Dir: dir, Env: loadEnv()}
	pkgs, e := packages.Load(cfg, "./ctrl")
	if e != nil || len(pkgs) != 1 || len(pkgs[0].Errors) > 0 {
		return 0, fmt.Errorf("cannot load control package: %v %v", e, pkgs)
	}
	prog, spkgs := ssautil.AllPackages(pkgs, ssa.InstantiateGenerics)
	prog.Build()
	sp := spkgs[0]
	p := &Prog{Fset: pkgs[0].Fset, Pkgs: pkgs, SSA: prog, SSAPkg: map[string]*ssa.Package{"ctrl/ctrl": sp}, RepoDir: dir}
	p.Shipped = []*ssa.Package{sp}
	// shipped funcs of the control program = the ctrl package's functions
	for _, m := range sp.Members {
		if f, ok := m.(*ssa.Function); ok && f.Blocks != nil {
			p.shipFns = append(p.shipFns, WithAnon(f)...)
		}
		if t, ok := m.(*ssa.Type); ok {
			for _, T := range []types.Type{t.Type(), types.NewPointer(t.Type())} {
				ms := prog.MethodSets.MethodSet(T)
				for i := 0; i < ms.Len(); i++ {
					if f := prog.MethodValue(ms.At(i)); f != nil && f.Blocks != nil && f.Pkg == sp && f.Synthetic == "" {
						dup := false
						for _, g := range p.shipFns {
							if g == f {
								dup = true
							}
						}
						if !dup {
							p.shipFns = append(p.shipFns, f)
						}
					}
				}
			}
		}
	}
	fn := func(name string) *ssa.Function {
		if f, ok := sp.Members[name].(*ssa.Function); ok {
			return f
		}
		panic("control function missing: " + name)
	}
	method := func(typ, name string) *ssa.Function {
		T := sp.Members[typ].(*ssa.Type).Type()
		obj, _, _ := types.LookupFieldOrMethod(types.NewPointer(T), true, sp.Pkg, name)
		f := prog.FuncValue(obj.(*types.Func))
		if f == nil {
			panic("control method missing: " + typ + "." + name)
		}
		return f
	}
	expect := func(what string, got, want bool) {
		n++
		if got != want && err == nil {
			err = fmt.Errorf("control %q: engine verdict %v, expected %v", what, got, want)
		}
	}
	// 1. must-pass
	rel := method("res", "release").Object().(*types.Func)
	for _, s := range []struct {
		f    string
		want bool
	}{{"goodMustPass", true}, {"badMustPass", false}} {
		ok, _ := p.MustPassFromEntry(fn(s.f), func(i ssa.Instruction) bool { return IsCallTo(i, rel) }, nil)
		expect("must-pass "+s.f, ok, s.want)
	}
	// 2. value tracking
	get := method("mach", "get").Object().(*types.Func)
	sink := method("mach", "sink").Object().(*types.Func)
	for _, s := range []struct {
		f    string
		want uint32
	}{{"goodTrack", 1 << 0}, {"badTrack", 1<<0 | 1<<1}} {
		f := fn(s.f)
		var tracked ssa.Value
		for _, call := range CallsTo(f, get) {
			tracked = call.(ssa.Value)
		}
		var seen uint32
		vt := &ValTrack{P: p, Tracked: tracked, Consts: map[int64]uint{0: 0, 1: 1, 2: 2}}
		vt.Visit = func(i ssa.Instruction, mask, fl uint32) (uint32, bool) {
			if IsCallTo(i, sink) {
				seen |= mask
			}
			return fl, false
		}
		vt.Run(f, 0)
		expect("value-tracking "+s.f, seen == s.want, true)
	}
	// 3. value flow
	mut := method("stat", "mutate").Object().(*types.Func)
	statT := sp.Members["stat"].(*ssa.Type).Type()
	track := func(t types.Type) bool {
		if pt, ok := t.Underlying().(*types.Pointer); ok {
			if types.Identical(pt.Elem(), statT) {
				return true
			}
			if pp, ok := pt.Elem().Underlying().(*types.Pointer); ok && types.Identical(pp.Elem(), statT) {
				return true
			}
		}
		return false
	}
	fl := NewFlow(p, p.shipFns, track)
	pred := fl.Reach([]interface{}{sp.Members["sentinel"].(*ssa.Global)})
	for _, s := range []struct {
		f    string
		want bool // tainted receiver reaches mutate
	}{{"goodFlow", false}, {"use", true}} {
		tainted := false
		for _, call := range CallsTo(fn(s.f), mut) {
			if _, ok := pred[call.Common().Args[0]]; ok {
				tainted = true
			}
		}
		expect("value-flow "+s.f, tainted, s.want)
	}
	// 4. locksets
	gN := sp.Members["guarded"].(*ssa.Type).Type().(*types.Named)
	for _, s := range []struct {
		m         string
		excl      bool
		wantHeld  bool
		writeOnly bool
	}{{"goodWrite", true, true, true}, {"badWriteUnderRLock", true, false, true}, {"badUnlockedRead", false, false, false}} {
		f := method("guarded", s.m)
		for _, a := range p.FieldAccesses(gN) {
			if a.Fn != f || a.Field.Index != 1 {
				continue
			}
			if s.writeOnly != (a.Kind == AccWrite) {
				continue
			}
			expect("lockset "+s.m, heldAtMode(p, f, gN, 0, a.Instr, s.excl), s.wantHeld)
		}
	}
	// 5. error use
	mf := fn("mayFail").Object().(*types.Func)
	for _, s := range []struct {
		f    string
		want bool
	}{{"goodErr", true}, {"badErr", false}} {
		for _, call := range CallsTo(fn(s.f), mf) {
			expect("error-use "+s.f, errChecked(call, 0), s.want)
		}
	}
	// 6. atomic consistency
	cN := sp.Members["ctr"].(*ssa.Type).Type().(*types.Named)
	atomicSeen, plainSeen := false, false
	for _, a := range p.FieldAccesses(cN) {
		if a.Kind == AccAtomic {
			atomicSeen = true
		} else if a.Kind == AccRead {
			plainSeen = true
		}
	}
	expect("atomic-consistency mixed access detected", atomicSeen && plainSeen, true)
	// 7. linear forms + intervals: allocated <= checked
	chk := fn("check").Object().(*types.Func)
	alc := fn("alloc").Object().(*types.Func)
	for _, s := range []struct {
		f    string
		want bool
	}{{"goodBound", true}, {"badBound", false}} {
		f := fn(s.f)
		cc := CallsTo(f, chk)[0]
		ac := CallsTo(f, alc)[0]
		eng := &linEngine{p: p, fn: f, at: ac.Block(), slack: map[ssa.Value]bool{}, busy: map[ssa.Value]bool{}}
		d := eng.lin(CallArgs(cc)[0]).add(eng.lin(CallArgs(ac)[0]), -1)
		expect("linear-bound "+s.f, eng.lower(d) >= 0, s.want)
	}
	// 8. narrow arithmetic: a positive example for the rule whose expected count on the tree is zero
	for _, s := range []struct {
		f    string
		want bool // some narrow operation may leave its type
	}{{"narrowWrap", true}, {"narrowOK", false}} {
		f := fn(s.f)
		wraps := false
		Instrs(f, func(i ssa.Instruction) {
			bo, ok := i.(*ssa.BinOp)
			if !ok {
				return
			}
			b, isB := bo.Type().Underlying().(*types.Basic)
			if !isB || b.Kind() != types.Uint8 {
				return
			}
			eng := &linEngine{p: p, fn: f, at: bo.Block(), slack: map[ssa.Value]bool{}, busy: map[ssa.Value]bool{}}
			a, bb := eng.interval(bo.X), eng.interval(bo.Y)
			if !(ival{satAdd(a.lo, bb.lo), satAdd(a.hi, bb.hi)}).within(typeIval(bo.Type())) {
				wraps = true
			}
		})
		expect("narrow-arithmetic "+s.f, wraps, s.want)
	}
	if n < 16 && err == nil {
		err = fmt.Errorf("only %d control verdicts evaluated (expected >= 16)", n)
	}
	return n, err
}
