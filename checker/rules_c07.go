package main

import (
	"fmt"
	"go/types"
	"sort"
	"strings"

	"golang.org/x/tools/go/ssa"
)

var statusNames = []string{"statusPreparing", "statusOk", "statusActiveClosing", "statusActiveClosed", "statusPassiveClosing", "statusPassiveClosed", "statusRedialing", "statusRedialFailed"}

type statusTab struct {
	val  map[string]int64
	name map[int64]string
	bits map[int64]uint
}

func (p *Prog) statusTable() *statusTab {
	t := &statusTab{val: map[string]int64{}, name: map[int64]string{}, bits: map[int64]uint{}}
	for _, n := range statusNames {
		v := p.ConstInt(Root, n)
		t.val[n] = v
		t.name[v] = n
		t.bits[v] = uint(v)
	}
	return t
}

func (t *statusTab) mask(names ...string) uint32 {
	var m uint32
	for _, n := range names {
		m |= 1 << t.bits[t.val[n]]
	}
	return m
}

func (t *statusTab) names(m uint32) string {
	var out []string
	for _, n := range statusNames {
		if m&(1<<t.bits[t.val[n]]) != 0 {
			out = append(out, strings.TrimPrefix(n, "status"))
		}
	}
	return "{" + strings.Join(out, ",") + "}"
}

// transition is one call site of changeStatus / tryChangeStatus.
type transition struct {
	call       ssa.CallInstruction
	fn         *ssa.Function
	cas        bool
	to         int64
	from       []int64 // CAS sources (constants); fromTracked = a CAS whose single source is a loaded status value
	fromLoaded ssa.Value
}

func (p *Prog) statusTransitions() ([]transition, error) {
	change := p.MethodObj(Root, "session", "changeStatus")
	try := p.MethodObj(Root, "session", "tryChangeStatus")
	var out []transition
	for _, fn := range p.ShippedFuncs() {
		for _, call := range AllCalls(fn) {
			o := CalleeObj(call)
			if o != change && o != try {
				continue
			}
			args := CallArgs(call)
			to, ok := ConstIntOf(args[0])
			if !ok {
				return nil, fmt.Errorf("%s: non-constant target status at %s", FnName(fn), p.InstrPos(call))
			}
			tr := transition{call: call, fn: fn, cas: o == try, to: to}
			if tr.cas {
				from, ok := VariadicInts(args[1])
				if phi, isPhi := args[1].(*ssa.Phi); !ok && isPhi {
					// the source list is chosen as a value (`src := []int32{A, B}; if flag { src = []int32{C} }`):
					// the CAS may start from any member of any of the lists
					all := true
					var union []int64
					for _, e := range phi.Edges {
						vs, okE := VariadicInts(e)
						if !okE {
							all = false
						}
						union = append(union, vs...)
					}
					if all && len(union) > 0 {
						from, ok = union, true
					}
				}
				if !ok {
					// single non-constant source: CAS on a loaded value
					if sl, isS := args[1].(*ssa.Slice); isS {
						if al, isA := sl.X.(*ssa.Alloc); isA && al.Referrers() != nil {
							for _, r := range *al.Referrers() {
								if ia, isIA := r.(*ssa.IndexAddr); isIA && ia.Referrers() != nil {
									for _, rr := range *ia.Referrers() {
										if st, isSt := rr.(*ssa.Store); isSt && st.Addr == ia {
											tr.fromLoaded = st.Val
										}
									}
								}
							}
						}
					}
					if tr.fromLoaded == nil {
						return nil, fmt.Errorf("%s: unrecognised CAS source list at %s", FnName(fn), p.InstrPos(call))
					}
				}
				tr.from = from
			}
			out = append(out, tr)
		}
	}
	sort.Slice(out, func(i, j int) bool { return p.InstrPos(out[i].call) < p.InstrPos(out[j].call) })
	return out, nil
}

func init() {
	register(&Rule{ID: "C07.1", Prop: "C07", Min: 6,
		Text: "session.status is touched only inside newSession/changeStatus/tryChangeStatus/checkStatus/getStatus and only through sync/atomic (plus the literal initialiser); didCloseNotify only in notifyClosed via CAS",
		Run:  runC07_1})
	register(&Rule{ID: "C07.2", Prop: "C07", Min: 9,
		Text: "status transitions: entering ActiveClosing/PassiveClosing is a compare-and-swap from explicit sources; no CAS leaves ActiveClosed; sources PassiveClosed/RedialFailed only under the redial non-nil test; a blind store is allowed only when the storing path owns the state (ActiveClosed after own CAS to ActiveClosing, PassiveClosed after own entry to PassiveClosing, Preparing/Redialing/Ok inside the redial closure, Ok after hooks per C07.3)",
		Run:  runC07_2})
	register(&Rule{ID: "C07.3", Prop: "C07", Min: 4,
		Text: "changeStatus(statusOk) is executed only after postAccept/postDial returned OK (accept side: same function; dial side: callback returns nil only on the OK edge, dialWithRetry returns a nil error only after a callback returned nil, the store is on the nil-error edge)",
		Run:  runC07_3})
	register(&Rule{ID: "C07.4", Prop: "C07", Min: 1,
		Text: "close(closeNotifyCh) happens only in notifyClosed on the success edge of the didCloseNotify CAS (exactly-once notification)",
		Run:  runC07_4})
	register(&Rule{ID: "C07.5", Prop: "C07", Min: 2,
		Text: "write gate: every path of (*session).write reaching Socket.WriteMessage has status in {Ok} or (ActiveClosing and Mtype()==TypeReply); the refusal path returns the shared statConnClosed sentinel before touching the message context (C07.9)",
		Run:  runC07_5})
	register(&Rule{ID: "C07.6", Prop: "C07", Min: 7,
		Text: "session index maintenance: sessHub.set only after hook success at the four establishment sites; closeLocked and readDisconnected delete the session from the index before waiting/closing; SetID does set(new) then delete(old id)",
		Run:  runC07_6})
	register(&Rule{ID: "C07.7", Prop: "C07", Min: 1,
		Text: "takeover ordering in SessionHub.set: once the new session is installed under the id, no call that may reach SessionHub.delete (e.g. closing the old session) is executed",
		Run:  runC07_7})
	register(&Rule{ID: "C07.8", Prop: "C07", Min: 3,
		Text: "the disconnect hook runs exactly once per close path: postDisconnect is called only from closeLocked (once on every path past the CAS) and from the non-redial tail of readDisconnected (once); no other caller",
		Run:  runC07_8})
	register(&Rule{ID: "C07.11", Prop: "C07", Min: 4,
		Text: "a connection rejected by an accept/dial hook leaves the session index: on the non-OK edge of postAccept/postDial at each of the four establishment sites every path to the exit passes a call that reaches SessionHub.delete (sess.Close() or hub.delete) - a hook may already have indexed the session through SetID",
		Run:  runC07_11})
	register(&Rule{ID: "C07.10", Prop: "C07", Min: 2,
		Text: "read gate: in startReadAndHandle goonRead() guards the loop head (ReadMessage only on its true edge) and is re-tested between ReadMessage and the dispatch of the handler goroutine",
		Run:  runC07_10})
}

func runC07_1(c *Ctx) {
	p := c.P
	n, statusIdx := p.FieldIndex(Root, "session", "status")
	_, notifyIdx := p.FieldIndex(Root, "session", "didCloseNotify")
	_, seqIdx := p.FieldIndex(Root, "session", "seq")
	allowedStatus := map[*ssa.Function]bool{}
	for _, m := range []string{"changeStatus", "tryChangeStatus", "checkStatus", "getStatus"} {
		allowedStatus[p.Fn(Root, "session", m)] = true
	}
	newSession := p.Fn(Root, "", "newSession")
	notifyClosed := p.Fn(Root, "session", "notifyClosed")
	accs := p.FieldAccesses(n)
	c.fact("field-access-set")
	count := map[int]int{}
	for _, a := range accs {
		var what string
		switch a.Field.Index {
		case statusIdx:
			what = "status"
		case notifyIdx:
			what = "didCloseNotify"
		case seqIdx:
			what = "seq"
		default:
			continue
		}
		count[a.Field.Index]++
		key := fmt.Sprintf("session.%s %s in %s", what, a.Kind, FnName(a.Fn))
		pos := p.InstrPos(a.Instr)
		switch what {
		case "status":
			if a.Fn == newSession && a.Kind == AccWrite {
				c.Hold(key, pos, "initialiser before publication")
			} else if allowedStatus[a.Fn] && a.Kind == AccAtomic {
				c.Hold(key, pos, "atomic."+a.Via+" inside the accessor set")
			} else {
				c.Viol(key, pos, fmt.Sprintf("session.status accessed (%s %s) outside the atomic accessor set: the lifecycle state machine can be bypassed or torn", a.Kind, a.Via))
			}
		case "didCloseNotify":
			if a.Fn == notifyClosed && a.Kind == AccAtomic && a.Via == "CompareAndSwapInt32" {
				c.Hold(key, pos, "CAS in notifyClosed")
			} else {
				c.Viol(key, pos, "session.didCloseNotify accessed outside notifyClosed's CAS: close notification may fire twice or never")
			}
		case "seq":
			// decided under C01.1; counted here only for the access-set evidence
		}
	}
	if count[statusIdx] < 5 {
		c.Undec("session.status access-count", "", fmt.Sprintf("only %d accesses to session.status found (expected >= 5)", count[statusIdx]))
	}
}

func runC07_2(c *Ctx) {
	p := c.P
	st := p.statusTable()
	trs, err := p.statusTransitions()
	if err != nil {
		c.Undec("transition-extraction", "", err.Error())
		return
	}
	_, redialIdx := p.FieldIndex(Root, "session", "redialForClientLocked")
	try := p.MethodObj(Root, "session", "tryChangeStatus")
	change := p.MethodObj(Root, "session", "changeStatus")
	getStatus := p.MethodObj(Root, "session", "getStatus")
	dialFn := p.Fn(Root, "peer", "Dial")
	inRedialClosure := func(fn *ssa.Function) bool {
		// the redial closure is the anonymous function of Dial stored into sess.redialForClientLocked (and its nested callbacks)
		for f := fn; f != nil; f = f.Parent() {
			if f.Parent() == dialFn && closureStoredToField(dialFn, f, redialIdx) {
				return true
			}
		}
		return false
	}
	for _, tr := range trs {
		toName := st.name[tr.to]
		kind := "store"
		if tr.cas {
			kind = "cas"
		}
		key := fmt.Sprintf("%s %s(->%s)", FnName(tr.fn), kind, strings.TrimPrefix(toName, "status"))
		pos := p.InstrPos(tr.call)
		if toName == "" {
			c.Viol(key, pos, fmt.Sprintf("transition to unknown status value %d", tr.to))
			continue
		}
		if tr.cas {
			// (ii) sources
			bad := ""
			for _, f := range tr.from {
				switch st.name[f] {
				case "statusActiveClosed":
					bad = "CAS source set contains ActiveClosed: the closed state could be left"
				case "statusPassiveClosed", "statusRedialFailed":
					// must be under the redial non-nil test
					okGuard := false
					for _, e := range NilCmpEdges(tr.fn, func(v ssa.Value) bool {
						fr, _, ok := LoadedField(v)
						return ok && fr.Index == redialIdx && fr.Struct.Obj().Name() == "session"
					}) {
						if BlockDominatesInstr(e.NonNil, tr.call) {
							okGuard = true
						}
					}
					if !okGuard {
						// the CAS sits in a helper: every call site of the helper must be under the test
						if cs, noEscape := p.callSitesOf(tr.fn); noEscape && len(cs) > 0 {
							okGuard = true
							for _, site := range cs {
								under := false
								for _, e := range NilCmpEdges(site.fn, func(v ssa.Value) bool {
									fr, _, ok := LoadedField(v)
									return ok && fr.Index == redialIdx && fr.Struct.Obj().Name() == "session"
								}) {
									if BlockDominatesInstr(e.NonNil, site.in) {
										under = true
									}
								}
								if !under {
									okGuard = false
								}
							}
						}
					}
					c.fact("dominance")
					if !okGuard && !inRedialClosure(tr.fn) {
						bad = "CAS source " + st.name[f] + " not dominated by the redialForClientLocked != nil test: a session without redial could leave its closed state"
					}
				}
			}
			if tr.fromLoaded != nil {
				// CAS from a freshly loaded status value: accepted idiom only when the loaded value is the
				// result of getStatus() and the path excludes the closed states (checked by value tracking)
				call, ok := tr.fromLoaded.(*ssa.Call)
				if !ok || CalleeObj(call) != getStatus {
					bad = "CAS source is not a constant list nor the value loaded by getStatus()"
				} else {
					closed := st.mask("statusActiveClosed", "statusPassiveClosed", "statusPassiveClosing", "statusActiveClosing")
					var seenMask uint32
					vt := &ValTrack{P: p, Tracked: call, Consts: st.bits}
					vt.Visit = func(i ssa.Instruction, mask, fl uint32) (uint32, bool) {
						if i == tr.call.(ssa.Instruction) {
							seenMask |= mask
						}
						return fl, false
					}
					vt.Run(tr.fn, 0)
					c.fact("value-tracking")
					if seenMask&closed != 0 {
						bad = "CAS from the loaded status may start from " + st.names(seenMask&closed)
					}
				}
			}
			if bad != "" {
				c.Viol(key, pos, bad)
			} else {
				src := []string{}
				for _, f := range tr.from {
					src = append(src, strings.TrimPrefix(st.name[f], "status"))
				}
				if tr.fromLoaded != nil {
					src = append(src, "<loaded, not closed>")
				}
				c.Hold(key, pos, "CAS from {"+strings.Join(src, ",")+"}")
			}
			continue
		}
		// blind store
		switch toName {
		case "statusActiveClosing", "statusPassiveClosing":
			c.Viol(key, pos, "blind store into "+strings.TrimPrefix(toName, "status")+": a concurrent Close()/disconnect that changed the status between the load and this store is overwritten (both close paths then run; the disconnect hook fires twice)")
		case "statusActiveClosed":
			ok := false
			for _, e := range CondCallEdges(tr.fn, try) {
				to, _ := ConstIntOf(CallArgs(e.Call)[0])
				if st.name[to] == "statusActiveClosing" && BlockDominatesInstr(e.True, tr.call) {
					ok = true
				}
			}
			c.fact("dominance")
			c.Check(ok, key, pos, "dominated by this function's successful CAS to ActiveClosing", "store of ActiveClosed not dominated by a successful CAS to ActiveClosing in the same function")
		case "statusPassiveClosed":
			// every feasible path to the store passed an entry into PassiveClosing (store or CAS success)
			ok, why := passiveClosedOwned(p, st, tr, try, change, getStatus)
			c.fact("value-tracking")
			c.Check(ok, key, pos, "every feasible path to the store entered PassiveClosing in this function", why)
		case "statusPreparing", "statusRedialing":
			c.Check(inRedialClosure(tr.fn), key, pos, "inside the redial closure (reachable only under the Redialing CAS)", "store of "+toName+" outside the redial closure")
		case "statusOk":
			// decided by C07.3; here: location only
			c.HoldTrivial(key, pos, "Ok store: ordering after hooks decided by C07.3")
		default:
			c.Viol(key, pos, "blind store of "+toName+" is not in the allowed table")
		}
	}
}

// closureStoredToField: is anonymous function `anon` of fn stored into field idx of a session?
func closureStoredToField(fn, anon *ssa.Function, idx int) bool {
	found := false
	Instrs(fn, func(i ssa.Instruction) {
		st, ok := i.(*ssa.Store)
		if !ok {
			return
		}
		fa, ok := st.Addr.(*ssa.FieldAddr)
		if !ok || fa.Field != idx {
			return
		}
		if mc, ok := st.Val.(*ssa.MakeClosure); ok && mc.Fn == anon {
			found = true
		}
	})
	return found
}

func passiveClosedOwned(p *Prog, st *statusTab, tr transition, try, change, getStatus *types.Func) (bool, string) {
	// tracked value: the (single) getStatus() result of the function
	var tracked ssa.Value
	n := 0
	for _, call := range CallsTo(tr.fn, getStatus) {
		tracked = call.(ssa.Value)
		n++
	}
	if n != 1 {
		return false, fmt.Sprintf("expected exactly one getStatus() load in %s, found %d (idiom not recognised)", FnName(tr.fn), n)
	}
	const passed = 1
	ok := true
	why := ""
	// CAS success edges
	casTrue := map[*ssa.BasicBlock]map[int]bool{}
	for _, e := range CondCallEdges(tr.fn, try) {
		to, _ := ConstIntOf(CallArgs(e.Call)[0])
		if st.name[to] == "statusPassiveClosing" {
			b := e.If.Block()
			if casTrue[b] == nil {
				casTrue[b] = map[int]bool{}
			}
			casTrue[b][EdgeIndex(b, e.True)] = true
		}
	}
	vt := &ValTrack{P: p, Tracked: tracked, Consts: st.bits}
	vt.Visit = func(i ssa.Instruction, mask, fl uint32) (uint32, bool) {
		if call, isCall := i.(ssa.CallInstruction); isCall && CalleeObj(call) == change {
			to, _ := ConstIntOf(CallArgs(call)[0])
			if st.name[to] == "statusPassiveClosing" {
				fl |= passed
			}
		}
		if i == tr.call.(ssa.Instruction) && fl&passed == 0 {
			ok = false
			why = "a feasible path reaches the PassiveClosed store with status in " + st.names(mask) + " without having entered PassiveClosing in this function (the session may be closing actively: both close paths would complete)"
		}
		return fl, false
	}
	vt.Edge = func(b *ssa.BasicBlock, k int, mask, fl uint32) (uint32, bool) {
		if casTrue[b][k] {
			fl |= passed
		}
		return fl, true
	}
	vt.Run(tr.fn, 0)
	return ok, why
}

// hookOKBlocks returns the blocks entered only when `hook(...)` returned an OK status.
func hookOKBlocks(p *Prog, fn *ssa.Function, hooks ...*types.Func) []*ssa.BasicBlock {
	okM := p.MethodObj("github.com/henrylee2cn/goutil/status", "Status", "OK")
	var out []*ssa.BasicBlock
	for _, e := range CondCallEdges(fn, okM) {
		call, ok := e.Recv.(*ssa.Call)
		if !ok {
			continue
		}
		for _, h := range hooks {
			if CalleeObj(call) == h {
				out = append(out, e.True)
			}
		}
	}
	return out
}

// nilErrBlocks returns blocks entered only when the error result (#idx) of a call to target is nil.
func nilErrBlocks(fn *ssa.Function, target *types.Func, idx int) []*ssa.BasicBlock {
	var out []*ssa.BasicBlock
	for _, e := range NilCmpEdges(fn, func(v ssa.Value) bool {
		ex, ok := v.(*ssa.Extract)
		if !ok || ex.Index != idx {
			return false
		}
		call, ok := ex.Tuple.(*ssa.Call)
		return ok && CalleeObj(call) == target
	}) {
		out = append(out, e.Nil)
	}
	return out
}

// establishmentSite describes where a session becomes live.
type establishmentSite struct {
	name string
	fn   *ssa.Function
	// blocks entered only after hook success
	okBlocks []*ssa.BasicBlock
	how      string
}

// establishmentSites resolves the four places where a session is established and, for
// the dial side, verifies the callback / dialWithRetry composition.
func establishmentSites(c *Ctx) []establishmentSite {
	p := c.P
	postAccept := p.MethodObj(Root, "pluginSingleContainer", "postAccept")
	postDial := p.MethodObj(Root, "pluginSingleContainer", "postDial")
	dialWithRetry := p.MethodObj(Root, "Dialer", "dialWithRetry")
	var sites []establishmentSite

	// accept side: every function that runs the accept hook (ServeConn and the per-connection code of serveListener,
	// whether that is a closure or an extracted method)
	nAccept := 0
	for _, fn := range p.ShippedFuncs() {
		if len(CallsTo(fn, postAccept)) == 0 {
			continue
		}
		nAccept++
		name := fn.Name()
		if name != "ServeConn" {
			name = "serveListener-closure"
		}
		sites = append(sites, establishmentSite{name, fn, hookOKBlocks(p, fn, postAccept), "OK edge of postAccept"})
	}
	if nAccept != 2 {
		anchorFail("expected 2 functions running the accept hook (ServeConn and serveListener's per-connection code), found %d", nAccept)
	}
	sort.Slice(sites, func(i, j int) bool { return sites[i].name < sites[j].name })

	dial := p.Fn(Root, "peer", "Dial")
	_, redialIdx := p.FieldIndex(Root, "session", "redialForClientLocked")
	var redial *ssa.Function
	for _, a := range dial.AnonFuncs {
		if closureStoredToField(dial, a, redialIdx) {
			redial = a
		}
	}
	if redial == nil {
		anchorFail("Dial: redial closure (stored to session.redialForClientLocked) not found")
	}
	for _, s := range []struct {
		name string
		fn   *ssa.Function
	}{{"Dial", dial}, {"redial-closure", redial}} {
		// the callback passed to dialWithRetry
		calls := CallsTo(s.fn, dialWithRetry)
		if len(calls) != 1 {
			anchorFail("%s: expected one dialWithRetry call, found %d", s.name, len(calls))
		}
		cbArg := CallArgs(calls[0])[2]
		mc, ok := cbArg.(*ssa.MakeClosure)
		if !ok {
			anchorFail("%s: dialWithRetry callback is not a closure literal", s.name)
		}
		cb := mc.Fn.(*ssa.Function)
		// (a) callback returns nil only on the OK edge of postDial
		okBlocks := hookOKBlocks(p, cb, postDial)
		cbOK := len(okBlocks) > 0
		nRet := 0
		Instrs(cb, func(i ssa.Instruction) {
			ret, isRet := i.(*ssa.Return)
			if !isRet {
				return
			}
			if v := ReturnVals(ret)[0]; IsNilConst(v) {
				nRet++
				dom := false
				for _, b := range okBlocks {
					if BlockDominatesInstr(b, ret) {
						dom = true
					}
				}
				if !dom {
					cbOK = false
				}
			}
		})
		c.fact("dominance")
		key := s.name + " callback returns nil only after postDial OK"
		c.Check(cbOK && nRet > 0, key, p.Pos(cb.Pos()), fmt.Sprintf("%d nil return(s), all dominated by the OK edge of postDial", nRet),
			"the dial callback can return nil (success) on a path where postDial did not return OK: the session becomes healthy without its dial hooks having succeeded")
		sites = append(sites, establishmentSite{s.name, s.fn, nilErrBlocks(s.fn, dialWithRetry, 1), "nil-error edge of dialWithRetry"})
	}
	// (b) dialWithRetry returns a nil error only after fn(conn) returned nil (or fn == nil)
	dwr := p.Fn(Root, "Dialer", "dialWithRetry")
	cbIdx := -1
	for k, prm := range dwr.Params {
		if _, isSig := prm.Type().Underlying().(*types.Signature); isSig {
			cbIdx = k
		}
	}
	if cbIdx < 0 {
		anchorFail("dialWithRetry has no callback parameter")
	}
	cbe := &cbErr{p: p, memo: map[*ssa.Function]bool{}}
	okAll := cbe.holds(dwr, cbIdx, 1)
	n := cbe.Succ
	c.fact("dominance")
	c.Check(okAll && n > 0, "dialWithRetry nil-error only after callback success", p.Pos(dwr.Pos()), fmt.Sprintf("%d success value(s): every returned error is the callback's verdict, nil on the nil edge of that verdict (or of fn == nil), or non-nil (helpers followed)", n),
		"dialWithRetry can report success although the callback (dial hooks) failed on that attempt")
	return sites
}

func okStoreEffect(p *Prog) effect {
	st := p.statusTable()
	change := p.MethodObj(Root, "session", "changeStatus")
	return effect{"changeStatus(statusOk)", func(i ssa.Instruction) bool {
		call, ok := i.(*ssa.Call)
		if !ok || CalleeObj(call) != change {
			return false
		}
		to, _ := ConstIntOf(CallArgs(call)[0])
		return st.name[to] == "statusOk"
	}}
}

func runC07_3(c *Ctx) {
	p := c.P
	st := p.statusTable()
	sites := establishmentSites(c)
	ef := okStoreEffect(p)
	found := 0
	for _, s := range sites {
		perf := p.performs(s.fn, ef, 0)
		if len(perf) > 0 {
			found++
		}
		for _, in := range perf {
			c.fact("dominance")
			c.Check(p.guardedBySites(sites, s.fn, in, 0), s.name+" changeStatus(Ok) after hooks", p.InstrPos(in), "dominated by the "+s.how,
				"changeStatus(statusOk) in "+s.name+" is not dominated by the "+s.how+": the session is reported healthy before/without its hooks succeeding")
		}
	}
	// no other Ok store anywhere: every transition to Ok is in a site, or in a helper all of whose call sites are guarded
	trs, err := p.statusTransitions()
	if err != nil {
		c.Undec("transition-extraction", "", err.Error())
		return
	}
	for _, tr := range trs {
		if st.name[tr.to] != "statusOk" {
			continue
		}
		if !p.guardedBySites(sites, tr.fn, tr.call, 0) {
			in := false
			for _, s := range sites {
				if s.fn == tr.fn {
					in = true // reported above with the site's name
				}
			}
			if !in {
				c.Viol(FnName(tr.fn)+" transition to Ok outside establishment sites", p.InstrPos(tr.call), "status set to Ok outside the four establishment sites (or in a helper that is not called only on their hook-success edges)")
			}
		}
	}
	if found < 4 {
		c.Undec("ok-store-count", "", fmt.Sprintf("%d of the 4 establishment sites set statusOk (directly or through a helper)", found))
	}
}

func runC07_4(c *Ctx) {
	p := c.P
	_, chIdx := p.FieldIndex(Root, "session", "closeNotifyCh")
	notifyClosed := p.Fn(Root, "session", "notifyClosed")
	n := 0
	for _, fn := range p.ShippedFuncs() {
		Instrs(fn, func(i ssa.Instruction) {
			call, ok := i.(ssa.CallInstruction)
			if !ok {
				return
			}
			b, ok := call.Common().Value.(*ssa.Builtin)
			if !ok || b.Name() != "close" {
				return
			}
			fr, _, ok := LoadedField(call.Common().Args[0])
			if !ok || fr.Struct.Obj().Name() != "session" || fr.Struct.Obj().Pkg().Path() != Root || fr.Index != chIdx {
				return
			}
			n++
			key := "close(closeNotifyCh) in " + FnName(fn)
			if fn != notifyClosed {
				c.Viol(key, p.InstrPos(i), "closeNotifyCh closed outside notifyClosed: double close panics / notification not once")
				return
			}
			// dominated by CAS success edge
			dom := false
			for _, b := range fn.Blocks {
				ifi, ok := b.Instrs[len(b.Instrs)-1].(*ssa.If)
				if !ok {
					continue
				}
				cv, neg := stripNot(ifi.Cond)
				cas, ok := cv.(*ssa.Call)
				if !ok || CalleeObj(cas) == nil || CalleeObj(cas).FullName() != "sync/atomic.CompareAndSwapInt32" {
					continue
				}
				t := b.Succs[0]
				if neg {
					t = b.Succs[1]
				}
				if BlockDominatesInstr(t, i) {
					dom = true
				}
			}
			c.fact("dominance")
			c.Check(dom, key, p.InstrPos(i), "on the CAS success edge", "close(closeNotifyCh) not guarded by the didCloseNotify CAS success edge")
		})
	}
	if n == 0 {
		c.Undec("close(closeNotifyCh)", "", "no close of closeNotifyCh found")
	}
}

func runC07_5(c *Ctx) {
	p := c.P
	st := p.statusTable()
	write := p.Fn(Root, "session", "write")
	getStatus := p.MethodObj(Root, "session", "getStatus")
	writeMsg := p.MethodObj(Root+"/socket", "Socket", "WriteMessage")
	mtype := p.MethodObj(Root+"/socket", "Message", "Mtype")
	msgCtx := p.MethodObj(Root+"/socket", "Message", "Context")
	typeReply := p.ConstInt(Root, "TypeReply")
	gs := CallsTo(write, getStatus)
	wm := CallsTo(write, writeMsg)
	if len(gs) != 1 || len(wm) != 1 {
		c.Undec("write gate anchors", p.Pos(write.Pos()), fmt.Sprintf("expected 1 getStatus and 1 WriteMessage in write, found %d/%d", len(gs), len(wm)))
		return
	}
	tracked := gs[0].(ssa.Value)
	// edges taken when Mtype()==TypeReply is true
	const viaReply = 1
	replyTrue := map[*ssa.BasicBlock]int{}
	for _, b := range write.Blocks {
		ifi, ok := b.Instrs[len(b.Instrs)-1].(*ssa.If)
		if !ok {
			continue
		}
		cv, neg := stripNot(ifi.Cond)
		bo, ok := cv.(*ssa.BinOp)
		if !ok {
			continue
		}
		call, ok := bo.X.(*ssa.Call)
		k, okc := ConstIntOf(bo.Y)
		if !ok || !okc || CalleeObj(call) != mtype || k != typeReply || bo.Op.String() != "==" {
			continue
		}
		if neg {
			replyTrue[b] = 1
		} else {
			replyTrue[b] = 0
		}
		replyTrue[b]++ // store index+1 so 0 means absent
	}
	var maskAt, maskNoReply uint32
	vt := &ValTrack{P: p, Tracked: tracked, Consts: st.bits}
	vt.Visit = func(i ssa.Instruction, mask, fl uint32) (uint32, bool) {
		if i == wm[0].(ssa.Instruction) {
			maskAt |= mask
			if fl&viaReply == 0 {
				maskNoReply |= mask
			}
		}
		return fl, false
	}
	vt.Edge = func(b *ssa.BasicBlock, k int, mask, fl uint32) (uint32, bool) {
		if idx, ok := replyTrue[b]; ok && idx-1 == k {
			fl |= viaReply
		}
		return fl, true
	}
	vt.Run(write, 0)
	c.fact("value-tracking")
	allowed := st.mask("statusOk", "statusActiveClosing")
	okGate := maskAt != 0 && maskAt&^allowed == 0 && maskNoReply&^st.mask("statusOk") == 0
	c.Check(okGate, "write gate", p.InstrPos(wm[0]),
		fmt.Sprintf("WriteMessage reachable only with status in %s; without the Mtype()==TypeReply edge only in %s (%d states)", st.names(maskAt), st.names(maskNoReply), vt.States),
		fmt.Sprintf("WriteMessage reachable with status %s (without the reply edge: %s): frames can be written by a session that is not Ok / non-reply frames while closing", st.names(maskAt), st.names(maskNoReply)))
	// C07.9: refusal returns the sentinel before touching the message context
	connClosed := p.Global(Root, "statConnClosed")
	var early []*ssa.Return
	w := &Walk{P: p, Stop: func(i ssa.Instruction) bool { return IsCallTo(i, msgCtx, writeMsg) }}
	w.FromBlock(write.Blocks[0])
	for _, e := range w.Exits {
		early = append(early, e.(*ssa.Return))
	}
	c.fact("path-search")
	if len(early) == 0 {
		c.Undec("write refusal sentinel", p.Pos(write.Pos()), "no refusal return found before message.Context()")
		return
	}
	okRef := true
	for _, r := range early {
		if !IsLoadOfGlobal(ReturnVals(r)[1], connClosed) {
			okRef = false
		}
	}
	c.Check(okRef, "write refusal sentinel", p.InstrPos(early[0]), "refusal returns the statConnClosed sentinel (identity compared by the retry logic)",
		"the gate's refusal path does not return the shared statConnClosed sentinel: callers comparing `stat == statConnClosed` (redial retry) and CodeConnClosed handling break")
}

func runC07_6(c *Ctx) {
	p := c.P
	set := p.MethodObj(Root, "SessionHub", "set")
	del := p.MethodObj(Root, "SessionHub", "delete")
	sites := establishmentSites(&Ctx{P: p, rule: c.rule, Facts: c.Facts}) // composition facts are reported by C07.3
	setEf := effect{"sessHub.set", func(i ssa.Instruction) bool { _, isCall := i.(*ssa.Call); return isCall && IsCallTo(i, set) }}
	for _, s := range sites {
		perf := p.performs(s.fn, setEf, 0)
		if len(perf) == 0 {
			c.Viol(s.name+" sessHub.set present", p.Pos(s.fn.Pos()), "established session is never inserted into the session index")
			continue
		}
		for _, in := range perf {
			c.fact("dominance")
			c.Check(p.guardedBySites(sites, s.fn, in, 0), s.name+" sessHub.set after hooks", p.InstrPos(in), "dominated by the "+s.how,
				"sessHub.set in "+s.name+" not dominated by the "+s.how+": a rejected/unauthenticated connection is listed as a session")
		}
	}
	// closeLocked: delete on every path past the CAS
	checkCloseLockedDeletes(c)
	// readDisconnected: delete dominates the waits / cancel / close / redial / hook
	rd := p.Fn(Root, "session", "readDisconnected")
	dels := CallsTo(rd, del)
	later := []*types.Func{p.MethodObj(Root, "session", "graceCtxWait"), p.MethodObj(Root+"/socket", "Socket", "Close"),
		p.MethodObj(Root, "session", "redialForClient"), p.MethodObj(Root, "pluginSingleContainer", "postDisconnect")}
	okDel := len(dels) > 0
	for _, call := range AllCalls(rd) {
		if !IsCallTo(call, later...) {
			continue
		}
		dom := false
		for _, d := range dels {
			if Dominates(d, call) {
				dom = true
			}
		}
		if !dom {
			okDel = false
		}
	}
	c.fact("dominance")
	c.Check(okDel, "readDisconnected deletes from index first", p.Pos(rd.Pos()), "sessHub.delete dominates the drain, socket close, redial and disconnect hook",
		"readDisconnected proceeds to drain/close/redial without having removed the session from the index")
	// SetID: set(new) then delete(old)
	setID := p.Fn(Root, "session", "SetID")
	sets, dls := CallsTo(setID, set), CallsTo(setID, del)
	idM := p.MethodObj(Root, "session", "ID")
	sockSetID := p.MethodObj(Root+"/socket", "Socket", "SetID")
	okSet := len(sets) == 1 && len(dls) == 1
	if okSet {
		okSet = Dominates(sets[0], dls[0])
		// delete's argument is the id read before the socket id changed
		arg := CallArgs(dls[0])[0]
		idCall, isCall := arg.(*ssa.Call)
		okSet = okSet && isCall && CalleeObj(idCall) == idM
		for _, sc := range CallsTo(setID, sockSetID) {
			okSet = okSet && isCall && Dominates(idCall, sc) && Dominates(sc, sets[0])
		}
	}
	c.fact("dominance")
	c.Check(okSet, "SetID set-new-then-delete-old", p.Pos(setID.Pos()), "old id read, socket id changed, hub.set(s), then hub.delete(old id)",
		"SetID does not re-index the session as: read old id -> change id -> set(new) -> delete(old)")
}

func runC07_7(c *Ctx) {
	p := c.P
	setFn := p.Fn(Root, "SessionHub", "set")
	del := p.Fn(Root, "SessionHub", "delete")
	store := p.MethodObj("github.com/henrylee2cn/goutil", "Map", "Store")
	loadOrStore := p.MethodObj("github.com/henrylee2cn/goutil", "Map", "LoadOrStore")
	mayDelete := func(i ssa.Instruction) bool {
		call, ok := i.(ssa.CallInstruction)
		if !ok {
			return false
		}
		return p.CallMayReach(call, del, 6)
	}
	n := 0
	for _, call := range CallsTo(setFn, store) {
		n++
		hits := p.ReachableFrom(call, mayDelete, nil, nil)
		c.fact("callgraph-reach")
		key := "SessionHub.set after Store(new)"
		if len(hits) == 0 {
			c.Hold(key, p.InstrPos(call), "no call that may reach SessionHub.delete after the new session is stored")
		} else {
			c.Viol(key, p.InstrPos(hits[0]), fmt.Sprintf("after the new session is stored under the id, %s may reach SessionHub.delete(id): closing the old session removes the NEW entry - the live session disappears from the index", describeCall(hits[0])),
				"store: "+p.InstrPos(call), "may-delete call: "+p.InstrPos(hits[0]))
		}
	}
	for _, call := range CallsTo(setFn, loadOrStore) {
		n++
		// on the not-loaded edge (new stored) nothing may delete
		var loaded ssa.Value
		if refs := call.(ssa.Value).Referrers(); refs != nil {
			for _, r := range *refs {
				if ex, ok := r.(*ssa.Extract); ok && ex.Index == 1 {
					loaded = ex
				}
			}
		}
		bad := false
		var badAt ssa.Instruction
		for _, b := range setFn.Blocks {
			ifi, ok := b.Instrs[len(b.Instrs)-1].(*ssa.If)
			if !ok {
				continue
			}
			cv, neg := stripNot(ifi.Cond)
			if cv != loaded || loaded == nil {
				continue
			}
			notLoaded := b.Succs[1]
			if neg {
				notLoaded = b.Succs[0]
			}
			if hits := p.ReachableFromBlock(notLoaded, mayDelete, nil, func(bb *ssa.BasicBlock, k int) bool { return true }); len(hits) > 0 {
				// reachable from the not-loaded block only matters if not through the loaded edge; blocks are distinct successors
				if !(b.Succs[0] == b.Succs[1]) {
					// the not-loaded successor normally returns immediately
					bad = true
					badAt = hits[0]
				}
			}
		}
		c.fact("path-search")
		if loaded == nil {
			c.Undec("SessionHub.set LoadOrStore loaded-flag", p.InstrPos(call), "cannot find the `loaded` result of LoadOrStore")
		} else if bad {
			c.Viol("SessionHub.set after LoadOrStore(new)", p.InstrPos(badAt), "on the path where LoadOrStore installed the new session a call may reach SessionHub.delete")
		} else {
			c.Hold("SessionHub.set after LoadOrStore(new)", p.InstrPos(call), "freshly stored path performs no deleting call")
		}
	}
	if n == 0 {
		c.Undec("SessionHub.set installs", p.Pos(setFn.Pos()), "no Store/LoadOrStore found in SessionHub.set")
	}
}

func describeCall(i ssa.Instruction) string {
	if call, ok := i.(ssa.CallInstruction); ok {
		if o := CalleeObj(call); o != nil {
			return strings.ReplaceAll(o.FullName(), Root, "erpc") + "()"
		}
	}
	return i.String()
}

func runC07_8(c *Ctx) {
	p := c.P
	pd := p.MethodObj(Root, "pluginSingleContainer", "postDisconnect")
	closeLocked := p.Fn(Root, "session", "closeLocked")
	rd := p.Fn(Root, "session", "readDisconnected")
	try := p.MethodObj(Root, "session", "tryChangeStatus")
	redial := p.MethodObj(Root, "session", "redialForClient")
	// who calls
	for _, fn := range p.ShippedFuncs() {
		for _, call := range CallsTo(fn, pd) {
			key := "postDisconnect caller " + FnName(fn)
			if fn == closeLocked || fn == rd {
				c.HoldTrivial(key, p.InstrPos(call), "allowed caller")
			} else {
				c.Viol(key, p.InstrPos(call), "postDisconnect invoked from an unexpected function: the disconnect hook can run more than once per session end")
			}
		}
	}
	// method value / interface escapes of postDisconnect are not expected
	isPD := func(i ssa.Instruction) bool { return IsCallTo(i, pd) }
	// closeLocked: exactly once past the CAS
	for _, e := range CondCallEdges(closeLocked, try) {
		w := &Walk{P: p, Stop: isPD}
		w.FromBlock(e.True)
		once := len(w.Exits) == 0 && len(w.Hits) > 0
		for _, h := range w.Hits {
			if len(p.ReachableFrom(h, isPD, nil, nil)) > 0 {
				once = false
			}
		}
		c.fact("must-pass")
		c.Check(once, "closeLocked postDisconnect exactly once", p.InstrPos(e.If), "every path past the CAS runs the hook once", "closeLocked does not run postDisconnect exactly once on every path past the CAS")
	}
	// readDisconnected: on the !redialForClient edge exactly once; never on the redial-success edge
	okRD := false
	for _, e := range CondCallEdges(rd, redial) {
		w := &Walk{P: p, Stop: isPD}
		w.FromBlock(e.False)
		once := len(w.Exits) == 0 && len(w.Hits) > 0
		for _, h := range w.Hits {
			if len(p.ReachableFrom(h, isPD, nil, nil)) > 0 {
				once = false
			}
		}
		notOnSuccess := len(p.ReachableFromBlock(e.True, isPD, nil, nil)) == 0 || e.True == e.False
		// all calls are on that edge
		all := true
		for _, call := range CallsTo(rd, pd) {
			if !BlockDominatesInstr(e.False, call) {
				all = false
			}
		}
		okRD = once && notOnSuccess && all
	}
	c.fact("must-pass")
	c.Check(okRD, "readDisconnected postDisconnect once on the non-redial tail", p.Pos(rd.Pos()), "hook runs once iff redialForClient returned false", "readDisconnected does not run postDisconnect exactly once on (and only on) the non-redial tail")
}

func runC07_10(c *Ctx) {
	p := c.P
	fn := p.Fn(Root, "session", "startReadAndHandle")
	goon := p.MethodObj(Root, "session", "goonRead")
	readMsg := p.MethodObj(Root+"/socket", "Socket", "ReadMessage")
	goF := p.FuncObj(Root, "Go")
	_ = readMsg
	_, rc := readLoopReadCall(p)
	if rc == nil {
		c.Undec("read gate anchors", p.Pos(fn.Pos()), "cannot find the (single) read call of the read loop")
		return
	}
	reads := []ssa.CallInstruction{rc.(ssa.CallInstruction)}
	edges := CondCallEdges(fn, goon)
	headOK := false
	for _, e := range edges {
		if BlockDominatesInstr(e.True, reads[0]) && !Dominates(reads[0], e.Call) {
			headOK = true
		}
	}
	c.fact("dominance")
	c.Check(headOK, "loop-head gate", p.InstrPos(reads[0]), "ReadMessage only on the true edge of goonRead()", "ReadMessage is not guarded by goonRead(): a closed session keeps reading")
	dispatches := CallsTo(fn, goF)
	if len(dispatches) == 0 {
		c.Undec("dispatch anchor", p.Pos(fn.Pos()), "no call to Go(...) found")
		return
	}
	for _, d := range dispatches {
		ok := false
		for _, e := range edges {
			if Dominates(reads[0], e.Call) && BlockDominatesInstr(e.True, d) {
				ok = true
			}
		}
		c.fact("dominance")
		c.Check(ok, "post-read gate", p.InstrPos(d), "dispatch only on the true edge of a goonRead() made after ReadMessage", "a message read after the session left Ok/ActiveClosing is still dispatched to a handler (no new handler may start after close)")
	}
}

// hookRejectBlocks returns the blocks entered only when hook(...) returned a non-OK status.
func hookRejectBlocks(p *Prog, fn *ssa.Function, hooks ...*types.Func) []*ssa.BasicBlock {
	okM := p.MethodObj("github.com/henrylee2cn/goutil/status", "Status", "OK")
	var out []*ssa.BasicBlock
	for _, e := range CondCallEdges(fn, okM) {
		call, ok := e.Recv.(*ssa.Call)
		if !ok {
			continue
		}
		for _, h := range hooks {
			if CalleeObj(call) == h {
				out = append(out, e.False)
			}
		}
	}
	return out
}

func runC07_11(c *Ctx) {
	p := c.P
	postAccept := p.MethodObj(Root, "pluginSingleContainer", "postAccept")
	postDial := p.MethodObj(Root, "pluginSingleContainer", "postDial")
	del := p.Fn(Root, "SessionHub", "delete")
	n := 0
	for _, fn := range p.ShippedFuncs() {
		if fn.Pkg == nil || fn.Pkg.Pkg.Path() != Root {
			continue
		}
		for _, b := range hookRejectBlocks(p, fn, postAccept, postDial) {
			n++
			w := &Walk{P: p, Stop: func(i ssa.Instruction) bool {
				call, ok := i.(ssa.CallInstruction)
				if !ok {
					return false
				}
				if _, isGo := i.(*ssa.Go); isGo {
					return false
				}
				return p.CallMayReach(call, del, 4)
			}}
			w.FromBlock(b)
			c.fact("must-pass+callgraph-reach")
			key := "reject edge in " + FnName(fn)
			pos := p.InstrPos(b.Instrs[0])
			if len(w.Exits) == 0 && len(w.Hits) > 0 {
				c.Hold(key, pos, "every path from the reject edge removes the session from the index ("+describeCall(w.Hits[0])+")")
			} else {
				c.Viol(key, pos, "a connection rejected by the hook can leave without removing the session from the index: a hook that called SetID before the rejection leaves a never-established session listed by GetSession/CountSession")
			}
		}
	}
	if n < 4 {
		c.Undec("reject-edge-count", "", fmt.Sprintf("found %d hook reject edges, expected 4", n))
	}
}

// readLoopReadCall finds the call in startReadAndHandle that reads one message: Socket.ReadMessage
// itself or a same-package helper that performs the single ReadMessage. It returns the function
// that directly invokes Socket.ReadMessage and the call instruction inside the loop.
func readLoopReadCall(p *Prog) (reader *ssa.Function, readCall ssa.Instruction) {
	loop := p.Fn(Root, "session", "startReadAndHandle")
	readMsg := p.MethodObj(Root+"/socket", "Socket", "ReadMessage")
	if rs := CallsTo(loop, readMsg); len(rs) == 1 {
		return loop, rs[0]
	}
	n := 0
	for _, call := range AllCalls(loop) {
		if sf := StaticFn(call); sf != nil && sf.Pkg == loop.Pkg && len(CallsTo(sf, readMsg)) == 1 {
			if _, isCall := call.(*ssa.Call); isCall {
				reader, readCall = sf, call
				n++
			}
		}
	}
	if n != 1 {
		return nil, nil
	}
	return
}

// checkCloseLockedDeletes: every successful entry of closeLocked into ActiveClosing (from Ok or from Preparing)
// removes the session from the index.
func checkCloseLockedDeletes(c *Ctx) {
	p := c.P
	del := p.MethodObj(Root, "SessionHub", "delete")
	closeLocked := p.Fn(Root, "session", "closeLocked")
	try := p.MethodObj(Root, "session", "tryChangeStatus")
	n := 0
	for _, e := range CondCallEdges(closeLocked, try) {
		n++
		w := &Walk{P: p, Stop: func(i ssa.Instruction) bool { return IsCallTo(i, del) }}
		w.FromBlock(e.True)
		c.fact("must-pass")
		c.Check(len(w.Exits) == 0 && len(w.Hits) > 0, "closeLocked deletes from index", p.InstrPos(e.If), "sessHub.delete on every path past the CAS",
			"closeLocked can finish without removing the session from the index: a session closed while still preparing (rejected by a hook that had already called SetID) stays listed for ever")
	}
	if n == 0 {
		c.Undec("closeLocked CAS", p.Pos(closeLocked.Pos()), "no tryChangeStatus test found in closeLocked")
	}
}
