package main

import (
	"fmt"
	"go/token"
	"go/types"
	"strings"

	"golang.org/x/tools/go/ssa"
)

// Rules about wire protocols and transfer filters: C05, C06, C12.

func init() {
	// ---- C12
	register(&Rule{ID: "C12.1", Prop: "C12", Min: 2,
		Text: "a pipe is applied in opposite directions: XferPipe.OnPack walks the filter list from the last index down to 0, OnUnpack from 0 upwards; each applies the matching filter method and stops on the first error",
		Run:  runC12_1})
	register(&Rule{ID: "C12.2", Prop: "C12", Min: 6,
		Text: "a pipe naming an unregistered filter is refused: XferPipe.Append returns the registry's error, and on every receive path (functions reachable from a Proto.Unpack) the error of Append is checked, unless the id provably comes from an error-checked registry lookup in the same function",
		Run:  runC12_2})
	register(&Rule{ID: "C12.3", Prop: "C12", Min: 1,
		Text: "a reply is sent through the caller's pipe: in handleCall output.XferPipe().AppendFrom(input.XferPipe()) dominates every writeReply and every handler / plugin stage (the sources of the panics the deferred reply answers)",
		Run:  runC12_3})
	register(&Rule{ID: "C12.7", Prop: "C12", Min: 1,
		Text: "the inherited pipe stays on the reply: between copying the caller's pipe to the reply and writing it, the reply message's pipe is never reset (neither output.XferPipe().Reset() nor output.Reset() in handleCall, its deferred closure or writeReply) - error replies go through the caller's pipe too",
		Run:  runC12_7})
	register(&Rule{ID: "C12.4", Prop: "C12", Min: 2,
		Text: "integrity filter: md5Hash.OnUnpack returns data with a nil error only on the true edge of bytes.Equal(digest(payload), trailing 16 bytes); input shorter than a digest is an error",
		Run:  runC12_4})
	register(&Rule{ID: "C12.8", Prop: "C12", Min: 1,
		Text: "the pipe section is measured without wrapping (same obligations as C06.8): narrow-integer arithmetic on receive paths stays within its type - a pipe of the documented maximum length (255) must not make the frame arithmetic wrap",
		Run:  runNarrowArith})
	register(&Rule{ID: "C12.5", Prop: "C12", Min: 8,
		Text: "the receiver learns the pipe from the frame itself: every shipped protocol writes Message.XferPipe in Pack and rebuilds it in Unpack (shared with C05.1)",
		Run:  func(c *Ctx) { runProtoCoverage(c, []string{"XferPipe"}) }})
	// ---- C05
	register(&Rule{ID: "C05.1", Prop: "C05", Min: 100,
		Text: "field coverage: every shipped Proto implementation reads {Seq, Mtype, ServiceMethod, Status, Meta, BodyCodec, MarshalBody, XferPipe, SetSize} in Pack and sets {SetSeq, SetMtype, SetServiceMethod, Status(true), Meta, SetBodyCodec, UnmarshalBody, XferPipe, SetSize} in Unpack (writer's and reader's tables agree), minus frozen reasoned exemptions",
		Run:  func(c *Ctx) { runProtoCoverage(c, nil) }})
	register(&Rule{ID: "C05.2", Prop: "C05", Min: 4,
		Text: "the size reported for a message depends on that message alone: in the thrift protocols the counter zeroed at the start of (un)pack is the counter of the same direction whose value is passed to SetSize",
		Run:  runC05_2})
	register(&Rule{ID: "C05.3", Prop: "C05", Min: 5,
		Text: "one connection write per frame: each buffered protocol's Pack writes to the connection exactly once, outside any loop",
		Run:  runC05_3})
	register(&Rule{ID: "C05.5", Prop: "C05", Min: 6,
		Text: "frame sync under arbitrary chunking: every read from the connection on a receive path is a full read (io.ReadFull / binary.Read / ioutil.ReadAll / a library reader) - never a bare Read whose short count is ignored",
		Run:  runC05_5})
	register(&Rule{ID: "C05.6", Prop: "C05", Min: 3,
		Text: "decoded header fields do not alias the pooled read buffer: nothing derived without copying from a ByteBuffer's bytes is installed as the message's service method or body (a later frame read into the same buffer would rewrite an earlier message)",
		Run:  runC05_6})
	register(&Rule{ID: "C05.7", Prop: "C05", Min: 2,
		Text: "a frame's filter pipe is undone in the reverse of the order it was applied (same obligations as C12.1): XferPipe.OnPack walks the list downwards, OnUnpack upwards - with the same direction every pipe of two different filters fails to round-trip",
		Run:  runC12_1})
	// ---- C06
	register(&Rule{ID: "C06.8", Prop: "C06", Min: 1,
		Text: "no wrapping length arithmetic on receive paths: every +, - or * computed in an integer type narrower than 64 bits inside a protocol's receive functions stays within that type for all operand values allowed by their types and the dominating comparisons (interval analysis) - `1 + xferLen` in a byte is 0 for 255",
		Run:  runNarrowArith})
	register(&Rule{ID: "C06.7", Prop: "C06", Min: 5,
		Text: "the limit is applied to at least what is allocated: for every wire-sized receive buffer, allocated size <= the quantity the dominating error-checked SetSize examined, proved symbolically (linear forms over SSA atoms, intervals refined by dominating comparisons); arithmetic or a conversion that may wrap in its type on the way to the check breaks the proof (a length of 0xFFFFFFFF+4 passes any limit)",
		Run:  runC06_7})
	register(&Rule{ID: "C06.1", Prop: "C06", Min: 5,
		Text: "limit before allocation: on every receive path a buffer is sized from a wire quantity (ByteBuffer.ChangeLen / make with a non-constant length) only after an error-checked Message.SetSize (the per-message read limit) on that frame",
		Run:  runC06_1})
	register(&Rule{ID: "C06.2", Prop: "C06", Min: 8,
		Text: "the read limit is honoured: on every receive path the error returned by Message.SetSize is checked",
		Run:  runC06_2})
	register(&Rule{ID: "C06.3", Prop: "C06", Min: 1,
		Text: "no unbounded accumulation: a loop on a receive path that both reads from the connection and grows a buffer contains a size test that leaves the loop with an error",
		Run:  runC06_3})
	register(&Rule{ID: "C06.4", Prop: "C06", Min: 12,
		Text: "panic barriers: the reader goroutine, the handler goroutines and the public send/receive entry points each have a function-level deferred recover(), so a decoder or handler panic cannot crash the process",
		Run:  runC06_4})
	register(&Rule{ID: "C06.5", Prop: "C06", Min: 2,
		Text: "raw protocol length arithmetic: both results of minus() are used and its error is checked at every call site (a frame announcing less than its own header is rejected)",
		Run:  runC06_5})
}

// ---------------------------------------------------------------- shared helpers

// errChecked: is the error produced by call (its single result, or tuple element idx) compared with nil?
func errChecked(call ssa.CallInstruction, idx int) bool {
	v, ok := call.(ssa.Value)
	if !ok {
		return false // go / defer: result dropped
	}
	var errVals []ssa.Value
	if tup, isTup := v.Type().(*types.Tuple); isTup && tup.Len() > 1 {
		if refs := v.Referrers(); refs != nil {
			for _, r := range *refs {
				if ex, isEx := r.(*ssa.Extract); isEx && ex.Index == idx {
					errVals = append(errVals, ex)
				}
			}
		}
	} else {
		errVals = append(errVals, v)
	}
	seen := map[ssa.Value]bool{}
	var used func(x ssa.Value) bool
	used = func(x ssa.Value) bool {
		if seen[x] {
			return false
		}
		seen[x] = true
		refs := x.Referrers()
		if refs == nil {
			return false
		}
		for _, r := range *refs {
			switch y := r.(type) {
			case *ssa.BinOp:
				if (y.Op == token.EQL || y.Op == token.NEQ) && (IsNilConst(y.X) || IsNilConst(y.Y)) {
					return true
				}
			case *ssa.Return:
				return true // returned to the caller
			case *ssa.Phi:
				if used(y) {
					return true
				}
			case *ssa.Store:
				// stored into an error cell that is later loaded and tested/returned
				if al, isAl := y.Addr.(*ssa.Alloc); isAl && al.Referrers() != nil {
					for _, rr := range *al.Referrers() {
						if ld, isLd := rr.(*ssa.UnOp); isLd && ld.Op == token.MUL && used(ld) {
							return true
						}
					}
				}
			case *ssa.MakeInterface, *ssa.ChangeInterface:
				if used(y.(ssa.Value)) {
					return true
				}
			}
		}
		return false
	}
	for _, ev := range errVals {
		if used(ev) {
			return true
		}
	}
	return false
}

// recvReach: functions of the same package reachable through static calls from a protocol's Unpack.
func recvReach(p *Prog, fn *ssa.Function) []*ssa.Function {
	seen := map[*ssa.Function]bool{}
	var out []*ssa.Function
	var rec func(f *ssa.Function, d int)
	rec = func(f *ssa.Function, d int) {
		if f == nil || seen[f] || f.Blocks == nil || d > 4 {
			return
		}
		seen[f] = true
		for _, g := range WithAnon(f) {
			out = append(out, g)
			for _, call := range AllCalls(g) {
				if sf := StaticFn(call); sf != nil && sf.Pkg == fn.Pkg {
					rec(sf, d+1)
				}
			}
		}
	}
	rec(fn, 0)
	return out
}

// ---------------------------------------------------------------- C12

func runC12_1(c *Ctx) {
	p := c.P
	xfer := Root + "/xfer"
	for _, s := range []struct {
		fn, method string
		desc       bool
	}{{"OnPack", "OnPack", true}, {"OnUnpack", "OnUnpack", false}} {
		fn := p.Fn(xfer, "XferPipe", s.fn)
		m := p.MethodObj(xfer, "XferFilter", s.method)
		calls := CallsTo(fn, m)
		key := "XferPipe." + s.fn + " direction"
		if len(calls) != 1 {
			c.Viol(key, p.Pos(fn.Pos()), fmt.Sprintf("expected one call of XferFilter.%s in the loop, found %d", s.method, len(calls)))
			continue
		}
		// receiver: load of IndexAddr(filters, idx)
		var idx ssa.Value
		if u, ok := calls[0].Common().Value.(*ssa.UnOp); ok {
			if ia, ok := u.X.(*ssa.IndexAddr); ok {
				if fr, _, ok := LoadedField(ia.X); ok && fr.String() == "XferPipe.filters" {
					idx = ia.Index
				}
			}
		}
		dir := loopDirection(idx)
		want := "ascending"
		if s.desc {
			want = "descending"
		}
		// error stops: the call's error is checked and returned
		c.fact("loop-shape")
		c.Check(dir == want && errChecked(calls[0], 1), key, p.InstrPos(calls[0]), want+" over x.filters; first error returned",
			fmt.Sprintf("XferPipe.%s iterates %s (expected %s) or ignores a filter error: packing and unpacking no longer invert each other for pipes of two or more filters", s.fn, dir, want))
	}
}

// loopDirection classifies an index value: "ascending" (phi(0, phi+1) or range pattern), "descending" (phi(x-1, phi-1)), or "?".
func loopDirection(idx ssa.Value) string {
	if idx == nil {
		return "?"
	}
	if ascendingIndex(idx) {
		return "ascending"
	}
	phi, ok := idx.(*ssa.Phi)
	if !ok {
		return "?"
	}
	step := int64(0)
	for _, e := range phi.Edges {
		if bo, ok := e.(*ssa.BinOp); ok && bo.X == ssa.Value(phi) {
			if k, okc := ConstIntOf(bo.Y); okc && k == 1 {
				if bo.Op == token.SUB {
					step = -1
				} else if bo.Op == token.ADD {
					step = 1
				}
			}
		}
	}
	switch step {
	case -1:
		// initial value must be len-1
		for _, e := range phi.Edges {
			if bo, ok := e.(*ssa.BinOp); ok && bo.X != ssa.Value(phi) && bo.Op == token.SUB {
				if k, okc := ConstIntOf(bo.Y); okc && k == 1 {
					return "descending"
				}
			}
		}
		return "descending-from-unknown"
	case 1:
		return "ascending"
	}
	return "?"
}

func runC12_2(c *Ctx) {
	p := c.P
	xfer := Root + "/xfer"
	appendM := p.MethodObj(xfer, "XferPipe", "Append")
	get := p.FuncObj(xfer, "Get")
	getByName := p.FuncObj(xfer, "GetByName")
	// (a) Append returns Get's error
	ap := p.Fn(xfer, "XferPipe", "Append")
	okA := false
	for _, call := range CallsTo(ap, get) {
		if errChecked(call, 1) {
			for _, e := range NilCmpEdges(ap, func(v ssa.Value) bool {
				ex, ok := v.(*ssa.Extract)
				return ok && ex.Tuple == call.(ssa.Value) && ex.Index == 1
			}) {
				w := &Walk{P: p}
				w.FromBlock(e.NonNil)
				for _, r := range w.Exits {
					if ex, ok := ReturnVals(r.(*ssa.Return))[0].(*ssa.Extract); ok && ex.Tuple == call.(ssa.Value) {
						okA = true
					}
				}
			}
		}
	}
	c.fact("error-flow")
	c.Check(okA, "XferPipe.Append refuses unregistered ids", p.Pos(ap.Pos()), "returns the registry's error", "XferPipe.Append does not return the registry lookup error: unregistered filter ids are silently accepted")
	// (b) receive paths
	n := 0
	for _, im := range protoImpls(p) {
		if im.unpack == nil {
			continue
		}
		for _, fn := range recvReach(p, im.unpack) {
			for _, call := range CallsTo(fn, appendM) {
				n++
				key := "Append on receive path " + FnName(fn)
				if errChecked(call, 0) {
					c.Hold(key, p.InstrPos(call), "error checked")
					continue
				}
				// id from an error-checked registry lookup in the same function
				fromReg := false
				if vals, ok := variadicVals(CallArgs(call)[0]); ok && len(vals) == 1 {
					if idCall, ok := vals[0].(*ssa.Call); ok && CalleeObj(idCall) != nil && CalleeObj(idCall).Name() == "ID" {
						if ex, ok := idCall.Call.Value.(*ssa.Extract); ok {
							if lk, ok := ex.Tuple.(*ssa.Call); ok && (CalleeObj(lk) == getByName || CalleeObj(lk) == get) && errChecked(lk, 1) {
								fromReg = true
							}
						}
					}
				}
				c.Check(fromReg, key, p.InstrPos(call), "id comes from an error-checked registry lookup", "the error of XferPipe.Append is dropped on a receive path: a frame naming an unregistered transfer filter is accepted and its body passed on unfiltered")
			}
		}
	}
	if n < 5 {
		c.Undec("Append call sites on receive paths", "", fmt.Sprintf("found %d, expected >= 5", n))
	}
}

func runC12_3(c *Ctx) {
	p := c.P
	fn := p.Fn(Root, "handlerCtx", "handleCall")
	appendFrom := p.MethodObj(Root+"/xfer", "XferPipe", "AppendFrom")
	xp := p.MethodObj(Root+"/socket", "Message", "XferPipe")
	hcN, inIdx := p.FieldIndex(Root, "handlerCtx", "input")
	_, outIdx := p.FieldIndex(Root, "handlerCtx", "output")
	var inherit ssa.Instruction
	for _, call := range CallsTo(fn, appendFrom) {
		dst, ok1 := call.Common().Args[0].(*ssa.Call)
		src, ok2 := call.Common().Args[1].(*ssa.Call)
		if ok1 && ok2 && CalleeObj(dst) == xp && CalleeObj(src) == xp && isFieldLoad(dst.Call.Value, hcN, outIdx) && isFieldLoad(src.Call.Value, hcN, inIdx) {
			inherit = call
		}
	}
	if inherit == nil {
		c.Viol("reply inherits the request's pipe", p.Pos(fn.Pos()), "handleCall never copies the request's transfer pipe to the reply: replies go out unfiltered (e.g. uncompressed / without integrity digest) although the caller asked for a pipe")
		return
	}
	ok := true
	bad := ""
	for _, call := range AllCalls(fn) {
		if _, isDefer := call.(*ssa.Defer); isDefer {
			continue
		}
		o := CalleeObj(call)
		isStage := o != nil && stageFuncs[o.Name()] != ""
		isWR := o != nil && o.Name() == "writeReply"
		isHandler := false
		for _, h := range handlerCalls(p, fn) {
			if h == call {
				isHandler = true
			}
		}
		if (isStage || isWR || isHandler) && !Dominates(inherit, call) {
			ok = false
			bad = p.InstrPos(call)
		}
	}
	c.fact("dominance")
	c.Check(ok, "reply inherits the request's pipe", p.InstrPos(inherit), "output.XferPipe().AppendFrom(input.XferPipe()) dominates handler, stages and every writeReply", "a reply (or the recovered-panic reply) can be written before the request's transfer pipe was copied to it (first at "+bad+")")
}

func runC12_4(c *Ctx) {
	p := c.P
	fn := p.Fn(Root+"/xfer/md5", "md5Hash", "OnUnpack")
	bytesEqual := p.FuncObj("bytes", "Equal")
	okVerify, okShort := false, false
	nNilRet := 0
	Instrs(fn, func(i ssa.Instruction) {
		ret, ok := i.(*ssa.Return)
		if !ok {
			return
		}
		rv := ReturnVals(ret)
		if !IsNilConst(rv[1]) {
			return
		}
		nNilRet++
		for _, e := range CondCallEdges(fn, bytesEqual) {
			if BlockDominatesInstr(e.True, ret) {
				okVerify = true
			}
		}
	})
	// too short: a length comparison whose true edge returns a non-nil error
	for _, b := range fn.Blocks {
		ifi, ok := b.Instrs[len(b.Instrs)-1].(*ssa.If)
		if !ok {
			continue
		}
		bo, ok := ifi.Cond.(*ssa.BinOp)
		if !ok || (bo.Op != token.LSS && bo.Op != token.LEQ) {
			continue
		}
		if k, okc := ConstIntOf(bo.Y); okc && k == 16 {
			w := &Walk{P: p}
			w.FromBlock(b.Succs[0])
			for _, r := range w.Exits {
				if !IsNilConst(ReturnVals(r.(*ssa.Return))[1]) {
					okShort = true
				}
			}
		}
	}
	c.fact("dominance")
	c.Check(okVerify && nNilRet == 1, "md5 verify guards the data", p.Pos(fn.Pos()), "the only nil-error return is on the true edge of bytes.Equal", "md5Hash.OnUnpack can return the payload with a nil error without (or regardless of) the digest comparison: altered payloads are accepted")
	c.Check(okShort, "md5 rejects input shorter than a digest", p.Pos(fn.Pos()), "len < 16 => error", "md5Hash.OnUnpack does not reject inputs shorter than a digest (slice bounds panic or acceptance)")
}

// ---------------------------------------------------------------- C05

func runC05_2(c *Ctx) {
	p := c.P
	tp := Root + "/proto/thriftproto"
	setSize := p.MethodObj(Root+"/socket", "Message", "SetSize")
	for _, s := range []struct {
		typ, fn string
		read    bool
	}{{"tBinaryProto", "binaryPack", false}, {"tBinaryProto", "binaryUnpack", true}, {"tStructProto", "structPack", false}, {"tStructProto", "structUnpack", true}} {
		fn := p.Fn(tp, s.typ, s.fn)
		var zeroed, measured []string
		var zeroCall, firstIO ssa.Instruction
		for _, call := range AllCalls(fn) {
			o := CalleeObj(call)
			if o == nil || o.Pkg() == nil || o.Pkg().Path() != Root+"/utils" {
				continue
			}
			recvT := ""
			if sig, ok := o.Type().(*types.Signature); ok && sig.Recv() != nil {
				if n := derefNamed(sig.Recv().Type()); n != nil {
					recvT = n.Obj().Name()
				}
			}
			switch o.Name() {
			case "Zero":
				zeroed = append(zeroed, recvT)
				zeroCall = call
			case "Readed", "Writed":
				measured = append(measured, recvT)
			}
		}
		_ = firstIO
		want := "WriteCounter"
		if s.read {
			want = "ReadCounter"
		}
		ok := len(zeroed) == 1 && zeroed[0] == want && len(measured) == 1 && measured[0] == want
		// the measured value is what SetSize receives, and the zeroing dominates it
		if ok {
			for _, ss := range CallsTo(fn, setSize) {
				if zeroCall == nil || !Dominates(zeroCall, ss) {
					ok = false
				}
			}
		}
		c.fact("sibling-shape")
		c.Check(ok, s.typ+"."+s.fn+" counts its own direction", p.Pos(fn.Pos()), "zeroes and measures the "+want,
			fmt.Sprintf("%s zeroes %v but measures %v (expected both %s): the size reported for a received message grows with all earlier traffic, and the unpack side writes the counter the pack side owns (data race)", s.fn, zeroed, measured, want))
	}
}

// connWriterField: fields of a protocol struct through which it writes to the connection.
func isConnField(fr FieldRef) bool {
	st := fr.Struct.Underlying().(*types.Struct)
	n := st.Field(fr.Index).Name()
	return n == "rw" || n == "w" || n == "r"
}

func runC05_3(c *Ctx) {
	p := c.P
	n := 0
	for _, im := range protoImpls(p) {
		if im.pack == nil || strings.Contains(im.name, "thriftproto") || strings.HasSuffix(im.name, "wsProto") {
			continue
		}
		var writes []ssa.CallInstruction
		for _, fn := range recvReach(p, im.pack) {
			for _, call := range AllCalls(fn) {
				o := CalleeObj(call)
				if o == nil || o.Name() != "Write" || !call.Common().IsInvoke() {
					continue
				}
				if fr, _, ok := LoadedField(call.Common().Value); ok && isConnField(fr) && fr.Struct.Obj().Pkg() == im.pack.Pkg.Pkg {
					writes = append(writes, call)
				}
			}
		}
		n++
		key := "proto " + im.name + " single write"
		ok := len(writes) == 1
		if ok {
			w := writes[0]
			// not in a loop
			if len(p.ReachableFrom(w, func(i ssa.Instruction) bool { return i == w.(ssa.Instruction) }, nil, nil)) > 0 {
				ok = false
			}
		}
		pos := p.Pos(im.pack.Pos())
		if len(writes) > 0 {
			pos = p.InstrPos(writes[0])
		}
		c.fact("call-count+path-search")
		c.Check(ok, key, pos, "exactly one Write to the connection, not in a loop", fmt.Sprintf("%s.Pack writes to the connection %d times (or in a loop): without a single write per frame concurrent writers / partial failures interleave or truncate frames", im.name, len(writes)))
	}
	if n < 5 {
		c.Undec("buffered protocols", "", fmt.Sprintf("found %d, expected >= 5", n))
	}
}

func runC05_5(c *Ctx) {
	p := c.P
	n := 0
	for _, im := range protoImpls(p) {
		if im.unpack == nil {
			continue
		}
		for _, fn := range recvReach(p, im.unpack) {
			for _, call := range AllCalls(fn) {
				o := CalleeObj(call)
				if o == nil {
					continue
				}
				// reads whose source is a connection field of the protocol
				var src ssa.Value
				full := false
				switch o.FullName() {
				case "io.ReadFull", "io.ReadAtLeast", "io/ioutil.ReadAll", "io.ReadAll":
					src = stripIface(call.Common().Args[0])
					full = true
				case "encoding/binary.Read":
					src = stripIface(call.Common().Args[0])
					full = true
				default:
					if call.Common().IsInvoke() && o.Name() == "Read" {
						src = call.Common().Value
					}
				}
				if src == nil {
					continue
				}
				fr, _, ok := LoadedField(src)
				if !ok || !isConnField(fr) || fr.Struct.Obj().Pkg() != im.unpack.Pkg.Pkg {
					continue
				}
				n++
				key := "connection read in " + FnName(fn)
				c.Check(full, key, p.InstrPos(call), o.FullName(), "a bare Read on the connection whose short count is not handled: when the stream is delivered in small chunks fewer bytes than announced are consumed and this and all later frames are mis-framed")
			}
		}
	}
	c.fact("call-classification")
	if n < 6 {
		c.Undec("connection reads", "", fmt.Sprintf("found %d connection reads on receive paths, expected >= 6", n))
	}
}

func runC05_6(c *Ctx) {
	p := c.P
	var fns []*ssa.Function
	seen := map[*ssa.Function]bool{}
	for _, im := range protoImpls(p) {
		if im.unpack == nil {
			continue
		}
		for _, fn := range recvReach(p, im.unpack) {
			if !seen[fn] {
				seen[fn] = true
				fns = append(fns, fn)
			}
		}
	}
	fl := NewFlowOpt(p, fns, bufTrack, bufExtAlias, true)
	bbN, bIdx := p.FieldIndex(Root+"/utils", "ByteBuffer", "B")
	pred := fl.Reach([]interface{}{fieldNode{bbN, bIdx}})
	c.fact("value-flow-graph")
	setSM := p.MethodObj(Root+"/socket", "Header", "SetServiceMethod")
	setBody := p.MethodObj(Root+"/socket", "Body", "SetBody")
	n := 0
	for _, fn := range fns {
		for _, call := range AllCalls(fn) {
			if !IsCallTo(call, setSM, setBody) {
				continue
			}
			n++
			arg := call.Common().Args[0]
			key := CalleeObj(call).Name() + " in " + FnName(fn)
			if _, tainted := pred[arg]; tainted {
				c.Viol(key, p.InstrPos(call), "the value installed on the message still points into the pooled read buffer (zero-copy view of ByteBuffer.B): when a later frame is read into the same buffer the earlier message's field silently changes", fl.PathTo(pred, arg)...)
			} else {
				c.Hold(key, p.InstrPos(call), "a copy (or not buffer-derived)")
			}
		}
	}
	if n < 3 {
		c.Undec("header setters on receive paths", "", fmt.Sprintf("found %d, expected >= 3", n))
	}
}

// ---------------------------------------------------------------- C06

func runC06_1(c *Ctx) {
	p := c.P
	setSize := p.MethodObj(Root+"/socket", "Message", "SetSize")
	changeLen := p.MethodObj(Root+"/utils", "ByteBuffer", "ChangeLen")
	n := 0
	for _, im := range protoImpls(p) {
		if im.unpack == nil {
			continue
		}
		fns := recvReach(p, im.unpack)
		for _, fn := range fns {
			Instrs(fn, func(i ssa.Instruction) {
				var size ssa.Value
				what := ""
				switch x := i.(type) {
				case *ssa.Call:
					if CalleeObj(x) == changeLen {
						size = CallArgs(x)[0]
						what = "ByteBuffer.ChangeLen"
					}
				case *ssa.MakeSlice:
					if b, ok := x.Type().Underlying().(*types.Slice); ok {
						if bt, ok := b.Elem().Underlying().(*types.Basic); ok && bt.Kind() == types.Uint8 {
							size = x.Len
							what = "make([]byte, n)"
						}
					}
				}
				if size == nil {
					return
				}
				if _, isConst := ConstIntOf(size); isConst {
					return
				}
				n++
				key := what + " in " + FnName(fn)
				// dominated by the nil edge of an error-checked SetSize in this function ...
				ok := false
				for _, ss := range CallsTo(fn, setSize) {
					for _, e := range NilCmpEdges(fn, func(v ssa.Value) bool { return sameViaCell(v, ss.(ssa.Value)) || v == ss.(ssa.Value) }) {
						if BlockDominatesInstr(e.Nil, i) {
							ok = true
						}
					}
				}
				// ... or in every caller on the path from Unpack (one level): the call to fn is dominated by it
				if !ok {
					callers := 0
					all := true
					for _, g := range fns {
						for _, call := range AllCalls(g) {
							if StaticFn(call) != fn {
								continue
							}
							callers++
							dom := false
							for _, ss := range CallsTo(g, setSize) {
								for _, e := range NilCmpEdges(g, func(v ssa.Value) bool { return sameViaCell(v, ss.(ssa.Value)) || v == ss.(ssa.Value) }) {
									if BlockDominatesInstr(e.Nil, call) {
										dom = true
									}
								}
							}
							if !dom {
								all = false
							}
						}
					}
					ok = callers > 0 && all
				}
				c.fact("dominance")
				c.Check(ok, key, p.InstrPos(i), "after an error-checked SetSize on this frame", "a receive buffer is sized from a length announced on the wire before (or without) the per-message read limit being applied: a frame announcing a huge size makes the receiver allocate it before any check")
			})
		}
	}
	if n < 5 {
		c.Undec("wire-sized allocations", "", fmt.Sprintf("found %d, expected >= 5", n))
	}
}

func runC06_2(c *Ctx) {
	p := c.P
	setSize := p.MethodObj(Root+"/socket", "Message", "SetSize")
	n := 0
	for _, im := range protoImpls(p) {
		if im.unpack == nil {
			continue
		}
		for _, fn := range recvReach(p, im.unpack) {
			for _, call := range CallsTo(fn, setSize) {
				n++
				c.fact("error-use")
				c.Check(errChecked(call, 0), "SetSize on receive path "+FnName(fn), p.InstrPos(call), "error checked", "the error of Message.SetSize is dropped on a receive path: a message larger than the configured read limit is accepted")
			}
		}
	}
	if n < 8 {
		c.Undec("SetSize sites on receive paths", "", fmt.Sprintf("found %d, expected >= 8", n))
	}
}

func runC06_3(c *Ctx) {
	p := c.P
	n := 0
	for _, im := range protoImpls(p) {
		if im.unpack == nil {
			continue
		}
		for _, fn := range recvReach(p, im.unpack) {
			// reads from the connection inside a cycle that also grows a buffer
			for _, call := range AllCalls(fn) {
				o := CalleeObj(call)
				if o == nil || (o.FullName() != "io.ReadFull" && !(call.Common().IsInvoke() && o.Name() == "Read")) {
					continue
				}
				var src ssa.Value
				if o.FullName() == "io.ReadFull" {
					src = stripIface(call.Common().Args[0])
				} else {
					src = call.Common().Value
				}
				if fr, _, ok := LoadedField(src); !ok || !isConnField(fr) {
					continue
				}
				// in a cycle?
				if len(p.ReachableFrom(call, func(i ssa.Instruction) bool { return i == call.(ssa.Instruction) }, nil, nil)) == 0 {
					continue
				}
				// cycle blocks: those reachable from the call that can reach the call
				grows := false
				bounded := false
				for _, b := range fn.Blocks {
					if len(b.Instrs) == 0 {
						continue
					}
					inCycle := len(p.ReachableFromBlock(b, func(i ssa.Instruction) bool { return i == call.(ssa.Instruction) }, nil, nil)) > 0 &&
						len(p.ReachableFrom(call, func(i ssa.Instruction) bool { return i == b.Instrs[0] }, nil, nil)) > 0
					if !inCycle && b != call.Block() {
						continue
					}
					for _, in := range b.Instrs {
						if cc, ok := in.(*ssa.Call); ok {
							if o2 := CalleeObj(cc); o2 != nil && (o2.FullName() == "(*"+Root+"/utils.ByteBuffer).Write" || o2.FullName() == "(*"+Root+"/utils.ByteBuffer).WriteByte") {
								grows = true
							}
							if bi, ok := cc.Call.Value.(*ssa.Builtin); ok && bi.Name() == "append" {
								grows = true
							}
						}
					}
					if ifi, ok := b.Instrs[len(b.Instrs)-1].(*ssa.If); ok {
						if bo, ok := ifi.Cond.(*ssa.BinOp); ok && (bo.Op == token.GTR || bo.Op == token.GEQ || bo.Op == token.LSS || bo.Op == token.LEQ) {
							// a size comparison: one operand is a length (len() or Len())
							isLen := func(v ssa.Value) bool {
								for {
									if cv, isCv := v.(*ssa.Convert); isCv {
										v = cv.X
									} else if ct, isCt := v.(*ssa.ChangeType); isCt {
										v = ct.X
									} else {
										break
									}
								}
								cc, ok := v.(*ssa.Call)
								if !ok {
									return false
								}
								if bi, ok := cc.Call.Value.(*ssa.Builtin); ok && bi.Name() == "len" {
									return true
								}
								o3 := CalleeObj(cc)
								return o3 != nil && o3.Name() == "Len"
							}
							if isLen(bo.X) || isLen(bo.Y) {
								// one successor leaves the loop with a return
								for _, s := range b.Succs {
									if len(p.ReachableFromBlock(s, func(i ssa.Instruction) bool { return i == call.(ssa.Instruction) }, nil, nil)) == 0 {
										bounded = true
									}
								}
							}
						}
					}
				}
				if !grows {
					continue
				}
				n++
				c.fact("cycle-analysis")
				c.Check(bounded, "accumulating read loop in "+FnName(fn), p.InstrPos(call), "the loop tests the accumulated size and leaves with an error", "a receive loop reads from the connection and grows a buffer without any size test: a peer that never sends the terminator makes the receiver buffer without bound (far beyond the per-message read limit)")
			}
		}
	}
	if n < 1 {
		c.Undec("accumulating read loops", "", "no accumulating read loop found (expected at least httproto.readLine)")
	}
}

func runC06_4(c *Ctx) {
	p := c.P
	want := []struct{ typ, fn string }{
		{"session", "startReadAndHandle"}, {"handlerCtx", "handleCall"}, {"handlerCtx", "handlePush"}, {"handlerCtx", "handleReply"},
		{"session", "Push"}, {"session", "AsyncCall"}, {"session", "PreSend"}, {"session", "PreReceive"}, {"session", "PreCall"}, {"session", "PreReply"}, {"session", "RawPush"},
		{"pluginSingleContainer", "postDial"}, {"pluginSingleContainer", "postAccept"}, {"peer", "Close"},
	}
	for _, w := range want {
		fn := p.Fn(Root, w.typ, w.fn)
		ok := false
		for _, d := range deferredClosures(fn) {
			Instrs(d, func(i ssa.Instruction) {
				if call, isC := i.(*ssa.Call); isC {
					if b, isB := call.Call.Value.(*ssa.Builtin); isB && b.Name() == "recover" {
						ok = true
					}
				}
			})
		}
		// the defer must be registered before anything that can panic matters: it is function-level (entry-dominating block or before first call to user/decoder code)
		c.fact("defer-scan")
		c.Check(ok, "panic barrier in "+w.typ+"."+w.fn, p.Pos(fn.Pos()), "deferred closure calls recover()", w.typ+"."+w.fn+" has no deferred recover(): a panic in a decoder, plugin or handler running under it crashes the whole process (every session of the peer)")
	}
}

func runC06_5(c *Ctx) {
	p := c.P
	minus := p.FuncObj(Root+"/socket", "minus")
	n := 0
	for _, fn := range p.ShippedFuncs() {
		for _, call := range CallsTo(fn, minus) {
			n++
			v := call.(ssa.Value)
			usedVal := false
			if refs := v.Referrers(); refs != nil {
				for _, r := range *refs {
					if ex, ok := r.(*ssa.Extract); ok && ex.Index == 0 && ex.Referrers() != nil && len(*ex.Referrers()) > 0 {
						usedVal = true
					}
				}
			}
			c.fact("error-use")
			c.Check(usedVal && errChecked(call, 1), "minus() in "+FnName(fn), p.InstrPos(call), "difference used; error checked", "the result/error of the frame-length subtraction is ignored: a frame shorter than its own header leads to a negative length (panic or huge allocation)")
		}
	}
	if n < 2 {
		c.Undec("minus call sites", "", fmt.Sprintf("found %d, expected 2", n))
	}
	// minus itself rejects negative results
	mf := p.Fn(Root+"/socket", "", "minus")
	neg := false
	for _, b := range mf.Blocks {
		if ifi, ok := b.Instrs[len(b.Instrs)-1].(*ssa.If); ok {
			if bo, ok := ifi.Cond.(*ssa.BinOp); ok && bo.Op == token.LSS {
				if k, okc := ConstIntOf(bo.Y); okc && k == 0 {
					neg = true
				}
			}
		}
	}
	c.Check(neg, "minus() rejects negative differences", p.Pos(mf.Pos()), "r < 0 => error", "minus() no longer rejects a negative difference")
}

// ---------------------------------------------------------------- pooled buffer escape (C12.6 / C20.4)

func init() {
	text := "no pooled byte buffer escapes its release: a function that returns a ByteBuffer to the pool (directly or by defer) does not return or publish bytes that still live in that buffer (the next user of the pool would overwrite a payload that is still in use)"
	register(&Rule{ID: "C12.6", Prop: "C12", Min: 8, Text: text, Run: runPooledBufferEscape})
	register(&Rule{ID: "C20.4", Prop: "C20", Min: 8, Text: text, Run: runPooledBufferEscape})
}

// derivedFrom computes the values of fn that (without copying) refer to the storage of buffer bb.
func derivedFrom(p *Prog, fn *ssa.Function, bb ssa.Value) map[ssa.Value]bool {
	bbN, bIdx := p.FieldIndex(Root+"/utils", "ByteBuffer", "B")
	d := map[ssa.Value]bool{}
	for changed := true; changed; {
		changed = false
		mark := func(v ssa.Value) {
			if !d[v] {
				d[v] = true
				changed = true
			}
		}
		Instrs(fn, func(i ssa.Instruction) {
			switch x := i.(type) {
			case *ssa.UnOp:
				if x.Op == token.MUL {
					if fa, ok := x.X.(*ssa.FieldAddr); ok && fa.X == bb && derefNamed(fa.X.Type()) == bbN && fa.Field == bIdx {
						mark(x)
					}
				}
			case *ssa.Call:
				if o := CalleeObj(x); o != nil {
					if o.Name() == "Bytes" && len(x.Call.Args) > 0 && x.Call.Args[0] == bb {
						mark(x)
					}
					if idxs, ok := bufExtAlias[o.FullName()]; ok {
						args := x.Call.Args
						for _, ai := range idxs {
							if ai < len(args) && d[args[ai]] {
								mark(x)
							}
						}
					}
				}
			case *ssa.Slice:
				if d[x.X] {
					mark(x)
				}
			case *ssa.Phi:
				for _, e := range x.Edges {
					if d[e] {
						mark(x)
					}
				}
			case *ssa.Extract:
				if d[x.Tuple] && x.Index == 0 {
					mark(x)
				}
			case *ssa.ChangeType:
				if d[x.X] {
					mark(x)
				}
			case *ssa.MakeInterface:
				if d[x.X] {
					mark(x)
				}
			}
		})
	}
	return d
}

func runPooledBufferEscape(c *Ctx) {
	p := c.P
	acquire := p.FuncObj(Root+"/utils", "AcquireByteBuffer")
	poolGet := p.MethodObj(Root+"/utils", "BufferPool", "Get")
	release := p.FuncObj(Root+"/utils", "ReleaseByteBuffer")
	poolPut := p.MethodObj(Root+"/utils", "BufferPool", "Put")
	n := 0
	for _, fn := range p.ShippedFuncs() {
		for _, ac := range AllCalls(fn) {
			if !IsCallTo(ac, acquire, poolGet) {
				continue
			}
			if fn.Pkg != nil && fn.Pkg.Pkg.Path() == Root+"/utils" && (fn.Name() == "AcquireByteBuffer" || fn.Name() == "Get") {
				continue
			}
			bb, ok := ac.(ssa.Value)
			if !ok {
				continue
			}
			var rels []ssa.CallInstruction
			for _, rc := range AllCalls(fn) {
				if IsCallTo(rc, release, poolPut) {
					args := rc.Common().Args
					if len(args) > 0 && args[len(args)-1] == bb {
						rels = append(rels, rc)
					}
				}
			}
			if len(rels) == 0 {
				continue
			}
			n++
			d := derivedFrom(p, fn, bb)
			bad := ""
			check := func(ret *ssa.Return) {
				for _, rv := range ReturnVals(ret) {
					if d[rv] {
						bad = "returned at " + p.InstrPos(ret)
					}
				}
			}
			for _, rc := range rels {
				if _, isDefer := rc.(*ssa.Defer); isDefer {
					Instrs(fn, func(i ssa.Instruction) {
						if ret, ok := i.(*ssa.Return); ok {
							check(ret)
						}
					})
				} else {
					w := &Walk{P: p}
					w.From(rc)
					for _, e := range w.Exits {
						check(e.(*ssa.Return))
					}
				}
			}
			// published into longer-lived storage while a deferred release is pending
			Instrs(fn, func(i ssa.Instruction) {
				st, ok := i.(*ssa.Store)
				if !ok || !d[st.Val] {
					return
				}
				switch a := st.Addr.(type) {
				case *ssa.Alloc:
					return
				case *ssa.FieldAddr:
					if a.X == bb {
						return // bb.B = ... (the buffer's own field)
					}
				case *ssa.IndexAddr:
					if isLocalArray(a.X) {
						return // element of a call's variadic argument array
					}
				}
				hasDefer := false
				for _, rc := range rels {
					if _, isDefer := rc.(*ssa.Defer); isDefer {
						hasDefer = true
					}
				}
				if hasDefer {
					bad = "stored at " + p.InstrPos(i)
				}
			})
			c.fact("local-derivation+path-search")
			c.Check(bad == "", "pooled buffer in "+FnName(fn), p.InstrPos(ac), "nothing derived from the buffer survives its release", "bytes of a pooled ByteBuffer are "+bad+" although the buffer goes back to the pool: the payload (e.g. a packed frame body) is overwritten by the next user of the pool before it is written or decoded")
		}
	}
	if n < 8 {
		c.Undec("pooled buffer users", "", fmt.Sprintf("found %d acquire/release pairs, expected >= 8", n))
	}
}

func runC12_7(c *Ctx) {
	p := c.P
	hcN, outIdx := p.FieldIndex(Root, "handlerCtx", "output")
	xp := p.MethodObj(Root+"/socket", "Message", "XferPipe")
	xpReset := p.MethodObj(Root+"/xfer", "XferPipe", "Reset")
	msgReset := p.MethodObj(Root+"/socket", "Message", "Reset")
	var fns []*ssa.Function
	fns = append(fns, WithAnon(p.Fn(Root, "handlerCtx", "handleCall"))...)
	fns = append(fns, WithAnon(p.Fn(Root, "handlerCtx", "writeReply"))...)
	fns = append(fns, WithAnon(p.Fn(Root, "handlerCtx", "setReplyBodyCodec"))...)
	bad := ""
	for _, fn := range fns {
		for _, call := range AllCalls(fn) {
			switch CalleeObj(call) {
			case xpReset:
				if rc, ok := call.Common().Args[0].(*ssa.Call); ok && CalleeObj(rc) == xp && isFieldLoad(rc.Call.Value, hcN, outIdx) {
					bad = p.InstrPos(call)
				}
			case msgReset:
				if isFieldLoad(call.Common().Value, hcN, outIdx) {
					bad = p.InstrPos(call)
				}
			}
		}
	}
	c.fact("call-scan")
	c.Check(bad == "", "reply keeps the inherited pipe", p.Pos(fns[0].Pos()), "no reset of the reply's pipe on the reply path", "the reply message's transfer pipe is reset at "+bad+" after the caller's pipe was copied to it: (error) replies leave unfiltered - e.g. without the integrity digest the caller asked for, so an altered reply is accepted")
}

func init() {
	register(&Rule{ID: "C06.6", Prop: "C06", Min: 4,
		Text: "a handler goroutine never closes its own session synchronously: code running under the handler wait-group (handle, handleCall/Push/Reply, the binders) reaches session.Close/closeLocked only through a `go` statement - Close waits for that very wait-group, so a synchronous call would wedge the session (reader blocked, socket never closed, disconnect hook never run)",
		Run:  runC06_6})
}

func runC06_6(c *Ctx) {
	p := c.P
	closeLocked := p.Fn(Root, "session", "closeLocked")
	for _, name := range []string{"handle", "handleCall", "handlePush", "handleReply", "binding", "bindCall", "bindPush", "bindReply"} {
		fn := p.Fn(Root, "handlerCtx", name)
		bad := ""
		for _, f := range WithAnon(fn) {
			for _, call := range AllCalls(f) {
				if _, isGo := call.(*ssa.Go); isGo {
					continue
				}
				sf := StaticFn(call)
				if sf == nil || sf.Pkg == nil || sf.Pkg.Pkg.Path() != Root {
					continue
				}
				if sf.Parent() != nil {
					continue // nested closures are visited through WithAnon
				}
				if p.staticReachNoGo(sf, closeLocked, 6, map[*ssa.Function]bool{}) {
					bad = p.InstrPos(call) + " (" + describeCall(call) + ")"
				}
			}
		}
		c.fact("static-reach")
		c.Check(bad == "", "no synchronous Close under the handler wait-group: "+name, p.Pos(fn.Pos()), "closeLocked not reachable without a go statement", "a handler-side function reaches session.closeLocked synchronously at "+bad+": Close() waits for the handler wait-group this goroutine is counted in - the session is never closed, its reader blocks for ever in readDisconnected")
	}
}

// staticReachNoGo is staticReach that does not follow `go` statements.
func (p *Prog) staticReachNoGo(fn, target *ssa.Function, depth int, seen map[*ssa.Function]bool) bool {
	if fn == target {
		return true
	}
	if depth == 0 || seen[fn] || fn.Blocks == nil {
		return false
	}
	seen[fn] = true
	for _, f := range WithAnon(fn) {
		for _, call := range AllCalls(f) {
			if _, isGo := call.(*ssa.Go); isGo {
				continue
			}
			if sf := StaticFn(call); sf != nil && sf.Pkg != nil && p.IsShippedPkg(sf.Pkg.Pkg) && sf.Parent() == nil {
				if p.staticReachNoGo(sf, target, depth-1, seen) {
					return true
				}
			}
		}
	}
	return false
}

// ---------------------------------------------------------------- C06.7

func runC06_7(c *Ctx) {
	p := c.P
	setSize := p.MethodObj(Root+"/socket", "Message", "SetSize")
	sizeM := p.MethodObj(Root+"/socket", "Message", "Size")
	changeLen := p.MethodObj(Root+"/utils", "ByteBuffer", "ChangeLen")
	minusFn := p.FnOpt(Root+"/socket", "", "minus")
	if minusFn != nil && !verifyMinus(minusFn) {
		c.Viol("minus() subtracts only non-negative amounts", p.Pos(minusFn.Pos()), "socket.minus no longer returns a-b only for b >= 0 and a-b >= 0: the raw protocol's remaining-length arithmetic can grow past the checked frame size")
		minusFn = nil
	} else if minusFn != nil {
		c.Hold("minus() subtracts only non-negative amounts", p.Pos(minusFn.Pos()), "returns a-b on the edges b >= 0 and a-b >= 0, a otherwise")
	}
	n := 0
	seenFn := map[*ssa.Function]bool{}
	for _, im := range protoImpls(p) {
		if im.unpack == nil {
			continue
		}
		for _, fn := range recvReach(p, im.unpack) {
			if seenFn[fn] {
				continue
			}
			seenFn[fn] = true
			idx := map[string]int{}
			Instrs(fn, func(i ssa.Instruction) {
				var size ssa.Value
				what := ""
				switch x := i.(type) {
				case *ssa.Call:
					if CalleeObj(x) == changeLen {
						size = CallArgs(x)[0]
						what = "ByteBuffer.ChangeLen"
					}
				case *ssa.MakeSlice:
					if b, ok := x.Type().Underlying().(*types.Slice); ok {
						if bt, ok := b.Elem().Underlying().(*types.Basic); ok && bt.Kind() == types.Uint8 {
							size = x.Len
							what = "make([]byte, n)"
						}
					}
				}
				if size == nil {
					return
				}
				if _, isConst := ConstIntOf(size); isConst {
					return
				}
				key := what + " in " + FnName(fn)
				idx[key]++
				if idx[key] > 1 {
					key = fmt.Sprintf("%s#%d", key, idx[key])
				}
				// the dominating checks in this function
				type chk struct {
					call ssa.CallInstruction
					nil_ *ssa.BasicBlock
				}
				var checks []chk
				for _, ss := range CallsTo(fn, setSize) {
					for _, e := range NilCmpEdges(fn, func(v ssa.Value) bool { return sameViaCell(v, ss.(ssa.Value)) || v == ss.(ssa.Value) }) {
						if BlockDominatesInstr(e.Nil, i) {
							checks = append(checks, chk{ss, e.Nil})
						}
					}
				}
				if len(checks) == 0 {
					return // sized in a helper: C06.1 decides the ordering through the callers; nothing to relate here
				}
				n++
				proved := false
				why := ""
				for _, ck := range checks {
					eng := &linEngine{p: p, fn: fn, at: i.Block(), slack: map[ssa.Value]bool{}, busy: map[ssa.Value]bool{}, minusFn: minusFn}
					eng.SizeKey = ck.call.(ssa.Value)
					eng.sizeOf = func(v ssa.Value) bool {
						call, ok := v.(*ssa.Call)
						return ok && CalleeObj(call) == sizeM && CallRecv(call) == CallRecv(ck.call) && BlockDominatesInstr(ck.nil_, call)
					}
					la := eng.lin(size)
					var le linForm
					if _, usesSize := la.atoms[eng.SizeKey]; usesSize {
						le = eng.atom(eng.SizeKey)
					} else {
						le = eng.lin(CallArgs(ck.call)[0])
					}
					d := le.add(la, -1)
					lo := eng.lower(d)
					if lo >= 0 {
						proved = true
						why = fmt.Sprintf("checked - allocated >= %d (SetSize at %s)", lo, p.InstrPos(ck.call))
						break
					}
					why = fmt.Sprintf("checked - allocated has no non-negative lower bound (SetSize at %s; %d symbolic term(s))", p.InstrPos(ck.call), len(d.atoms))
				}
				c.fact("linear-forms+intervals")
				c.Check(proved, key, p.InstrPos(i), why, "the receive buffer is not provably bounded by the quantity the read limit examined ("+why+"): a crafted length (wrap-around, repeated or negative header value) passes the limit while a larger buffer is allocated")
			})
		}
	}
	if n < 4 {
		c.Undec("wire-sized allocations with a local check", "", fmt.Sprintf("found %d, expected >= 4", n))
	}
}

// ---------------------------------------------------------------- C06.8 / C12.8

func runNarrowArith(c *Ctx) {
	p := c.P
	seen := map[*ssa.Function]bool{}
	nFn, nOps := 0, 0
	for _, im := range protoImpls(p) {
		if im.unpack == nil {
			continue
		}
		for _, fn := range recvReach(p, im.unpack) {
			if seen[fn] {
				continue
			}
			seen[fn] = true
			nFn++
			idx := 0
			Instrs(fn, func(i ssa.Instruction) {
				bo, ok := i.(*ssa.BinOp)
				if !ok || (bo.Op != token.ADD && bo.Op != token.SUB && bo.Op != token.MUL) {
					return
				}
				b, isB := bo.Type().Underlying().(*types.Basic)
				if !isB {
					return
				}
				switch b.Kind() {
				case types.Uint8, types.Uint16, types.Uint32, types.Int8, types.Int16, types.Int32:
				default:
					return
				}
				if _, c1 := bo.X.(*ssa.Const); c1 {
					if _, c2 := bo.Y.(*ssa.Const); c2 {
						return
					}
				}
				nOps++
				idx++
				eng := &linEngine{p: p, fn: fn, at: bo.Block(), slack: map[ssa.Value]bool{}, busy: map[ssa.Value]bool{}}
				a, bb := eng.interval(bo.X), eng.interval(bo.Y)
				var r ival
				switch bo.Op {
				case token.ADD:
					r = ival{satAdd(a.lo, bb.lo), satAdd(a.hi, bb.hi)}
				case token.SUB:
					r = ival{satAdd(a.lo, -bb.hi), satAdd(a.hi, -bb.lo)}
				case token.MUL:
					cands := []int64{satMul(a.lo, bb.lo), satMul(a.lo, bb.hi), satMul(a.hi, bb.lo), satMul(a.hi, bb.hi)}
					r = ival{cands[0], cands[0]}
					for _, x := range cands {
						if x < r.lo {
							r.lo = x
						}
						if x > r.hi {
							r.hi = x
						}
					}
				}
				t := typeIval(bo.Type())
				key := fmt.Sprintf("%s %s #%d in %s", b.Name(), bo.Op, idx, FnName(fn))
				c.fact("intervals")
				c.Check(r.within(t), key, p.InstrPos(bo), fmt.Sprintf("result in [%d,%d] within %s", r.lo, r.hi, b.Name()),
					fmt.Sprintf("%s arithmetic on a receive path can leave its type: operands in [%d,%d] and [%d,%d] give [%d,%d] (type range [%d,%d]) - a boundary value of a wire field wraps the computed length", b.Name(), a.lo, a.hi, bb.lo, bb.hi, r.lo, r.hi, t.lo, t.hi))
			})
		}
	}
	c.Hold("receive functions scanned for narrow arithmetic", "", fmt.Sprintf("%d functions, %d narrow +,-,* operations", nFn, nOps))
	if nFn < 10 {
		c.Undec("receive functions", "", fmt.Sprintf("only %d receive functions found", nFn))
	}
}
