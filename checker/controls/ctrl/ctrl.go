// Package ctrl holds tiny positive / negative examples for the engine primitives of
// tpcheck. Every check run analyses this package first: each engine must fire on the
// `bad` example and stay silent on the `good` one, otherwise the check is broken.
package ctrl

import (
	"errors"
	"sync"
	"sync/atomic"
)

// ---- must-pass-through / dominance ----

type res struct {
	mu   sync.Mutex
	n    int
	open bool
}

func (r *res) release() { r.open = false }

func goodMustPass(r *res, x int) int {
	r.open = true
	if x > 0 {
		r.release()
		return 1
	}
	r.release()
	return 0
}

func badMustPass(r *res, x int) int {
	r.open = true
	if x > 0 {
		return 1 // leaves without release
	}
	r.release()
	return 0
}

// ---- path-sensitive constant tracking ----

const (
	stA int32 = iota
	stB
	stC
)

type mach struct{ st int32 }

func (m *mach) get() int32 { return atomic.LoadInt32(&m.st) }
func (m *mach) sink()      {}

func goodTrack(m *mach) {
	s := m.get()
	switch s {
	case stC:
		return
	case stB:
	default:
	}
	if s == stB {
		return
	}
	m.sink() // reachable only with s == stA
}

func badTrack(m *mach) {
	s := m.get()
	switch s {
	case stC:
		return
	case stB:
	default:
	}
	m.sink() // reachable with s in {stA, stB}
}

// ---- value flow (taint) ----

type stat struct{ code int }

func (s *stat) mutate()    { s.code++ }
func (s *stat) copy() *stat { c := *s; return &c }

var sentinel = &stat{code: 1}

type holder struct{ st *stat }

func goodFlow(h *holder) {
	h.st = sentinel.copy()
	h.st.mutate()
}

type holder2 struct{ st *stat }

func badFlow(h *holder2) {
	h.st = sentinel
	use(h)
}

func use(h *holder2) { h.st.mutate() }

// ---- locksets ----

type guarded struct {
	mu sync.RWMutex
	v  map[string]int
}

func (g *guarded) goodWrite() {
	g.mu.Lock()
	g.v = map[string]int{}
	g.mu.Unlock()
}

func (g *guarded) badWriteUnderRLock() {
	g.mu.RLock()
	if g.v == nil {
		g.v = map[string]int{}
	}
	g.mu.RUnlock()
}

func (g *guarded) badUnlockedRead() int {
	g.mu.Lock()
	g.mu.Unlock()
	return len(g.v)
}

// ---- error use ----

func mayFail() error { return errors.New("x") }

func goodErr() error {
	if err := mayFail(); err != nil {
		return err
	}
	return nil
}

func badErr() {
	mayFail()
}

// ---- atomic consistency ----

type ctr struct{ n int32 }

func (c *ctr) inc()      { atomic.AddInt32(&c.n, 1) }
func (c *ctr) badRead() int32 { return c.n }

// ---- 7. linear forms + intervals (C06.7) and narrow arithmetic (C06.8/C12.8)

func check(n uint32) error { return nil }
func alloc(n int) []byte   { return make([]byte, n) }

// goodBound: the checked quantity is the wire value, the allocation is smaller.
func goodBound(wire uint32) []byte {
	if check(wire) != nil {
		return nil
	}
	n := int(wire)
	if n < 4 {
		return nil
	}
	return alloc(n - 4)
}

// badBound: the check sees wire+4, which wraps for the top four values.
func badBound(wire uint32) []byte {
	if check(wire+4) != nil {
		return nil
	}
	return alloc(int(wire))
}

// narrowWrap: 1 + b in a byte is 0 for 255.
func narrowWrap(b byte) int {
	var s = 1 + b
	return int(s)
}

// narrowOK: the same sum in int.
func narrowOK(b byte) int {
	return 1 + int(b)
}
