module ctrl

go 1.23
