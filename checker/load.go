package main

import (
	"fmt"
	"go/token"
	"go/types"
	"os"
	"sort"
	"strings"

	"golang.org/x/tools/go/callgraph"
	"golang.org/x/tools/go/callgraph/cha"
	"golang.org/x/tools/go/callgraph/vta"
	"golang.org/x/tools/go/packages"
	"golang.org/x/tools/go/ssa"
	"golang.org/x/tools/go/ssa/ssautil"
)

// Root is the module path of the analysed repository.
const Root = "github.com/henrylee2cn/erpc/v6"

// toleratedErrPkg lists packages that do not type-check on the pinned tree (several
// `main` per directory); they are examples/benchmarks, not shipped framework code.
func toleratedErrPkg(path string) bool {
	rel := strings.TrimPrefix(path, Root)
	return strings.HasPrefix(rel, "/examples") || rel == "/socket/example" || rel == "/mixer/evio/bench"
}

// Prog is the loaded, type-checked program in SSA form.
type Prog struct {
	Fset     *token.FileSet
	Pkgs     []*packages.Package
	ByPath   map[string]*packages.Package
	SSA      *ssa.Program
	SSAPkg   map[string]*ssa.Package
	Shipped  []*ssa.Package // module packages that type-check and are not examples
	allFuncs map[*ssa.Function]bool
	shipFns  []*ssa.Function
	cg       *callgraph.Graph
	cgCHA    *callgraph.Graph
	noRet    map[*ssa.Function]bool
	RepoDir  string
}

func loadEnv() []string {
	env := []string{}
	for _, kv := range os.Environ() {
		if strings.HasPrefix(kv, "GOWORK=") || strings.HasPrefix(kv, "GOFLAGS=") || strings.HasPrefix(kv, "GOPROXY=") ||
			strings.HasPrefix(kv, "GOSUMDB=") || strings.HasPrefix(kv, "GOTOOLCHAIN=") || strings.HasPrefix(kv, "GOOS=") || strings.HasPrefix(kv, "GOARCH=") {
			continue
		}
		env = append(env, kv)
	}
	env = append(env, "GOFLAGS=-mod=mod", "GOPROXY=off", "GOSUMDB=off", "GOTOOLCHAIN=local", "GOWORK=off")
	return env
}

// Load loads dir/... with full syntax and builds SSA. overlay may replace file contents
// (used by the variant tier). extraEnv e.g. GOOS=windows.
func Load(dir string, overlay map[string][]byte, extraEnv ...string) (*Prog, error) {
	cfg := &packages.Config{
		Mode:    packages.LoadAllSyntax,
		Dir:     dir,
		Tests:   false,
		Env:     append(loadEnv(), extraEnv...),
		Overlay: overlay,
	}
	pkgs, err := packages.Load(cfg, "./...")
	if err != nil {
		return nil, fmt.Errorf("packages.Load: %v", err)
	}
	if len(pkgs) == 0 {
		return nil, fmt.Errorf("no packages loaded from %s", dir)
	}
	p := &Prog{Pkgs: pkgs, ByPath: map[string]*packages.Package{}, SSAPkg: map[string]*ssa.Package{}, RepoDir: dir}
	var bad []string
	nShipped := 0
	for _, pk := range pkgs {
		p.ByPath[pk.PkgPath] = pk
		if len(pk.Errors) > 0 {
			if toleratedErrPkg(pk.PkgPath) {
				continue
			}
			bad = append(bad, fmt.Sprintf("%s: %v", pk.PkgPath, pk.Errors[0]))
		} else if !toleratedErrPkg(pk.PkgPath) {
			nShipped++
		}
	}
	// errors in dependencies of shipped packages
	packages.Visit(pkgs, nil, func(pk *packages.Package) {
		if _, top := p.ByPath[pk.PkgPath]; top {
			return
		}
		if len(pk.Errors) > 0 {
			bad = append(bad, fmt.Sprintf("dep %s: %v", pk.PkgPath, pk.Errors[0]))
		}
	})
	if len(bad) > 0 {
		sort.Strings(bad)
		return nil, fmt.Errorf("type errors outside tolerated example packages:\n  %s", strings.Join(bad, "\n  "))
	}
	if nShipped < 20 {
		return nil, fmt.Errorf("only %d shipped packages type-check (expected >= 20)", nShipped)
	}
	p.Fset = pkgs[0].Fset
	prog, spkgs := ssautil.AllPackages(pkgs, ssa.InstantiateGenerics)
	prog.Build()
	p.SSA = prog
	for i, sp := range spkgs {
		if sp == nil {
			continue
		}
		pk := pkgs[i]
		p.SSAPkg[pk.PkgPath] = sp
		if len(pk.Errors) == 0 && !toleratedErrPkg(pk.PkgPath) {
			p.Shipped = append(p.Shipped, sp)
		}
	}
	// dependency ssa packages, by path
	for _, sp := range prog.AllPackages() {
		if _, ok := p.SSAPkg[sp.Pkg.Path()]; !ok {
			p.SSAPkg[sp.Pkg.Path()] = sp
		}
	}
	sort.Slice(p.Shipped, func(i, j int) bool { return p.Shipped[i].Pkg.Path() < p.Shipped[j].Pkg.Path() })
	return p, nil
}

// AllFuncs returns every function of the program (incl. anonymous, wrappers).
func (p *Prog) AllFuncs() map[*ssa.Function]bool {
	if p.allFuncs == nil {
		p.allFuncs = ssautil.AllFunctions(p.SSA)
	}
	return p.allFuncs
}

// IsShippedPkg reports whether pkg is a shipped framework package.
func (p *Prog) IsShippedPkg(pkg *types.Package) bool {
	if pkg == nil {
		return false
	}
	path := pkg.Path()
	if path != Root && !strings.HasPrefix(path, Root+"/") {
		return false
	}
	return !toleratedErrPkg(path)
}

// ShippedFuncs returns all source functions (with bodies) of shipped packages,
// including anonymous functions, sorted by name.
func (p *Prog) ShippedFuncs() []*ssa.Function {
	if p.shipFns != nil {
		return p.shipFns
	}
	seen := map[*ssa.Function]bool{}
	var add func(f *ssa.Function)
	add = func(f *ssa.Function) {
		if f == nil || seen[f] || f.Blocks == nil {
			return
		}
		seen[f] = true
		p.shipFns = append(p.shipFns, f)
		for _, a := range f.AnonFuncs {
			add(a)
		}
	}
	for f := range p.AllFuncs() {
		if f.Synthetic != "" && !strings.HasPrefix(f.Synthetic, "package initializer") {
			continue
		}
		if f.Pkg == nil || !p.IsShippedPkg(f.Pkg.Pkg) {
			continue
		}
		add(f)
	}
	sort.Slice(p.shipFns, func(i, j int) bool { return p.shipFns[i].String() < p.shipFns[j].String() })
	return p.shipFns
}

// CG returns the VTA call graph (built on a CHA graph).
func (p *Prog) CG() *callgraph.Graph {
	if p.cg == nil {
		p.cgCHA = cha.CallGraph(p.SSA)
		p.cg = vta.CallGraph(p.AllFuncs(), p.cgCHA)
	}
	return p.cg
}

// CHA returns the class-hierarchy call graph.
func (p *Prog) CHA() *callgraph.Graph {
	p.CG()
	return p.cgCHA
}

// Pos renders a position relative to the repository root.
func (p *Prog) Pos(pos token.Pos) string {
	if !pos.IsValid() {
		return "?"
	}
	ps := p.Fset.Position(pos)
	f := strings.TrimPrefix(ps.Filename, p.RepoDir+"/")
	return fmt.Sprintf("%s:%d", f, ps.Line)
}

// InstrPos gives the best source position for an instruction.
func (p *Prog) InstrPos(i ssa.Instruction) string {
	pos := i.Pos()
	if !pos.IsValid() {
		if v, ok := i.(ssa.Value); ok {
			_ = v
		}
		if c, ok := i.(ssa.CallInstruction); ok {
			pos = c.Common().Pos()
		}
	}
	if !pos.IsValid() && i.Parent() != nil {
		// nearest earlier instruction with a position in the same block
		b := i.Block()
		for k := len(b.Instrs) - 1; k >= 0; k-- {
			if b.Instrs[k] == i {
				for j := k - 1; j >= 0; j-- {
					if b.Instrs[j].Pos().IsValid() {
						return p.Pos(b.Instrs[j].Pos()) + "~"
					}
				}
			}
		}
		return p.Pos(i.Parent().Pos()) + "~"
	}
	return p.Pos(pos)
}
