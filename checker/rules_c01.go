package main

import (
	"fmt"
	"go/types"
	"strings"

	"golang.org/x/tools/go/ssa"
)

func init() {
	register(&Rule{ID: "C01.1", Prop: "C01", Min: 3,
		Text: "sequence numbers are allocated atomically: every access to session.seq is the operand of a sync/atomic call",
		Run:  runC01_1})
	register(&Rule{ID: "C01.2", Prop: "C01", Min: 2,
		Text: "register-before-write with the sent seq: in AsyncCall the pending-call table entry is stored before every write of the frame, its key is the same SSA value that is set as the frame's seq, and that value is the result of the atomic increment of session.seq",
		Run:  runC01_2})
	register(&Rule{ID: "C01.3", Prop: "C01", Min: 3,
		Text: "a reply is bound by the frame's own seq: in bindReply the key of the pending-call lookup is header.Seq() of the function's header parameter, the loaded entry is what becomes c.callCmd, the body is decoded into that entry's result and the reply metadata are copied (never aliased) into an Args acquired for that entry",
		Run:  runC01_3})
	register(&Rule{ID: "C01.4", Prop: "C01", Min: 3,
		Text: "write serialisation: every Socket.WriteMessage in the session layer is executed with session.writeLock held (lock dominates, no unlock before the write); Proto.Pack is invoked only by (*socket).WriteMessage and the websocket wrapper",
		Run:  runC01_4})
	register(&Rule{ID: "C01.5", Prop: "C01", Min: 2,
		Text: "single reader: Socket.ReadMessage is called only by the read loop (and PreReceive in the preparing state, C16.2); Proto.Unpack only by (*socket).ReadMessage and the websocket wrapper; the read loop is started at most once per establishment path (C16.1)",
		Run:  runC01_5})
	register(&Rule{ID: "C01.6", Prop: "C01", Min: 3,
		Text: "context hygiene: after putContext(ctx) no instruction uses that context before a new one is acquired (read loop, dispatched closure, Push); a context is cleaned and re-initialised on every acquire (C20.3)",
		Run:  runC01_6})
	register(&Rule{ID: "C01.7", Prop: "C01", Min: 4,
		Text: "controller exclusivity: each pooled handler closure does pool.Get -> bind ctx -> invoke -> pool.Put in that order with no use of the object after Put, and the pool's New builds a fresh controller (reflect.New inside New) so concurrent invocations never share a controller or its context slot",
		Run:  runC01_7})
	register(&Rule{ID: "C01.8", Prop: "C01", Min: 6,
		Text: "decoded values do not alias the receive buffer: no value derived without copying from the data parameter of a Codec.Unmarshal implementation or of Message.UnmarshalBody (sub-slices, zero-copy string views, url.ParseQuery of such a view) is stored into the destination (reflect Set*/store through the destination pointer/map)",
		Run:  runC01_8})
}

func runC01_1(c *Ctx) {
	p := c.P
	n, seqIdx := p.FieldIndex(Root, "session", "seq")
	cnt := 0
	for _, a := range p.FieldAccesses(n) {
		if a.Field.Index != seqIdx {
			continue
		}
		cnt++
		key := "session.seq " + a.Kind.String() + " in " + FnName(a.Fn)
		c.Check(a.Kind == AccAtomic && a.Via == "AddInt32", key, p.InstrPos(a.Instr), "atomic.AddInt32", "session.seq accessed non-atomically ("+a.Kind.String()+" "+a.Via+"): two concurrent calls can obtain the same sequence number and receive each other's reply")
	}
	c.fact("field-access-set")
	if cnt < 3 {
		c.Undec("session.seq access-count", "", fmt.Sprintf("%d accesses found, expected 3", cnt))
	}
}

// isAtomicAddOnSeq: v = atomic.AddInt32(&s.seq, 1)
func isAtomicAddOnSeq(p *Prog, v ssa.Value) bool {
	call, ok := v.(*ssa.Call)
	if !ok || CalleeObj(call) == nil || CalleeObj(call).FullName() != "sync/atomic.AddInt32" {
		return false
	}
	n, seqIdx := p.FieldIndex(Root, "session", "seq")
	k, okc := ConstIntOf(call.Call.Args[1])
	return isFieldAddr(call.Call.Args[0], n, seqIdx) && okc && k == 1
}

func runC01_2(c *Ctx) {
	p := c.P
	fn := p.Fn(Root, "session", "AsyncCall")
	mapStore := p.MethodObj("github.com/henrylee2cn/goutil", "Map", "Store")
	setSeq := p.MethodObj(Root+"/socket", "Header", "SetSeq")
	write := p.MethodObj(Root, "session", "write")
	var stores []ssa.CallInstruction
	for _, st := range CallsTo(fn, mapStore) {
		// a deferred (or go) Store registers the call only when AsyncCall returns: not a registration before the write
		if _, isCall := st.(*ssa.Call); isCall {
			stores = append(stores, st)
		}
	}
	sets := CallsTo(fn, setSeq)
	writes := CallsTo(fn, write)
	if len(stores) != 1 || len(sets) != 1 || len(writes) == 0 {
		c.Viol("AsyncCall registers the call before writing", p.Pos(fn.Pos()), fmt.Sprintf("expected exactly one immediate callCmdMap.Store, one SetSeq and a write in AsyncCall; found %d/%d/%d: the call is not registered under its seq before the frame can be answered", len(stores), len(sets), len(writes)))
		return
	}
	key := stripIface(stores[0].Common().Args[0])
	seqArg := sets[0].Common().Args[0]
	c.fact("value-identity")
	c.Check(key == seqArg && isAtomicAddOnSeq(p, key), "table key = frame seq = atomic increment", p.InstrPos(stores[0]), "callCmdMap.Store(seq,...) and output.SetSeq(seq) use the single result of atomic.AddInt32(&s.seq,1)",
		"the pending-call table key and the frame's seq are not one and the same freshly allocated number: the reply to this call is delivered to another call (or to nobody)")
	dom := true
	for _, w := range writes {
		if !Dominates(stores[0], w) || !Dominates(sets[0], w) {
			dom = false
		}
	}
	c.fact("dominance")
	c.Check(dom, "registered before written", p.InstrPos(stores[0]), "table Store and SetSeq dominate every session.write", "the frame can be written before the call is registered under its seq: a fast reply finds no pending call and is dropped, the caller hangs")
}

func runC01_3(c *Ctx) {
	p := c.P
	fn := p.Fn(Root, "handlerCtx", "bindReply")
	mapLoad := p.MethodObj("github.com/henrylee2cn/goutil", "Map", "Load")
	seq := p.MethodObj(Root+"/socket", "Header", "Seq")
	setBody := p.MethodObj(Root+"/socket", "Body", "SetBody")
	copyTo := p.MethodObj(Root+"/utils", "Args", "CopyTo")
	meta := p.MethodObj(Root+"/socket", "Header", "Meta")
	hcN, ccIdx := p.FieldIndex(Root, "handlerCtx", "callCmd")
	_, inIdx := p.FieldIndex(Root, "handlerCtx", "input")
	ccN, resIdx := p.FieldIndex(Root, "callCmd", "result")
	_, metaIdx := p.FieldIndex(Root, "callCmd", "inputMeta")
	header := fn.Params[1]
	loads := CallsTo(fn, mapLoad)
	if len(loads) != 1 {
		c.Undec("bindReply lookup", p.Pos(fn.Pos()), fmt.Sprintf("expected one callCmdMap.Load, found %d", len(loads)))
		return
	}
	k := stripIface(loads[0].Common().Args[0])
	kc, ok := k.(*ssa.Call)
	okKey := ok && CalleeObj(kc) == seq && (kc.Call.Value == ssa.Value(header) || Resolve(kc.Call.Value) == ssa.Value(header))
	c.fact("value-identity")
	c.Check(okKey, "lookup key = header.Seq()", p.InstrPos(loads[0]), "the pending call is looked up by the received frame's own seq", "bindReply looks the pending call up by something other than the received header's Seq(): replies are bound to the wrong call")
	// the loaded value is what is stored into c.callCmd
	okBind := false
	Instrs(fn, func(i ssa.Instruction) {
		st, isSt := i.(*ssa.Store)
		if !isSt || !isFieldAddr(st.Addr, hcN, ccIdx) {
			return
		}
		v := stripIface(st.Val)
		if ex, isEx := v.(*ssa.Extract); isEx && ex.Tuple == loads[0].(ssa.Value) && ex.Index == 0 {
			okBind = true
		}
	})
	c.Check(okBind, "c.callCmd = the looked-up entry", p.InstrPos(loads[0]), "the entry loaded for this seq is bound to the context", "the context is bound to a call other than the one looked up by the frame's seq")
	// SetBody(c.callCmd.result) on c.input
	okBody := false
	for _, sb := range CallsTo(fn, setBody) {
		arg := sb.Common().Args[0]
		if isFieldLoad(sb.Common().Value, hcN, inIdx) && isFieldLoad(arg, ccN, resIdx) {
			if _, fa, ok := LoadedField(arg); ok && fa != nil {
				// the base is the bound call: read back from c.callCmd, or the looked-up entry itself
				if isFieldLoad(fa.X, hcN, ccIdx) {
					okBody = true
				} else if ex, isEx := stripIface(fa.X).(*ssa.Extract); isEx && ex.Tuple == loads[0].(ssa.Value) && ex.Index == 0 && okBind {
					okBody = true
				}
			}
		}
	}
	c.Check(okBody, "reply body decoded into the bound call's result", p.Pos(fn.Pos()), "input.SetBody(c.callCmd.result)", "the reply body is not decoded into the result object of the call bound by seq")
	// metadata copied into an Args owned by the call
	okMeta := false
	for _, ct := range CallsTo(fn, copyTo) {
		src := ct.Common().Args[0]
		dst := ct.Common().Args[1]
		sc, isC := src.(*ssa.Call)
		if isC && CalleeObj(sc) == meta && isFieldLoad(sc.Call.Value, hcN, inIdx) && isFieldLoad(dst, ccN, metaIdx) {
			okMeta = true
		}
	}
	// and inputMeta is never assigned input.Meta() directly
	Instrs(fn, func(i ssa.Instruction) {
		st, isSt := i.(*ssa.Store)
		if !isSt || !isFieldAddr(st.Addr, ccN, metaIdx) {
			return
		}
		if sc, isC := st.Val.(*ssa.Call); isC && CalleeObj(sc) == meta {
			okMeta = false
		}
	})
	c.Check(okMeta, "reply metadata copied, not aliased", p.Pos(fn.Pos()), "input.Meta().CopyTo(c.callCmd.inputMeta) into an acquired Args", "the caller's reply metadata alias the pooled input message's metadata: the next message read into that context overwrites what the caller sees")
}

// heldAt: is mutex field (struct n, index idx) locked (Lock dominates, no Unlock on a path between) at instruction at?
func heldAt(p *Prog, fn *ssa.Function, n *types.Named, idx int, at ssa.Instruction) bool {
	return heldAtMode(p, fn, n, idx, at, false)
}

// heldAtMode: with exclusive == true only Lock (not RLock) counts.
func heldAtMode(p *Prog, fn *ssa.Function, n *types.Named, idx int, at ssa.Instruction, exclusive bool) bool {
	var locks, unlocks []ssa.Instruction
	Instrs(fn, func(i ssa.Instruction) {
		call, ok := i.(*ssa.Call)
		if !ok || CalleeObj(call) == nil || len(call.Call.Args) == 0 || !isFieldAddr(call.Call.Args[0], n, idx) {
			return
		}
		switch CalleeObj(call).Name() {
		case "Lock":
			locks = append(locks, i)
		case "RLock":
			if !exclusive {
				locks = append(locks, i)
			}
		case "Unlock", "RUnlock":
			unlocks = append(unlocks, i)
		}
	})
	for _, l := range locks {
		if !Dominates(l, at) {
			continue
		}
		// no unlock between
		bad := false
		for _, u := range unlocks {
			if len(p.ReachableFrom(l, func(i ssa.Instruction) bool { return i == u }, func(i ssa.Instruction) bool { return i == at }, nil)) > 0 &&
				len(p.ReachableFrom(u, func(i ssa.Instruction) bool { return i == at }, nil, nil)) > 0 {
				bad = true
			}
		}
		if !bad {
			return true
		}
	}
	return false
}

func runC01_4(c *Ctx) {
	p := c.P
	writeMsg := p.MethodObj(Root+"/socket", "Socket", "WriteMessage")
	pack := p.MethodObj(Root+"/socket", "Proto", "Pack")
	sessN, wlIdx := p.FieldIndex(Root, "session", "writeLock")
	n := 0
	for _, fn := range p.ShippedFuncs() {
		if fn.Pkg == nil || fn.Pkg.Pkg.Path() != Root {
			continue
		}
		for _, call := range CallsTo(fn, writeMsg) {
			n++
			c.fact("lockset")
			c.Check(heldAt(p, fn, sessN, wlIdx, call), "WriteMessage under writeLock in "+FnName(fn), p.InstrPos(call), "session.writeLock is held",
				"Socket.WriteMessage is executed without holding session.writeLock: two goroutines' frames (or a frame's header and another's body) can interleave on the wire - a caller receives bytes of another message")
		}
	}
	if n < 2 {
		c.Undec("WriteMessage sites", "", fmt.Sprintf("found %d WriteMessage call sites in the session layer, expected >= 2", n))
	}
	okPack := true
	var who []string
	for _, fn := range p.ShippedFuncs() {
		for _, call := range CallsTo(fn, pack) {
			name := FnName(fn)
			who = append(who, name)
			if !(strings.HasSuffix(name, "socket.socket).WriteMessage") || strings.HasSuffix(name, "websocket.wsProto).Pack")) {
				okPack = false
				c.Viol("Proto.Pack called from "+name, p.InstrPos(call), "a protocol's Pack is invoked outside Socket.WriteMessage: a frame can reach the connection without the write lock")
			}
		}
	}
	c.fact("callers")
	if okPack {
		c.Hold("Proto.Pack callers", "", fmt.Sprintf("only %v", who))
	}
}

func runC01_5(c *Ctx) {
	p := c.P
	readMsg := p.MethodObj(Root+"/socket", "Socket", "ReadMessage")
	unpack := p.MethodObj(Root+"/socket", "Proto", "Unpack")
	okR := true
	var readers []string
	for _, fn := range p.ShippedFuncs() {
		for _, call := range CallsTo(fn, readMsg) {
			name := FnName(fn)
			readers = append(readers, name)
			if !(strings.HasSuffix(name, "session).startReadAndHandle") || strings.HasSuffix(name, "session).readMessage") || strings.HasSuffix(name, "session).PreReceive")) {
				okR = false
				c.Viol("Socket.ReadMessage called from "+name, p.InstrPos(call), "a second reader of the session socket: two goroutines decode one byte stream, frames are torn and mixed")
			}
		}
	}
	c.fact("callers")
	if okR && len(readers) >= 2 {
		c.Hold("Socket.ReadMessage callers", "", fmt.Sprintf("only %v", readers))
	} else if okR {
		c.Undec("Socket.ReadMessage callers", "", fmt.Sprintf("found only %v", readers))
	}
	okU := true
	var ups []string
	for _, fn := range p.ShippedFuncs() {
		for _, call := range CallsTo(fn, unpack) {
			name := FnName(fn)
			ups = append(ups, name)
			if !(strings.HasSuffix(name, "socket.socket).ReadMessage") || strings.HasSuffix(name, "websocket.wsProto).Unpack")) {
				okU = false
				c.Viol("Proto.Unpack called from "+name, p.InstrPos(call), "a protocol's Unpack is invoked outside Socket.ReadMessage")
			}
		}
	}
	if okU {
		c.Hold("Proto.Unpack callers", "", fmt.Sprintf("only %v", ups))
	}
	// the read loop itself is a loop in one goroutine: exactly one read call per iteration
	_, rc := readLoopReadCall(p)
	c.Check(rc != nil, "one read per loop iteration", "", "single read call in the read loop", "cannot find the single read call of the read loop")
}

func runC01_6(c *Ctx) {
	p := c.P
	put := p.MethodObj(Root, "peer", "putContext")
	get := p.MethodObj(Root, "peer", "getContext")
	check := func(fn *ssa.Function, name string) {
		for _, pc := range CallsTo(fn, put) {
			if _, isDefer := pc.(*ssa.Defer); isDefer {
				// deferred release runs last: every other use precedes it by construction; make sure
				// no *later* defer uses the context (defers run LIFO: a defer registered before this one runs after it)
				ctxv := Resolve(CallArgs(pc)[0])
				bad := false
				Instrs(fn, func(i ssa.Instruction) {
					d, ok := i.(*ssa.Defer)
					if !ok || i == pc.(ssa.Instruction) || !Dominates(i, pc) {
						return
					}
					for _, a := range d.Call.Args {
						if Resolve(a) == ctxv {
							bad = true
						}
					}
				})
				c.fact("dominance")
				c.Check(!bad, name+": deferred putContext runs after every use", p.InstrPos(pc), "no earlier-registered defer uses the context", "a defer registered before the deferred putContext uses the context after it was returned to the pool")
				continue
			}
			ctxArg := CallArgs(pc)[0]
			var cell ssa.Value
			if u, ok := ctxArg.(*ssa.UnOp); ok {
				cell = u.X
			}
			ctxv := Resolve(ctxArg)
			uses := p.ReachableFrom(pc, func(i ssa.Instruction) bool {
				if _, isDbg := i.(*ssa.DebugRef); isDbg {
					return false
				}
				var ops []*ssa.Value
				ops = i.Operands(ops)
				for _, op := range ops {
					if op == nil || *op == nil {
						continue
					}
					if *op == ctxArg || (ctxv != nil && *op == ctxv) {
						return true
					}
					// a fresh load of the same captured cell
					if u, ok := (*op).(*ssa.UnOp); ok && cell != nil && u.X == cell {
						if _, isStore := i.(*ssa.Store); !isStore {
							return true
						}
					}
				}
				if u, ok := i.(*ssa.UnOp); ok && cell != nil && u.X == cell {
					// the load itself: counts only if its result is used (checked when the user is reached)
					return false
				}
				return false
			}, func(i ssa.Instruction) bool { return IsCallTo(i, get) }, nil)
			c.fact("path-search")
			c.Check(len(uses) == 0, name+": no use after putContext", p.InstrPos(pc), "nothing touches the context between its release and the next acquire",
				fmt.Sprintf("the context is used at %s after putContext returned it to the pool: another session's message may already be using it", posOfFirst(p, uses)))
		}
	}
	loop := p.Fn(Root, "session", "startReadAndHandle")
	check(loop, "read loop")
	for _, a := range loop.AnonFuncs {
		if len(CallsTo(a, put)) > 0 {
			check(a, "dispatched closure")
		}
	}
	push := p.Fn(Root, "session", "Push")
	for _, d := range deferredClosures(push) {
		if len(CallsTo(d, put)) > 0 {
			check(d, "Push deferred closure")
		}
	}
}

func posOfFirst(p *Prog, is []ssa.Instruction) string {
	if len(is) == 0 {
		return "?"
	}
	return p.InstrPos(is[0])
}

func runC01_7(c *Ctx) {
	p := c.P
	poolGet := p.MethodObj("sync", "Pool", "Get")
	poolPut := p.MethodObj("sync", "Pool", "Put")
	reflectNew := p.FuncObj("reflect", "New")
	n := 0
	for _, maker := range []string{"makeCallHandlersFromStruct", "makeCallHandlersFromFunc", "makePushHandlersFromStruct", "makePushHandlersFromFunc"} {
		mk := p.Fn(Root, "", maker)
		for _, cl := range mk.AnonFuncs {
			gets := CallsTo(cl, poolGet)
			puts := CallsTo(cl, poolPut)
			if len(gets) == 0 && len(puts) == 0 {
				continue
			}
			n++
			key := maker + " pooled handler " + cl.Name()
			if len(gets) != 1 || len(puts) != 1 {
				c.Viol(key, p.Pos(cl.Pos()), fmt.Sprintf("%d Get / %d Put in a pooled handler closure", len(gets), len(puts)))
				continue
			}
			obj := gets[0].(ssa.Value)
			// the indirect store *obj.ctxPtr = ctx
			var bind ssa.Instruction
			Instrs(cl, func(i ssa.Instruction) {
				st, ok := i.(*ssa.Store)
				if !ok {
					return
				}
				// Addr is a load of a field of the pooled object; Val derives from the ctx parameter
				if _, fa, ok := LoadedField(st.Addr); ok && fa != nil && stripIface(fa.X) == obj {
					if stripIface(st.Val) == ssa.Value(cl.Params[0]) {
						bind = i
					}
				}
			})
			// the reflective invocation
			var invoke ssa.Instruction
			Instrs(cl, func(i ssa.Instruction) {
				if call, ok := i.(*ssa.Call); ok && CalleeObj(call) != nil && CalleeObj(call).FullName() == "(reflect.Value).Call" {
					invoke = i
				}
			})
			okOrder := bind != nil && invoke != nil && Dominates(gets[0], bind) && Dominates(bind, invoke) && Dominates(invoke, puts[0]) && stripIface(puts[0].Common().Args[1]) == obj
			// no use of obj after Put
			after := p.ReachableFrom(puts[0], func(i ssa.Instruction) bool {
				var ops []*ssa.Value
				ops = i.Operands(ops)
				for _, op := range ops {
					if op != nil && *op != nil && stripIface(*op) == obj {
						return true
					}
				}
				return false
			}, nil, nil)
			c.fact("dominance+path-search")
			c.Check(okOrder && len(after) == 0, key, p.Pos(cl.Pos()), "Get -> *obj.ctxPtr = ctx -> Call -> Put(obj); obj untouched afterwards", "the pooled controller is not used strictly between its Get and Put with its context slot bound to this invocation's ctx: concurrent invocations see each other's context")
		}
		// pool.New builds a fresh controller
		for _, cl := range mk.AnonFuncs {
			if cl.Signature.Params().Len() != 0 || cl.Signature.Results().Len() != 1 {
				continue
			}
			// a New func: returns a struct pointer whose `ctrl` field is set
			isNew := false
			Instrs(cl, func(i ssa.Instruction) {
				if call, ok := i.(*ssa.Call); ok && CalleeObj(call) == reflectNew {
					isNew = true
				}
			})
			var ctrlStores []*ssa.Store
			Instrs(cl, func(i ssa.Instruction) {
				st, ok := i.(*ssa.Store)
				if !ok {
					return
				}
				if fa, ok := st.Addr.(*ssa.FieldAddr); ok {
					if al, ok := fa.X.(*ssa.Alloc); ok && al.Heap && fa.Field == 0 {
						ctrlStores = append(ctrlStores, st)
					}
				}
			})
			if len(ctrlStores) == 0 {
				continue
			}
			n++
			fresh := isNew
			for _, st := range ctrlStores {
				call, ok := st.Val.(*ssa.Call)
				if !ok || CalleeObj(call) != reflectNew {
					fresh = false
				}
			}
			c.Check(fresh, maker+" pool.New builds a fresh controller "+cl.Name(), p.Pos(cl.Pos()), "ctrl = reflect.New(...) inside New", "pooled controller objects are not freshly allocated per pool object (the controller value is shared): two concurrent invocations write the same embedded context slot and read each other's message")
		}
	}
	if n < 4 {
		c.Undec("pooled handler closures", "", fmt.Sprintf("found %d pooled closures / New functions, expected >= 4", n))
	}
}

// ---------------------------------------------------------------- C01.8

func bufTrack(t types.Type) bool {
	t = types.Unalias(t)
	if n, ok := t.(*types.Named); ok && n.Obj().Pkg() != nil && n.Obj().Pkg().Path() == "reflect" && n.Obj().Name() == "Value" {
		return true
	}
	switch u := t.Underlying().(type) {
	case *types.Basic:
		return u.Kind() == types.String
	case *types.Slice:
		if b, ok := u.Elem().Underlying().(*types.Basic); ok && (b.Kind() == types.Uint8 || b.Kind() == types.String) {
			return true
		}
		return bufTrack(u.Elem())
	case *types.Map:
		return bufTrack(u.Elem())
	case *types.Interface:
		return true
	case *types.Tuple:
		for i := 0; i < u.Len(); i++ {
			if bufTrack(u.At(i).Type()) {
				return true
			}
		}
	case *types.Pointer:
		// pointer to a tracked slice/string variable
		return false
	}
	return false
}

var bufExtAlias = map[string][]int{
	"github.com/henrylee2cn/goutil.BytesToString": {0},
	"github.com/henrylee2cn/goutil.StringToBytes": {0},
	"net/url.ParseQuery":                          {0},
	"reflect.ValueOf":                             {0},
	"strings.TrimSpace":                           {0},
	// a pipe without filters (and the integrity filter) returns (a sub-slice of) its input
	"(*" + Root + "/xfer.XferPipe).OnUnpack": {1},
	"(*" + Root + "/xfer.XferPipe).OnPack":   {1},
	"bytes.SplitN":                           {0},
	"bytes.Split":                            {0},
	"bytes.TrimSpace":                        {0},
	// gjson returns sub-strings of the document for every string that needs no unescaping
	"github.com/tidwall/gjson.Get":             {0},
	"github.com/tidwall/gjson.GetBytes":        {0},
	"github.com/tidwall/gjson.Parse":           {0},
	"github.com/tidwall/gjson.ParseBytes":      {0},
	"(github.com/tidwall/gjson.Result).String": {0},
	"(github.com/tidwall/gjson.Result).Get":    {0},
	"(github.com/tidwall/gjson.Result).Value":  {0},
}

func runC01_8(c *Ctx) {
	p := c.P
	// scope: codec + socket packages
	var fns []*ssa.Function
	for _, fn := range p.ShippedFuncs() {
		if fn.Pkg == nil {
			continue
		}
		pp := fn.Pkg.Pkg.Path()
		if pp == Root+"/codec" || pp == Root+"/socket" {
			fns = append(fns, fn)
		}
	}
	fl := NewFlowOpt(p, fns, bufTrack, bufExtAlias, true)
	// sources
	codecIface := p.Named(Root+"/codec", "Codec").Underlying().(*types.Interface)
	var sources []interface{}
	var srcDesc []string
	for _, fn := range fns {
		if fn.Name() == "Unmarshal" && fn.Signature.Recv() != nil && len(fn.Params) == 3 {
			rt := fn.Signature.Recv().Type()
			if types.Implements(rt, codecIface) || types.Implements(types.NewPointer(rt), codecIface) {
				sources = append(sources, ssa.Value(fn.Params[1]))
				srcDesc = append(srcDesc, FnName(fn))
			}
		}
	}
	ub := p.Fn(Root+"/socket", "message", "UnmarshalBody")
	sources = append(sources, ssa.Value(ub.Params[1]))
	srcDesc = append(srcDesc, FnName(ub))
	if len(sources) < 7 {
		c.Undec("decoder entry points", "", fmt.Sprintf("found %d Unmarshal entry points, expected >= 7", len(sources)))
	}
	pred := fl.Reach(sources)
	c.fact("value-flow-graph")
	c.Facts["flow-edges"] = fl.Edges
	sinks := 0
	reported := map[*ssa.Function]bool{}
	// only functions the buffer-derived values actually reach are decoder code
	reached := map[*ssa.Function]bool{}
	for n := range pred {
		if v, ok := n.(ssa.Value); ok && v.Parent() != nil {
			reached[v.Parent()] = true
		}
	}
	for _, fn := range fns {
		if !reached[fn] {
			continue
		}
		Instrs(fn, func(i ssa.Instruction) {
			var tv ssa.Value
			what := ""
			switch x := i.(type) {
			case *ssa.Call:
				o := CalleeObj(x)
				if o == nil {
					return
				}
				switch o.FullName() {
				case "(reflect.Value).SetString", "(reflect.Value).SetBytes", "(reflect.Value).Set", "(reflect.Value).SetMapIndex":
					for _, a := range x.Call.Args[1:] {
						if _, ok := pred[a]; ok {
							tv = a
						}
					}
					what = o.Name()
				default:
					return
				}
				sinks++
			case *ssa.Store:
				if !bufTrack(x.Val.Type()) {
					return
				}
				switch x.Addr.(type) {
				case *ssa.Alloc:
					return // local variable / result cell
				case *ssa.IndexAddr:
					// element of a local varargs array etc.
					if ia := x.Addr.(*ssa.IndexAddr); isLocalArray(ia.X) {
						return
					}
				}
				sinks++
				if _, ok := pred[x.Val]; ok {
					tv = x.Val
				}
				what = "store into the destination"
			case *ssa.MapUpdate:
				sinks++
				if _, ok := pred[x.Value]; ok {
					tv = x.Value
				}
				what = "map update"
			default:
				return
			}
			reported[fn] = true
			key := fmt.Sprintf("%s in %s", what, FnName(fn))
			if tv != nil {
				c.Viol(key, p.InstrPos(i), "a value that still points into the receive buffer ("+strings.Join(fl.PathTo(pred, tv)[:1], "")+") is stored into the decoded value: the pooled read buffer is re-used for the next message, so the handler argument / call result later shows bytes of another message", fl.PathTo(pred, tv)...)
			} else {
				c.Hold(key, p.InstrPos(i), "stored value is not derived (without copy) from the receive buffer")
			}
		})
	}
	for i, s := range srcDesc {
		_ = i
		c.HoldTrivial("decoder entry "+s, "", "data parameter is a taint source")
	}
	if sinks < 6 {
		c.Undec("sinks", "", fmt.Sprintf("only %d candidate sinks found", sinks))
	}
}

func isLocalArray(v ssa.Value) bool {
	_, ok := v.(*ssa.Alloc)
	return ok
}
