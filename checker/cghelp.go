package main

import (
	"golang.org/x/tools/go/callgraph"
	"golang.org/x/tools/go/ssa"
)

// SiteCallees returns the possible callees of a call site according to the VTA graph.
func (p *Prog) SiteCallees(call ssa.CallInstruction) []*ssa.Function {
	if sf := StaticFn(call); sf != nil {
		return []*ssa.Function{sf}
	}
	cg := p.CG()
	n := cg.Nodes[call.Parent()]
	if n == nil {
		return nil
	}
	var out []*ssa.Function
	for _, e := range n.Out {
		if e.Site == call {
			out = append(out, e.Callee.Func)
		}
	}
	if len(out) == 0 && call.Common().IsInvoke() {
		// VTA sees no concrete type flowing to this interface value (it comes from code outside the
		// program, e.g. a user callback): fall back to every implementation (class hierarchy).
		if cn := p.CHA().Nodes[call.Parent()]; cn != nil {
			for _, e := range cn.Out {
				if e.Site == call {
					out = append(out, e.Callee.Func)
				}
			}
		}
	}
	return out
}

// FnMayReach: can execution of fn (transitively, through at most depth call edges,
// following go and defer as well) invoke target?
func (p *Prog) FnMayReach(fn, target *ssa.Function, depth int) bool {
	cg := p.CG()
	seen := map[*ssa.Function]bool{}
	var rec func(f *ssa.Function, d int) bool
	rec = func(f *ssa.Function, d int) bool {
		if f == target {
			return true
		}
		if d == 0 || seen[f] {
			return false
		}
		seen[f] = true
		n := cg.Nodes[f]
		if n == nil {
			return false
		}
		for _, e := range n.Out {
			if rec(e.Callee.Func, d-1) {
				return true
			}
		}
		return false
	}
	return rec(fn, depth)
}

// CallMayReach: may this call site (transitively) invoke target?
func (p *Prog) CallMayReach(call ssa.CallInstruction, target *ssa.Function, depth int) bool {
	for _, f := range p.SiteCallees(call) {
		if p.FnMayReach(f, target, depth) {
			return true
		}
	}
	return false
}

// Callers lists the functions having a call edge to fn in the VTA graph.
func (p *Prog) Callers(fn *ssa.Function) []*callgraph.Edge {
	n := p.CG().Nodes[fn]
	if n == nil {
		return nil
	}
	return n.In
}
