package main

import (
	"fmt"
	"go/token"
	"go/types"
	"strings"

	"golang.org/x/tools/go/ssa"
)

// Rules added after the third round of seeded changes.

func init() {
	register(&Rule{ID: "C07.13", Prop: "C07", Min: 1,
		Text: "ModifySocket keeps the session's id: the id handed to socket.SetID after socket.Reset was read (session.ID()) BEFORE the reset - Reset clears the explicit id, so an id read afterwards is the remote address and the index is never told",
		Run:  runC07_13})
	text := "a redial takes no second slot: on the isRedial edge Overloader.PostDial returns nil without reaching the connection limiter - the core runs no PostDisconnect between a loss and a successful redial, so a slot taken again is never given back"
	register(&Rule{ID: "C13.11", Prop: "C13", Min: 1, Text: text, Run: runRedialNoSlot})
	register(&Rule{ID: "C18.9", Prop: "C18", Min: 1, Text: text, Run: runRedialNoSlot})
	register(&Rule{ID: "C18.10", Prop: "C18", Min: 1,
		Text: "a limiter created later starts from the sessions already admitted: on the edge where updateConnLimiter creates the connection limiter it counts the recorded admissions (Range over the admission evidence) into it - every admitted session releases a slot when it ends, so a limiter starting at zero goes negative and admits limit+k",
		Run:  runC18_10})
	register(&Rule{ID: "C09.8", Prop: "C09", Min: 2,
		Text: "reply-side stages run under the per-call lock: in bindReply postReadReplyHeader and preReadReplyBody are called with callCmd.mu held - AsyncCall holds that mutex from PreWriteCall to PostWriteCall, which is what orders the write-side stages of a call before its reply-side stages",
		Run:  runC09_8})
	register(&Rule{ID: "C09.9", Prop: "C09", Min: 4,
		Text: "a derived container derives from the deriving router's own container: the receiver of every cloneAndAppendMiddle call is the pluginContainer of the method's own receiver (or of its embedded sub-router), never of the root reached through another router - a nested group must inherit its parent group's plugins",
		Run:  runC09_9})
	t59 := "a length the wire field cannot carry is refused, not truncated: on every send path a length converted to a narrower unsigned integer (uint8/uint16) provably fits (interval analysis over the dominating comparisons), frozen exemptions: XferPipe.Len() (bounded by Append) and the length of strconv.FormatInt of a 32-bit value"
	register(&Rule{ID: "C05.9", Prop: "C05", Min: 4, Text: t59, Run: runNarrowingLengths})
	register(&Rule{ID: "C10.5", Prop: "C10", Min: 4, Text: "a service-method name is sent whole or not at all (same obligations as C05.9): " + t59, Run: runNarrowingLengths})
	t106 := "httproto applies the request line before the headers: SetMtype(TypeCall), SetServiceMethod(path) and Meta().ParseBytes(query) are not reachable after the header block was parsed (h.unpack) - X-Mtype must be able to override the default type, and ParseBytes resets the metadata the headers (X-Secure ...) were stored in"
	register(&Rule{ID: "C10.6", Prop: "C10", Min: 3, Text: t106, Run: runHTTPRequestLineFirst})
	register(&Rule{ID: "C17.9", Prop: "C17", Min: 3, Text: t106, Run: runHTTPRequestLineFirst})
	register(&Rule{ID: "C05.10", Prop: "C05", Min: 3, Text: t106, Run: runHTTPRequestLineFirst})
	register(&Rule{ID: "C12.9", Prop: "C12", Min: 4,
		Text: "shipped transfer filters keep no per-message state: OnPack/OnUnpack of every filter type (and the helpers they hand the receiver to) call nothing on a mutable object stored in the filter except sync.Pool - one registered filter value serves all sessions concurrently",
		Run:  runC12_9})
	t1210 := "thrift frames carry their own headers only: in binaryPack/structPack ClearWriteHeaders dominates the header stores, and every header key (status, meta[, body codec, pipe]) is stored on every path before WriteMessageEnd - the transport keeps write headers across flushes, so a skipped store re-sends the previous message's value"
	register(&Rule{ID: "C12.10", Prop: "C12", Min: 6, Text: t1210, Run: runThriftHeaders})
	register(&Rule{ID: "C04.13", Prop: "C04", Min: 6, Text: t1210, Run: runThriftHeaders})
	register(&Rule{ID: "C05.11", Prop: "C05", Min: 6, Text: t1210, Run: runThriftHeaders})
	register(&Rule{ID: "C19.8", Prop: "C19", Min: 1,
		Text: "a request is sent once: (*session).Call is one AsyncCall followed by the wait - no loop, no second AsyncCall (a call whose reply was lost must surface as a connection error, not be executed twice by the backend)",
		Run:  runC19_8})
	register(&Rule{ID: "C03.13", Prop: "C03", Min: 1,
		Text: "the write deadline is (re)armed for every frame: in session.write every path to Socket.WriteMessage passes SetWriteDeadline - an earlier message's expired deadline must not fail the reply (and its fallback) of a later call on a connection that stays up",
		Run:  runC03_13})
	register(&Rule{ID: "C14.8", Prop: "C14", Min: 2,
		Text: "websocket control frames are written under the connection's write lock: every hybiFrameHandler method that obtains a frame writer holds conn.wio (the reader goroutine answering a PING races with data frames otherwise)",
		Run:  runC14_8})
	register(&Rule{ID: "C05.12", Prop: "C05", Min: 1,
		Text: "websocket unmasking is positional across reads: in hybiFrameReader.Read the masking-key index is derived from the running payload position (frame.pos), not from the offset inside the current Read",
		Run:  runC05_12})
	register(&Rule{ID: "C06.10", Prop: "C06", Min: 1,
		Text: "the log renderer cannot index past its input: on the printRunLog path (which runs after the recover barriers) every look-ahead index s[i+k] is dominated by a comparison of i+k (or more) with len(s)",
		Run:  runC06_10})
	register(&Rule{ID: "C02.12", Prop: "C02", Min: 1,
		Text: "the pending-call table can be drained: session.callCmdMap is created by goutil.AtomicMap() (its Range holds no lock while the callback deletes the entry; an RwMap would deadlock the drain on itself)",
		Run:  runC02_12})
	register(&Rule{ID: "C02.13", Prop: "C02", Min: 5,
		Text: "the handler wait-group the drain waits for is always released: Push pairs getContext(s,true) with a deferred putContext(ctx,true) on every path (same obligations as C08.2)",
		Run:  runC08_2})
	register(&Rule{ID: "C11.8", Prop: "C11", Min: 5,
		Text: "decoders decode into a reset destination: each library codec's Unmarshal delegates to the library's resetting entry point (json.Unmarshal, xml.Unmarshal, proto.Unmarshal, TStruct.Read) - a merging decoder (proto.Buffer.Unmarshal, a reused Decoder) leaves fields of the previous value behind",
		Run:  runC11_8})
	register(&Rule{ID: "C11.9", Prop: "C11", Min: 2,
		Text: "the plain codec stores the input bytes as they are: in parseProperType the string and byte-slice cases take their value from the data parameter itself (by copy), not from a transformed version of it (TrimSpace ...)",
		Run:  runC11_9})
}

func runC07_13(c *Ctx) {
	p := c.P
	fn := p.Fn(Root, "session", "ModifySocket")
	reset := p.MethodObj(Root+"/socket", "Socket", "Reset")
	setID := p.MethodObj(Root+"/socket", "Socket", "SetID")
	idM := p.MethodObj(Root, "session", "ID")
	rs := CallsTo(fn, reset)
	ss := CallsTo(fn, setID)
	if len(rs) == 0 && len(ss) == 0 {
		// the reset/restore tail may have been extracted into a same-package helper (one level): it is analysed there
		for _, hc := range AllCalls(fn) {
			h := hc.Common().StaticCallee()
			if h == nil || h.Pkg != fn.Pkg || len(h.Blocks) == 0 {
				continue
			}
			if hr, hs := CallsTo(h, reset), CallsTo(h, setID); len(hr) == 1 && len(hs) == 1 {
				rs, ss = hr, hs
			}
		}
	}
	if len(rs) != 1 || len(ss) != 1 {
		c.Undec("ModifySocket anchors", p.Pos(fn.Pos()), fmt.Sprintf("expected one socket.Reset and one socket.SetID, found %d/%d", len(rs), len(ss)))
		return
	}
	arg := Resolve(CallArgs(ss[0])[0])
	idCall, isCall := arg.(*ssa.Call)
	ok := isCall && CalleeObj(idCall) == idM && Dominates(idCall, rs[0]) && Dominates(rs[0], ss[0])
	c.fact("dominance")
	c.Check(ok, "ModifySocket restores the id read before the reset", p.InstrPos(ss[0]), "id := s.ID(); socket.Reset(...); socket.SetID(id)", "ModifySocket hands socket.SetID a value that was not read through s.ID() before socket.Reset: the reset clears the explicit id, the session silently takes its remote address as id and the index still lists the old one")
}

func runRedialNoSlot(c *Ctx) {
	p := c.P
	fn := p.Fn(olPkg, "Overloader", "PostDial")
	take := p.MethodObj(olPkg, "Overloader", "takeConn")
	prm := ssa.Value(fn.Params[2])
	var redialEdge *ssa.BasicBlock
	for _, b := range fn.Blocks {
		ifi, ok := b.Instrs[len(b.Instrs)-1].(*ssa.If)
		if !ok {
			continue
		}
		cv, neg := stripNot(ifi.Cond)
		if cv != prm {
			continue
		}
		redialEdge = b.Succs[0]
		if neg {
			redialEdge = b.Succs[1]
		}
	}
	ok := false
	if redialEdge != nil {
		hits := p.ReachableFromBlock(redialEdge, func(i ssa.Instruction) bool {
			call, isCall := i.(ssa.CallInstruction)
			return isCall && (CalleeObj(call) == take || p.CallMayReach(call, p.Fn(olPkg, "Overloader", "takeConn"), 3))
		}, nil, nil)
		w := &Walk{P: p}
		w.FromBlock(redialEdge)
		nilRet := len(w.Exits) > 0
		for _, e := range w.Exits {
			if !IsNilConst(ReturnVals(e.(*ssa.Return))[0]) {
				nilRet = false
			}
		}
		ok = len(hits) == 0 && nilRet
	}
	c.fact("path-search")
	c.Check(ok, "Overloader.PostDial skips the limiter for a redial", p.Pos(fn.Pos()), "isRedial => return nil, the limiter is not reachable", "Overloader.PostDial counts a redial as a new connection: the slot taken for the first dial is never released (no PostDisconnect runs between a loss and a successful redial), so every successful redial leaks a slot until the dial hook refuses all redials")
}

func runC09_8(c *Ctx) {
	p := c.P
	fn := p.Fn(Root, "handlerCtx", "bindReply")
	ccN, muIdx := p.FieldIndex(Root, "callCmd", "mu")
	for _, h := range []string{"postReadReplyHeader", "preReadReplyBody"} {
		m := p.MethodObj(Root, "pluginSingleContainer", h)
		calls := CallsTo(fn, m)
		if len(calls) == 0 {
			c.Undec(h+" under the per-call lock", p.Pos(fn.Pos()), "no call to "+h+" in bindReply")
			continue
		}
		ok := true
		for _, call := range calls {
			if !heldAtMode(p, fn, ccN, muIdx, call, true) {
				ok = false
			}
		}
		c.fact("locksets")
		c.Check(ok, h+" under the per-call lock", p.InstrPos(calls[0]), "callCmd.mu is held", h+" is dispatched in bindReply without callCmd.mu: the reply-side stages of a call are no longer ordered after its write-side stages (PostWriteCall can run after PostReadReplyHeader), and a duplicate reply fires the hook again")
	}
}

func runC09_9(c *Ctx) {
	p := c.P
	clone := p.MethodObj(Root, "PluginContainer", "cloneAndAppendMiddle")
	n := 0
	for _, fn := range p.ShippedFuncs() {
		for _, call := range CallsTo(fn, clone) {
			n++
			// walk the receiver back to a parameter, collecting field names
			var fields []string
			v := CallRecv(call)
			okChain := false
			for k := 0; k < 6 && v != nil; k++ {
				v = Resolve(v)
				if prm, isP := v.(*ssa.Parameter); isP {
					okChain = len(fn.Params) > 0 && prm == fn.Params[0]
					break
				}
				fr, fa, ok := LoadedField(v)
				if !ok {
					if fa2, isFA := v.(*ssa.FieldAddr); isFA {
						fr2, _, _ := FieldOfAddr(fa2)
						fields = append(fields, fr2.String())
						v = fa2.X
						continue
					}
					break
				}
				fields = append(fields, fr.String())
				if fa == nil {
					break
				}
				v = fa.X
			}
			bad := ""
			for _, f := range fields {
				if strings.HasSuffix(f, ".root") {
					bad = f
				}
			}
			key := "container derived in " + FnName(fn)
			c.fact("value-identity")
			c.Check(okChain && bad == "" && len(fields) >= 1 && strings.HasSuffix(fields[0], ".pluginContainer"), key, p.InstrPos(call), "receiver = own pluginContainer ("+strings.Join(fields, " <- ")+")",
				"the container is derived from "+strings.Join(fields, " <- ")+" instead of the deriving router's own container: a nested group loses the plugins of its parent group (their vetoes no longer protect its handlers)")
		}
	}
	if n < 4 {
		c.Undec("cloneAndAppendMiddle call sites", "", fmt.Sprintf("found %d, expected >= 4", n))
	}
}

func runNarrowingLengths(c *Ctx) {
	p := c.P
	n := 0
	seen := map[*ssa.Function]bool{}
	for _, im := range protoImpls(p) {
		if im.pack == nil {
			continue
		}
		for _, fn := range recvReach(p, im.pack) {
			if seen[fn] {
				continue
			}
			seen[fn] = true
			idx := 0
			Instrs(fn, func(i ssa.Instruction) {
				cv, ok := i.(*ssa.Convert)
				if !ok {
					return
				}
				tb, isB := cv.Type().Underlying().(*types.Basic)
				if !isB || (tb.Kind() != types.Uint8 && tb.Kind() != types.Uint16) {
					return
				}
				sb, isSB := cv.X.Type().Underlying().(*types.Basic)
				if !isSB || sb.Info()&types.IsInteger == 0 {
					return
				}
				if _, isC := cv.X.(*ssa.Const); isC {
					return
				}
				if typeIval(cv.X.Type()).within(typeIval(cv.Type())) {
					return // not narrowing
				}
				n++
				idx++
				key := fmt.Sprintf("%s(%s) #%d in %s", tb.Name(), describeVal(cv.X), idx, FnName(fn))
				// exemptions with reasons
				if call, isCall := cv.X.(*ssa.Call); isCall {
					if o := CalleeObj(call); o != nil && o.Name() == "Len" && strings.Contains(o.FullName(), "XferPipe") {
						c.HoldTrivial(key, p.InstrPos(cv), "exempt: XferPipe.Len() is bounded by Append (at most 255 filters)")
						return
					}
					if b, isBi := call.Call.Value.(*ssa.Builtin); isBi && b.Name() == "len" {
						if fc, isFC := call.Call.Args[0].(*ssa.Call); isFC && CalleeObj(fc) != nil && CalleeObj(fc).FullName() == "strconv.FormatInt" {
							c.HoldTrivial(key, p.InstrPos(cv), "exempt: the base-36 text of a 32-bit sequence number is at most 7 bytes")
							return
						}
					}
				}
				eng := &linEngine{p: p, fn: fn, at: cv.Block(), slack: map[ssa.Value]bool{}, busy: map[ssa.Value]bool{}}
				iv := eng.interval(cv.X)
				c.fact("intervals")
				c.Check(iv.within(typeIval(cv.Type())), key, p.InstrPos(cv), fmt.Sprintf("value in [%d,%d] fits %s", iv.lo, iv.hi, tb.Name()),
					fmt.Sprintf("a length in [%d,%d] is converted to %s on a send path without a guard: a longer field is framed with its length modulo %d, Pack reports success and the receiver mis-parses the frame (e.g. dispatches the prefix of an unregistered name)", iv.lo, iv.hi, tb.Name(), typeIval(cv.Type()).hi+1))
			})
		}
	}
	if n < 4 {
		c.Undec("narrowing length conversions on send paths", "", fmt.Sprintf("found %d, expected >= 4", n))
	}
}

func runHTTPRequestLineFirst(c *Ctx) {
	p := c.P
	httpPkg := Root + "/proto/httproto"
	fn := p.Fn(httpPkg, "httproto", "Unpack")
	unpack := p.MethodObj(httpPkg, "httproto", "unpack")
	setMtype := p.MethodObj(Root+"/socket", "Header", "SetMtype")
	setSM := p.MethodObj(Root+"/socket", "Header", "SetServiceMethod")
	parseBytes := p.MethodObj(Root+"/utils", "Args", "ParseBytes")
	typeCall := p.ConstInt(Root, "TypeCall")
	ups := CallsTo(fn, unpack)
	if len(ups) == 0 {
		// extracted helper: look one level down
		for _, call := range AllCalls(fn) {
			if h := call.Common().StaticCallee(); h != nil && h.Pkg == fn.Pkg && len(CallsTo(h, unpack)) > 0 {
				ups = append(ups, call)
			}
		}
	}
	if len(ups) == 0 {
		c.Undec("httproto header parse", p.Pos(fn.Pos()), "no call to h.unpack found in Unpack")
		return
	}
	for _, s := range []struct {
		name string
		is   func(ssa.Instruction) bool
	}{
		{"SetMtype(TypeCall)", func(i ssa.Instruction) bool {
			call, ok := i.(*ssa.Call)
			if !ok || CalleeObj(call) != setMtype {
				return false
			}
			k, isC := ConstIntOf(CallArgs(call)[0])
			return isC && k == typeCall
		}},
		{"SetServiceMethod(path)", func(i ssa.Instruction) bool { return IsCallTo(i, setSM) }},
		{"Meta().ParseBytes(query)", func(i ssa.Instruction) bool { return IsCallTo(i, parseBytes) }},
	} {
		present := false
		Instrs(fn, func(i ssa.Instruction) {
			if s.is(i) {
				present = true
			}
		})
		late := false
		for _, u := range ups {
			if len(p.ReachableFrom(u, s.is, nil, nil)) > 0 {
				late = true
			}
		}
		c.fact("path-search")
		c.Check(present && !late, "request line before headers: "+s.name, p.Pos(fn.Pos()), "never reachable after the header block was parsed", "httproto.Unpack applies "+s.name+" after the header block was parsed (or not at all): the default overrides what the headers announced (X-Mtype: a PUSH is dispatched as a CALL) / ParseBytes resets the metadata the headers were stored in (X-Secure is lost, the body is not decrypted)")
	}
}

func runC12_9(c *Ctx) {
	p := c.P
	filterIface := p.Named(Root+"/xfer", "XferFilter").Underlying().(*types.Interface)
	n := 0
	for _, sp := range p.Shipped {
		for _, m := range sp.Members {
			t, ok := m.(*ssa.Type)
			if !ok {
				continue
			}
			named, ok := t.Type().(*types.Named)
			if !ok {
				continue
			}
			if _, isI := named.Underlying().(*types.Interface); isI {
				continue
			}
			if !types.Implements(types.NewPointer(named), filterIface) && !types.Implements(named, filterIface) {
				continue
			}
			for _, mn := range []string{"OnPack", "OnUnpack"} {
				fn := p.FnOpt(sp.Pkg.Path(), named.Obj().Name(), mn)
				if fn == nil {
					continue
				}
				n++
				bad := ""
				var scan func(f *ssa.Function, recv ssa.Value, depth int)
				scan = func(f *ssa.Function, recv ssa.Value, depth int) {
					for _, call := range AllCalls(f) {
						cc := call.Common()
						var objs []ssa.Value
						if cc.IsInvoke() {
							objs = append(objs, cc.Value)
						} else {
							objs = append(objs, cc.Args...)
						}
						for _, o := range objs {
							fr, fa, isF := LoadedField(o)
							var base ssa.Value
							if isF && fa != nil {
								base = fa.X
							} else if fa2, isFA := o.(*ssa.FieldAddr); isFA {
								fr, _, _ = FieldOfAddr(fa2)
								base = fa2.X
								isF = true
							}
							if !isF || Resolve(base) != recv {
								continue
							}
							ft := fr.Struct.Underlying().(*types.Struct).Field(fr.Index).Type()
							if n2, isN := ft.(*types.Named); isN && n2.Obj().Pkg() != nil && n2.Obj().Pkg().Path() == "sync" {
								continue // sync.Pool / sync.Mutex are made for concurrent use
							}
							switch ft.Underlying().(type) {
							case *types.Basic:
								continue // id, name, level: immutable configuration
							}
							bad = fmt.Sprintf("%s called with the filter's field %s at %s", describeCall(call), fr.String(), p.InstrPos(call))
						}
						// helpers that are handed the receiver
						if h := cc.StaticCallee(); h != nil && h.Pkg == f.Pkg && depth < 2 && !cc.IsInvoke() {
							for k, a := range cc.Args {
								if Resolve(a) == recv && k < len(h.Params) {
									scan(h, h.Params[k], depth+1)
								}
							}
						}
					}
				}
				scan(fn, fn.Params[0], 0)
				c.fact("field-access-set")
				c.Check(bad == "", "filter "+named.Obj().Name()+"."+mn+" is stateless", p.Pos(fn.Pos()), "no mutable object of the filter value is used", "the filter keeps per-message state in the registered (shared) filter value: "+bad+" - two sessions (or a session's reader and writer) inside the filter at once corrupt each other's digest/stream: intact payloads are refused, altered ones accepted")
			}
		}
	}
	if n < 4 {
		c.Undec("filter methods", "", fmt.Sprintf("found %d OnPack/OnUnpack methods of shipped filters, expected >= 4", n))
	}
}

func runThriftHeaders(c *Ctx) {
	p := c.P
	thriftPkg := Root + "/proto/thriftproto"
	for _, s := range []struct {
		typ, fn string
		keys    int
	}{{"tBinaryProto", "binaryPack", 4}, {"tStructProto", "structPack", 2}} {
		fn := p.Fn(thriftPkg, s.typ, s.fn)
		var clear ssa.Instruction
		var sets []*ssa.Call
		var end ssa.Instruction
		Instrs(fn, func(i ssa.Instruction) {
			call, ok := i.(*ssa.Call)
			if !ok || CalleeObj(call) == nil {
				return
			}
			switch CalleeObj(call).Name() {
			case "ClearWriteHeaders":
				clear = i
			case "SetWriteHeader":
				sets = append(sets, call)
			case "WriteMessageEnd":
				end = i
			}
		})
		key := s.typ + "." + s.fn
		c.fact("dominance+path-search")
		okClear := clear != nil
		for _, st := range sets {
			if clear == nil || !Dominates(clear, st) {
				okClear = false
			}
		}
		c.Check(okClear && len(sets) >= s.keys, key+" clears the transport's headers first", p.Pos(fn.Pos()), fmt.Sprintf("ClearWriteHeaders dominates the %d header stores", len(sets)), key+" no longer clears the transport's write headers before storing this message's (or stores fewer than "+fmt.Sprint(s.keys)+" of them): headers persist across flushes, so a message re-sends what an earlier one stored")
		for k, st := range sets {
			name := fmt.Sprintf("#%d", k+1)
			if g, ok := st.Call.Args[0].(*ssa.UnOp); ok {
				if gl, isG := g.X.(*ssa.Global); isG {
					name = gl.Name()
				}
			} else if cst, ok := st.Call.Args[0].(*ssa.Const); ok && cst.Value != nil {
				name = cst.Value.ExactString()
			}
			uncond := clear != nil && end != nil
			if uncond {
				// no path from the clear to WriteMessageEnd that avoids this store
				skip := p.ReachableFrom(clear, func(i ssa.Instruction) bool { return i == end }, func(i ssa.Instruction) bool { return i == ssa.Instruction(st) }, nil)
				uncond = len(skip) == 0
			}
			c.Check(uncond, key+" stores header "+name+" on every path", p.InstrPos(st), "unconditional between ClearWriteHeaders and WriteMessageEnd", key+" stores header "+name+" only on some paths: a message without that field (OK status, empty pipe) is sent with the value of an earlier message on the same connection")
		}
	}
}

func runC19_8(c *Ctx) {
	p := c.P
	fn := p.Fn(Root, "session", "Call")
	async := p.MethodObj(Root, "session", "AsyncCall")
	calls := CallsTo(fn, async)
	ok := len(calls) == 1
	if ok {
		if len(p.ReachableFrom(calls[0], func(i ssa.Instruction) bool { return i == ssa.Instruction(calls[0]) }, nil, nil)) > 0 {
			ok = false
		}
	}
	c.fact("call-count+path-search")
	c.Check(ok, "Call issues one AsyncCall", p.Pos(fn.Pos()), "exactly one AsyncCall, not in a loop", fmt.Sprintf("(*session).Call reaches AsyncCall %d times (or in a loop): a call whose reply was lost is sent again and executed twice by the peer (through a proxy: forwarded twice, and the lost backend connection is hidden behind an OK)", len(calls)))
}

func runC03_13(c *Ctx) {
	p := c.P
	fn := p.Fn(Root, "session", "write")
	writeMsg := p.MethodObj(Root+"/socket", "Socket", "WriteMessage")
	setDL := p.MethodObj(Root+"/socket", "Socket", "SetWriteDeadline")
	wm := CallsTo(fn, writeMsg)
	if len(wm) != 1 {
		c.Undec("write deadline per frame", p.Pos(fn.Pos()), fmt.Sprintf("expected one WriteMessage in write, found %d", len(wm)))
		return
	}
	// every path from entry to WriteMessage passes SetWriteDeadline
	w := &Walk{P: p, Stop: func(i ssa.Instruction) bool { return IsCallTo(i, setDL) }}
	reached := false
	w.Stop = func(i ssa.Instruction) bool {
		if i == ssa.Instruction(wm[0]) {
			reached = true
			return true
		}
		return IsCallTo(i, setDL)
	}
	w.FromBlock(fn.Blocks[0])
	c.fact("must-pass")
	c.Check(!reached, "write deadline per frame", p.InstrPos(wm[0]), "SetWriteDeadline on every path to WriteMessage", "session.write can reach Socket.WriteMessage without (re)setting the write deadline: the deadline of an earlier message stays armed, and once it has passed every later reply (and its fallback) fails with i/o timeout - the call is never answered on a connection that stays up")
}

func runC14_8(c *Ctx) {
	p := c.P
	wsPkg := Root + "/mixer/websocket/websocket"
	connN, wioIdx := p.FieldIndex(wsPkg, "Conn", "wio")
	n := 0
	for _, fn := range p.ShippedFuncs() {
		if fn.Pkg == nil || fn.Pkg.Pkg.Path() != wsPkg || fn.Signature.Recv() == nil {
			continue
		}
		if derefNamed(fn.Signature.Recv().Type()) == nil || derefNamed(fn.Signature.Recv().Type()).Obj().Name() != "hybiFrameHandler" {
			continue
		}
		for _, call := range AllCalls(fn) {
			o := CalleeObj(call)
			if o == nil || o.Name() != "NewFrameWriter" {
				continue
			}
			n++
			c.fact("locksets")
			c.Check(heldAtMode(p, fn, connN, wioIdx, call, true), "frame writer under wio in "+fn.Name(), p.InstrPos(call), "conn.wio is held", "hybiFrameHandler."+fn.Name()+" writes a control frame without the connection's write lock: the reader goroutine (answering a PING) and a sender write to the shared bufio.Writer at once - frames on the wire are torn")
		}
	}
	if n < 2 {
		c.Undec("control frame writers", "", fmt.Sprintf("found %d, expected >= 2", n))
	}
}

func runC05_12(c *Ctx) {
	p := c.P
	wsPkg := Root + "/mixer/websocket/websocket"
	fn := p.Fn(wsPkg, "hybiFrameReader", "Read")
	frN, posIdx := p.FieldIndex(wsPkg, "hybiFrameReader", "pos")
	n, ok := 0, true
	Instrs(fn, func(i ssa.Instruction) {
		var idx ssa.Value
		switch x := i.(type) {
		case *ssa.IndexAddr:
			if sl, isSl := x.X.Type().Underlying().(*types.Slice); isSl {
				if b, isB := sl.Elem().Underlying().(*types.Basic); isB && b.Kind() == types.Uint8 {
					if fr, _, isF := LoadedField(x.X); isF && strings.HasSuffix(fr.String(), ".MaskingKey") {
						idx = x.Index
					}
				}
			}
		}
		if idx == nil {
			return
		}
		n++
		// the index is (pos % 4) or (pos & 3) of the frame's running position
		derived := false
		for k := 0; k < 3 && idx != nil; k++ {
			switch x := idx.(type) {
			case *ssa.BinOp:
				if x.Op == token.REM || x.Op == token.AND {
					idx = x.X
					continue
				}
			case *ssa.Convert:
				idx = x.X
				continue
			}
			break
		}
		if isFieldLoad(idx, frN, posIdx) {
			derived = true
		}
		if !derived {
			ok = false
		}
	})
	c.fact("value-identity")
	c.Check(ok && n >= 1, "unmasking index follows frame.pos", p.Pos(fn.Pos()), "MaskingKey[frame.pos % 4]", "the masking key is indexed by something else than the frame's running payload position: a masked frame whose payload arrives in several reads (after a read whose length is not a multiple of 4) is unmasked with the wrong key bytes")
}

func runC06_10(c *Ctx) {
	p := c.P
	start := p.Fn(Root, "session", "printRunLog")
	seen := map[*ssa.Function]bool{}
	var fns []*ssa.Function
	var rec func(f *ssa.Function, d int)
	rec = func(f *ssa.Function, d int) {
		if f == nil || seen[f] || len(f.Blocks) == 0 || d > 5 || f.Pkg == nil || !strings.HasPrefix(f.Pkg.Pkg.Path(), Root) {
			return
		}
		seen[f] = true
		fns = append(fns, f)
		for _, call := range AllCalls(f) {
			rec(call.Common().StaticCallee(), d+1)
		}
	}
	rec(start, 0)
	nIdx := 0
	for _, fn := range fns {
		k := 0
		Instrs(fn, func(i ssa.Instruction) {
			var base, idx ssa.Value
			switch x := i.(type) {
			case *ssa.IndexAddr:
				base, idx = x.X, x.Index
			case *ssa.Lookup:
				if _, isMap := x.X.Type().Underlying().(*types.Map); isMap {
					return
				}
				base, idx = x.X, x.Index
			default:
				return
			}
			if _, isArr := base.Type().Underlying().(*types.Pointer); isArr {
				return // fixed-size arrays: the compiler bounds constant indexes; variable ones are table look-ups by byte
			}
			add, isAdd := idx.(*ssa.BinOp)
			if !isAdd || add.Op != token.ADD {
				return
			}
			off, isC := constI64(add.Y)
			if !isC || off <= 0 {
				return
			}
			nIdx++
			k++
			// a dominating comparison `x + c < len(base)` with c >= off
			guarded := false
			for _, blk := range fn.Blocks {
				ifi, isIf := blk.Instrs[len(blk.Instrs)-1].(*ssa.If)
				if !isIf {
					continue
				}
				cv, neg := stripNot(ifi.Cond)
				cmp, isCmp := cv.(*ssa.BinOp)
				if !isCmp || (cmp.Op != token.LSS && cmp.Op != token.GEQ) {
					continue
				}
				l, isAdd2 := cmp.X.(*ssa.BinOp)
				if !isAdd2 || l.Op != token.ADD || l.X != add.X {
					continue
				}
				c2, isC2 := constI64(l.Y)
				if !isC2 || c2 < off {
					continue
				}
				ln, isLen := cmp.Y.(*ssa.Call)
				if !isLen {
					continue
				}
				if b, isB := ln.Call.Value.(*ssa.Builtin); !isB || b.Name() != "len" || ln.Call.Args[0] != base {
					continue
				}
				within := blk.Succs[0]
				if (cmp.Op == token.GEQ) != neg {
					within = blk.Succs[1]
				}
				if BlockDominatesInstr(within, i) {
					guarded = true
				}
			}
			c.fact("dominance")
			c.Check(guarded, fmt.Sprintf("look-ahead index #%d in %s", k, FnName(fn)), p.InstrPos(i), "dominated by a comparison with len()", fmt.Sprintf("%s reads %d element(s) ahead of its cursor without comparing with the length: an input ending in the middle of the pattern panics - on the printRunLog path that panic is raised after the recover barriers, in a pool goroutine, and kills the process", FnName(fn), off))
		})
	}
	c.Hold("log rendering path scanned for look-ahead indexes", p.Pos(start.Pos()), fmt.Sprintf("%d functions reachable from printRunLog, %d look-ahead index expression(s)", len(fns), nIdx))
	if len(fns) < 5 {
		c.Undec("log rendering path", "", fmt.Sprintf("only %d functions reachable from printRunLog", len(fns)))
	}
}

func runC02_12(c *Ctx) {
	p := c.P
	fn := p.Fn(Root, "", "newSession")
	sessN, mapIdx := p.FieldIndex(Root, "session", "callCmdMap")
	ok := false
	what := "no store found"
	Instrs(fn, func(i ssa.Instruction) {
		st, isSt := i.(*ssa.Store)
		if !isSt || !isFieldAddr(st.Addr, sessN, mapIdx) {
			return
		}
		if call, isCall := stripIface(st.Val).(*ssa.Call); isCall && CalleeObj(call) != nil {
			what = CalleeObj(call).FullName()
			ok = what == "github.com/henrylee2cn/goutil.AtomicMap"
		}
	})
	c.fact("allocation-site")
	c.Check(ok, "pending-call table is an AtomicMap", p.Pos(fn.Pos()), "callCmdMap = goutil.AtomicMap()", "session.callCmdMap is created by "+what+": with a map whose Range holds its lock during the callback, the disconnect drain (Range -> cancel -> Delete) deadlocks on itself and no pending call ever completes")
}

func runC11_8(c *Ctx) {
	p := c.P
	want := map[string][]string{
		"JSONCodec":   {"encoding/json.Unmarshal"},
		"XMLCodec":    {"encoding/xml.Unmarshal"},
		"ProtoCodec":  {"github.com/gogo/protobuf/proto.Unmarshal", "github.com/golang/protobuf/proto.Unmarshal", codecPkg + ".ProtoUnmarshal"},
		"ThriftCodec": {codecPkg + ".ThriftUnmarshal"},
	}
	n := 0
	for typ, allowed := range want {
		fn := p.FnOpt(codecPkg, typ, "Unmarshal")
		if fn == nil {
			continue
		}
		n++
		checkDecoderCalls(c, p, fn, typ+".Unmarshal", allowed)
	}
	if pu := p.FnOpt(codecPkg, "", "ProtoUnmarshal"); pu != nil {
		n++
		checkDecoderCalls(c, p, pu, "ProtoUnmarshal", []string{"github.com/gogo/protobuf/proto.Unmarshal", "github.com/golang/protobuf/proto.Unmarshal"})
	}
	if n < 4 {
		c.Undec("library codecs", "", fmt.Sprintf("found %d library-backed decoders, expected >= 4", n))
	}
}

// checkDecoderCalls: every call of fn that is handed the data parameter goes to one of the allowed entry points.
func checkDecoderCalls(c *Ctx, p *Prog, fn *ssa.Function, name string, allowed []string) {
	var data ssa.Value
	for _, prm := range fn.Params {
		if sl, ok := prm.Type().Underlying().(*types.Slice); ok {
			if b, isB := sl.Elem().Underlying().(*types.Basic); isB && b.Kind() == types.Uint8 {
				data = prm
			}
		}
	}
	bad := ""
	hit := false
	for _, call := range AllCalls(fn) {
		uses := false
		for _, a := range call.Common().Args {
			if Resolve(a) == data {
				uses = true
			}
		}
		if !uses {
			continue
		}
		full := ""
		if o := CalleeObj(call); o != nil {
			full = o.FullName()
		}
		okCall := false
		for _, a := range allowed {
			if full == a {
				okCall = true
			}
		}
		if okCall {
			hit = true
		} else {
			bad = full
		}
	}
	c.fact("callee-table")
	c.Check(hit && bad == "", "decoder entry point of "+name, p.Pos(fn.Pos()), "delegates to "+strings.Join(allowed, " / "), name+" hands the input to "+bad+" instead of the library's resetting decoder ("+strings.Join(allowed, " / ")+"): the value is MERGED into whatever the destination already holds, so decoding the encoding of a value does not yield that value when the destination was used before")
}

func runC11_9(c *Ctx) {
	p := c.P
	fn := p.Fn(codecPkg, "", "parseProperType")
	var data ssa.Value
	for _, prm := range fn.Params {
		if sl, ok := prm.Type().Underlying().(*types.Slice); ok {
			if b, isB := sl.Elem().Underlying().(*types.Basic); isB && b.Kind() == types.Uint8 {
				data = prm
			}
		}
	}
	for _, setter := range []string{"SetString", "SetBytes"} {
		n, ok := 0, true
		for _, call := range AllCalls(fn) {
			o := CalleeObj(call)
			if o == nil || o.FullName() != "(reflect.Value)."+setter {
				continue
			}
			n++
			// the argument is data itself through copies: Convert(string <- data), append([]byte(nil) / make, data...), Slice of those
			v := CallArgs(call)[0]
			fromData := false
			for k := 0; k < 5 && v != nil; k++ {
				v = Resolve(v)
				if v == data {
					fromData = true
					break
				}
				switch x := v.(type) {
				case *ssa.Convert:
					v = x.X
				case *ssa.ChangeType:
					v = x.X
				case *ssa.Slice:
					v = x.X
				case *ssa.Call:
					if b, isB := x.Call.Value.(*ssa.Builtin); isB && b.Name() == "append" && len(x.Call.Args) == 2 {
						v = x.Call.Args[1]
					} else {
						v = nil
					}
				default:
					v = nil
				}
			}
			if !fromData {
				ok = false
			}
		}
		c.fact("value-identity")
		c.Check(ok && n >= 1, "plain codec "+setter+" stores the input bytes", p.Pos(fn.Pos()), "a copy of the data parameter itself", "parseProperType stores a transformed version of its input (not the data parameter itself) through "+setter+": strings / byte slices with leading or trailing white space (or whatever the transformation removes) do not round-trip")
	}
}

func runC18_10(c *Ctx) {
	p := c.P
	fn := p.Fn(olPkg, "Overloader", "updateConnLimiter")
	ctor := p.FuncObj(olPkg, "newConnLimiter")
	_, admIdx := p.FieldIndex(olPkg, "Overloader", "admitted")
	olN := p.Named(olPkg, "Overloader")
	ctors := CallsTo(fn, ctor)
	if len(ctors) != 1 {
		c.Undec("limiter creation counts the admitted sessions", p.Pos(fn.Pos()), fmt.Sprintf("expected one newConnLimiter call, found %d", len(ctors)))
		return
	}
	// after the creation: a Range over o.admitted whose callback counts, and the count handed to a method of the limiter
	// that adds it to the admission counter (tmp)
	_, tmpIdx := p.FieldIndex(olPkg, "connLimiter", "tmp")
	clN := p.Named(olPkg, "connLimiter")
	ranged, counted := false, false
	for _, in := range p.ReachableFrom(ctors[0], func(i ssa.Instruction) bool {
		call, ok := i.(*ssa.Call)
		return ok && CalleeObj(call) != nil && CalleeObj(call).Name() == "Range"
	}, nil, nil) {
		call := in.(*ssa.Call)
		if fr, _, ok := FieldOfAddr(CallRecv(call)); ok && fr.Struct == olN && fr.Index == admIdx {
			ranged = true
		}
	}
	for _, call := range AllCalls(fn) {
		h := call.Common().StaticCallee()
		if h == nil || h.Signature.Recv() == nil || derefNamed(h.Signature.Recv().Type()) != clN || !Dominates(ctors[0], call) {
			continue
		}
		// the method atomically adds its parameter to tmp
		Instrs(h, func(i ssa.Instruction) {
			ac, ok := i.(*ssa.Call)
			if !ok || CalleeObj(ac) == nil || CalleeObj(ac).FullName() != "sync/atomic.AddInt32" {
				return
			}
			if isFieldAddr(ac.Call.Args[0], clN, tmpIdx) && len(h.Params) == 2 && ac.Call.Args[1] == ssa.Value(h.Params[1]) {
				counted = true
			}
		})
	}
	c.fact("path-search")
	c.Check(ranged && counted, "limiter creation counts the admitted sessions", p.InstrPos(ctors[0]), "Range over the admission evidence, count added to the new limiter's admission counter", "updateConnLimiter creates the connection limiter at zero although sessions admitted earlier (under no limit) are still connected: their releases drive the counter negative and more than the limit is admitted")
}
