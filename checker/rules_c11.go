package main

import (
	"fmt"
	"go/token"
	"go/types"
	"sort"
	"strings"

	"golang.org/x/tools/go/ssa"
)

const codecPkg = Root + "/codec"

func init() {
	register(&Rule{ID: "C11.1", Prop: "C11", Min: 1,
		Text: "element order agreement (form codec): the loop that encodes the elements of a slice/array (setStructToForm) and the loops that assign the received values (mapFormToStruct) walk the indexes in the same direction, so element order survives a round trip",
		Run:  runC11_1})
	register(&Rule{ID: "C11.2", Prop: "C11", Min: 1,
		Text: "bounded array writes (form codec): a reflect.Value.Index(i) on a destination array whose index is bounded by the number of RECEIVED values is preceded by a comparison with the array's Len() whose failing edge returns an error - the decoder returns an error instead of panicking on surplus values",
		Run:  runC11_2})
	register(&Rule{ID: "C11.3", Prop: "C11", Min: 8,
		Text: "decoders fail cleanly: every Codec.Marshal/Unmarshal implementation returns the error of the library encoder/decoder it delegates to (json, xml, protobuf, thrift) and the plain/form codecs return an error for unsupported destinations",
		Run:  runC11_3})
	register(&Rule{ID: "C11.4", Prop: "C11", Min: 1,
		Text: "domain agreement (plain codec): formatProperType and parseProperType handle exactly the same set of reflect kinds, so every value that can be encoded can be decoded back into its type",
		Run:  runC11_4})
	register(&Rule{ID: "C11.5", Prop: "C11", Min: 6,
		Text: "decoded values do not alias the decoder's input buffer (same obligations as C01.8)",
		Run:  runC01_8})
	register(&Rule{ID: "C11.6", Prop: "C11", Min: 1,
		Text: "encoded bytes are the caller's: an encoder that takes its scratch object from a sync.Pool and puts it back (directly, deferred, or in a deferred closure) returns nothing that lives in that object (same obligations as C20.5) - otherwise the next Marshal overwrites an earlier result",
		Run:  runSyncPoolEscape})
	register(&Rule{ID: "C11.7", Prop: "C11", Min: 1,
		Text: "sequence fields are encoded element-wise (form codec): in setStructToForm a whole field is handed to formatProperType only on the edges where its Kind() is neither Slice nor Array - the decoder assigns one received value per element, so a []byte written as one raw string does not decode",
		Run:  runC11_7})
}

func runC11_7(c *Ctx) {
	p := c.P
	enc := p.Fn(codecPkg, "", "setStructToForm")
	format := p.FuncObj(codecPkg, "formatProperType")
	kinds := map[string]int64{}
	for _, k := range []string{"Slice", "Array"} {
		kinds[k] = p.ConstInt("reflect", k)
	}
	n := 0
	okAll := true
	bad := ""
	for _, call := range CallsTo(enc, format) {
		arg := CallArgs(call)[0]
		if ic, isCall := arg.(*ssa.Call); isCall {
			if o := CalleeObj(ic); o != nil && o.FullName() == "(reflect.Value).Index" {
				continue // an element
			}
		}
		n++
		for name, k := range kinds {
			excluded := false
			for _, ee := range EqEdges(enc) {
				kc, isCall := ee.X.(*ssa.Call)
				if !isCall || CalleeObj(kc) == nil || CalleeObj(kc).FullName() != "(reflect.Value).Kind" {
					continue
				}
				if kv, isC := ConstIntOf(ee.Y); !isC || kv != k {
					continue
				}
				if BlockDominatesInstr(ee.Ne, call) {
					excluded = true
				}
			}
			if !excluded {
				okAll = false
				bad = name
			}
		}
	}
	c.fact("dominance")
	c.Check(okAll && n >= 1, "whole-field formatting only for non-sequence kinds", p.Pos(enc.Pos()), fmt.Sprintf("%d whole-field formatProperType call(s), each on the Kind() != Slice and Kind() != Array edges", n),
		"setStructToForm hands a whole field to formatProperType although its kind may be "+bad+": a []byte (the helper's raw-bytes case) is written as one string while mapFormToStruct parses one number per element - the codec cannot decode its own output")
}

func reflectIndexCalls(fn *ssa.Function) []*ssa.Call {
	var out []*ssa.Call
	Instrs(fn, func(i ssa.Instruction) {
		if call, ok := i.(*ssa.Call); ok {
			if o := CalleeObj(call); o != nil && o.FullName() == "(reflect.Value).Index" {
				out = append(out, call)
			}
		}
	})
	return out
}

func runC11_1(c *Ctx) {
	p := c.P
	enc := p.Fn(codecPkg, "", "setStructToForm")
	dec := p.Fn(codecPkg, "", "mapFormToStruct")
	dirs := map[string][]string{}
	for name, fn := range map[string]*ssa.Function{"encode": enc, "decode": dec} {
		for _, call := range reflectIndexCalls(fn) {
			dirs[name] = append(dirs[name], loopDirection(call.Call.Args[1]))
		}
		sort.Strings(dirs[name])
	}
	all := append(append([]string{}, dirs["encode"]...), dirs["decode"]...)
	ok := len(dirs["encode"]) >= 1 && len(dirs["decode"]) >= 2
	for _, d := range all {
		if d != all[0] || (d != "ascending" && d != "descending") {
			ok = false
		}
	}
	c.fact("loop-shape")
	c.Check(ok, "form codec element order", p.Pos(enc.Pos()), fmt.Sprintf("encode %v, decode %v", dirs["encode"], dirs["decode"]),
		fmt.Sprintf("the form codec encodes slice/array elements %v but assigns received values %v: a round trip reverses (or scrambles) the element order", dirs["encode"], dirs["decode"]))
}

func runC11_2(c *Ctx) {
	p := c.P
	dec := p.Fn(codecPkg, "", "mapFormToStruct")
	n := 0
	for _, call := range reflectIndexCalls(dec) {
		recv := call.Call.Args[0]
		// indexes into a freshly made slice of the right length are bounded by construction
		if mk, ok := recv.(*ssa.Call); ok && CalleeObj(mk) != nil && CalleeObj(mk).FullName() == "reflect.MakeSlice" {
			continue
		}
		n++
		guarded := false
		for _, b := range dec.Blocks {
			ifi, isIf := b.Instrs[len(b.Instrs)-1].(*ssa.If)
			if !isIf {
				continue
			}
			bo, isB := ifi.Cond.(*ssa.BinOp)
			if !isB || (bo.Op != token.GTR && bo.Op != token.LSS && bo.Op != token.GEQ && bo.Op != token.LEQ) {
				continue
			}
			isLenOfRecv := func(v ssa.Value) bool {
				lc, ok := v.(*ssa.Call)
				return ok && CalleeObj(lc) != nil && CalleeObj(lc).FullName() == "(reflect.Value).Len" && lc.Call.Args[0] == recv
			}
			if !isLenOfRecv(bo.X) && !isLenOfRecv(bo.Y) {
				continue
			}
			// one edge returns a non-nil error, the other dominates the Index call
			for k, s := range b.Succs {
				other := b.Succs[1-k]
				w := &Walk{P: p}
				w.FromBlock(s)
				errRet := len(w.Exits) > 0
				for _, e := range w.Exits {
					if IsNilConst(ReturnVals(e.(*ssa.Return))[0]) {
						errRet = false
					}
				}
				if errRet && len(p.ReachableFromBlock(s, func(i ssa.Instruction) bool { return i == ssa.Instruction(call) }, nil, nil)) == 0 && (BlockDominatesInstr(other, call) || Dominates(ifi, call)) {
					guarded = true
				}
			}
		}
		c.fact("dominance")
		c.Check(guarded, "form codec array index bounded by the array", p.InstrPos(call), "surplus values are rejected with an error before indexing", "mapFormToStruct indexes a destination array with a loop bounded only by the number of received values: an input with more values than the array has elements makes reflect panic out of the decoder (in the session's reader goroutine)")
	}
	if n == 0 {
		c.Undec("form codec array index", p.Pos(dec.Pos()), "no Index call on a destination array found")
	}
}

func runC11_3(c *Ctx) {
	p := c.P
	codecIface := p.Named(codecPkg, "Codec").Underlying().(*types.Interface)
	libs := map[string]bool{"encoding/json.Marshal": true, "encoding/json.Unmarshal": true, "encoding/xml.Marshal": true, "encoding/xml.Unmarshal": true,
		"github.com/golang/protobuf/proto.Marshal": true, "github.com/golang/protobuf/proto.Unmarshal": true, "github.com/gogo/protobuf/proto.Marshal": true, "github.com/gogo/protobuf/proto.Unmarshal": true,
		"net/url.ParseQuery": true}
	n := 0
	for _, fn := range p.ShippedFuncs() {
		if fn.Pkg == nil || fn.Pkg.Pkg.Path() != codecPkg {
			continue
		}
		for _, call := range AllCalls(fn) {
			o := CalleeObj(call)
			if o == nil {
				continue
			}
			isLib := libs[o.FullName()]
			// thrift: TStruct.Read / Write
			if call.Common().IsInvoke() && (o.Name() == "Read" || o.Name() == "Write") && o.Pkg() != nil && strings.Contains(o.Pkg().Path(), "thrift") {
				isLib = true
			}
			if !isLib {
				continue
			}
			n++
			idx := 0
			if tup, ok := call.(ssa.Value).Type().(*types.Tuple); ok {
				idx = tup.Len() - 1
			}
			c.fact("error-use")
			c.Check(errChecked(call, idx), "library codec error honoured in "+FnName(fn), p.InstrPos(call), o.FullName()+" error returned/checked", "the error of "+o.FullName()+" is dropped: undecodable input is reported as success with a partially filled value")
		}
	}
	// every Codec implementation's Unmarshal has an error return on some path (unsupported destination)
	for _, fn := range p.ShippedFuncs() {
		if fn.Pkg == nil || fn.Pkg.Pkg.Path() != codecPkg || fn.Name() != "Unmarshal" || fn.Signature.Recv() == nil {
			continue
		}
		rt := fn.Signature.Recv().Type()
		if !types.Implements(rt, codecIface) && !types.Implements(types.NewPointer(rt), codecIface) {
			continue
		}
		n++
		nonNil := false
		Instrs(fn, func(i ssa.Instruction) {
			if r, ok := i.(*ssa.Return); ok && !IsNilConst(ReturnVals(r)[0]) {
				nonNil = true
			}
		})
		c.Check(nonNil, "codec "+FnName(fn)+" can fail", p.Pos(fn.Pos()), "has an error return", "this Unmarshal never returns an error: garbage is always accepted")
	}
	if n < 8 {
		c.Undec("codec library calls", "", fmt.Sprintf("found %d, expected >= 8", n))
	}
}

// kindCases collects the reflect.Kind constants a function compares v.Kind() with.
func kindCases(fn *ssa.Function) []string {
	set := map[string]bool{}
	Instrs(fn, func(i ssa.Instruction) {
		bo, ok := i.(*ssa.BinOp)
		if !ok || bo.Op != token.EQL {
			return
		}
		call, ok := bo.X.(*ssa.Call)
		if !ok || CalleeObj(call) == nil || CalleeObj(call).FullName() != "(reflect.Value).Kind" {
			return
		}
		if cst, ok := bo.Y.(*ssa.Const); ok && cst.Value != nil {
			set[cst.Value.ExactString()] = true
		}
	})
	return sortedKeys(set)
}

func runC11_4(c *Ctx) {
	p := c.P
	f := p.Fn(codecPkg, "", "formatProperType")
	g := p.Fn(codecPkg, "", "parseProperType")
	a, b := kindCases(f), kindCases(g)
	// the pointer-unwrapping loop compares with reflect.Ptr in both; drop it
	c.fact("constant-sets")
	c.Check(len(a) >= 10 && strings.Join(a, ",") == strings.Join(b, ","), "plain codec kinds agree", p.Pos(f.Pos()), fmt.Sprintf("%d kinds on both sides", len(a)), fmt.Sprintf("formatProperType handles kinds %v but parseProperType handles %v: some values encode but cannot be decoded back (or vice versa)", a, b))
}
