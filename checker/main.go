// tpcheck decides structural clauses of the teleport (eRPC v6) properties by static
// analysis of /repo's current working tree (go/packages + go/ssa + call graph).
package main

import (
	"encoding/json"
	"flag"
	"fmt"
	"os"
	"path/filepath"
	"sort"
	"strconv"
	"strings"
	"time"
)

var (
	flagProp    = flag.String("prop", "", "property id (C01..C20) or 'all'")
	flagTier    = flag.String("tier", "quick", "quick|thorough")
	flagRepo    = flag.String("repo", "/repo", "repository to analyse")
	flagVerif   = flag.String("verif", "/verif", "verification directory (evidence, known findings)")
	flagReplay  = flag.String("replay", "", "re-evaluate the rule instance recorded in this replay file")
	flagList    = flag.Bool("list", false, "list rules")
	flagV       = flag.Bool("v", false, "print every instance")
	flagNoEv    = flag.Bool("no-evidence", false, "do not write evidence (used by variant sub-runs)")
	flagRules   = flag.String("rules", "", "comma separated rule ids to restrict to (variant sub-runs)")
	flagJSON    = flag.Bool("json", false, "print instances as JSON lines (variant sub-runs)")
	flagOverlay = flag.String("overlay", "", "JSON file {path: replacement-file} applied as go/packages overlay (variant sub-runs)")
)

type replayFile struct {
	Property string   `json:"property"`
	Instance Instance `json:"instance"`
	RuleText string   `json:"rule_text"`
	Repo     string   `json:"repo"`
	When     string   `json:"when"`
}

func main() {
	flag.Parse()
	if *flagList {
		for _, r := range rules {
			fmt.Printf("%s %s min=%d  %s\n", r.Prop, r.ID, r.Min, r.Text)
		}
		return
	}
	if *flagReplay != "" {
		os.Exit(doReplay(*flagReplay))
	}
	if *flagProp == "" {
		fmt.Fprintln(os.Stderr, "usage: tpcheck -prop Cxx [-tier quick|thorough]")
		os.Exit(2)
	}
	if v := os.Getenv("VERIF_TIER"); v != "" && !isFlagSet("tier") {
		*flagTier = v
	}
	props := []string{*flagProp}
	if *flagProp == "all" {
		props = allProps()
	}
	overlay, err := readOverlay(*flagOverlay)
	if err != nil {
		fmt.Fprintln(os.Stderr, "ERROR overlay:", err)
		os.Exit(2)
	}
	t0 := time.Now()
	var extraEnv []string
	if a := os.Getenv("TPCHECK_GOARCH"); a != "" {
		extraEnv = append(extraEnv, "GOARCH="+a, "GOOS=linux", "CGO_ENABLED=0")
	}
	p, err := Load(*flagRepo, overlay, extraEnv...)
	if err != nil {
		fmt.Printf("ERROR load: %v\n", err)
		// a tree that does not type-check cannot be judged: failed check, no verdict
		os.Exit(2)
	}
	loadS := time.Since(t0).Seconds()
	code := 0
	for _, prop := range props {
		if c := runProperty(p, prop, loadS); c > code {
			code = c
		}
	}
	os.Exit(code)
}

func isFlagSet(name string) bool {
	set := false
	flag.Visit(func(f *flag.Flag) {
		if f.Name == name {
			set = true
		}
	})
	return set
}

func readOverlay(path string) (map[string][]byte, error) {
	if path == "" {
		return nil, nil
	}
	b, err := os.ReadFile(path)
	if err != nil {
		return nil, err
	}
	var m map[string]string
	if err := json.Unmarshal(b, &m); err != nil {
		return nil, err
	}
	out := map[string][]byte{}
	for k, v := range m {
		c, err := os.ReadFile(v)
		if err != nil {
			return nil, err
		}
		out[k] = c
	}
	return out, nil
}

func allProps() []string {
	seen := map[string]bool{}
	var out []string
	for _, r := range rules {
		if !seen[r.Prop] {
			seen[r.Prop] = true
			out = append(out, r.Prop)
		}
	}
	sort.Strings(out)
	return out
}

func seed() int {
	n, _ := strconv.Atoi(os.Getenv("VERIF_SEED"))
	return n
}

func runProperty(p *Prog, prop string, loadS float64) int {
	t0 := time.Now()
	rs := rulesFor(prop)
	if *flagRules != "" {
		want := map[string]bool{}
		for _, id := range strings.Split(*flagRules, ",") {
			want[strings.TrimSpace(id)] = true
		}
		var f []*Rule
		for _, r := range rs {
			if want[r.ID] {
				f = append(f, r)
			}
		}
		rs = f
	}
	if len(rs) == 0 {
		fmt.Printf("ERROR no rules registered for property %s\n", prop)
		return 2
	}
	known, fixed, err := loadKnown(filepath.Join(*flagVerif, "known_findings.txt"))
	if err != nil {
		fmt.Printf("ERROR %v\n", err)
		return 2
	}
	// controls: the engines must fire on the seeded bad examples and stay silent on good ones
	ctrlRan, ctrlErr := runControls(prop)
	if ctrlErr != nil {
		fmt.Printf("ERROR controls: %v\n", ctrlErr)
		return 2
	}

	var all []Instance
	var sums []ruleSummary
	usedKnown := map[int]bool{}
	for _, r := range rs {
		insts, facts := runRule(p, r)
		s := ruleSummary{Rule: r.ID, Text: r.Text, Instances: len(insts), MinFrozen: r.Min, Facts: facts}
		for i := range insts {
			in := &insts[i]
			if in.Verdict == Violated {
				for ki, k := range known {
					if k.Prop == prop && k.Rule == in.Rule && k.Site == in.Key {
						in.Known = k.What
						usedKnown[ki] = true
					}
				}
			}
			switch {
			case in.Verdict == Holds:
				s.Holds++
			case in.Verdict == Violated && in.Known != "":
				s.Known++
			case in.Verdict == Violated:
				s.Violated++
			default:
				s.Undecided++
			}
		}
		sums = append(sums, s)
		all = append(all, insts...)
	}

	if *flagJSON {
		enc := json.NewEncoder(os.Stdout)
		for _, in := range all {
			enc.Encode(in)
		}
	}

	// report
	replayDir := filepath.Join(*flagVerif, "evidence", "replay")
	nViol, nKnown, nHold, nNontriv := 0, 0, 0, 0
	distinct := map[string]bool{}
	var samples []interface{}
	var violLines []string
	perRuleSample := map[string]int{}
	for _, in := range all {
		if in.Nontrivial && !distinct[in.Rule+"|"+in.Key] {
			distinct[in.Rule+"|"+in.Key] = true
			nNontriv++
		}
		if perRuleSample[in.Rule] < 3 || in.Verdict != Holds {
			perRuleSample[in.Rule]++
			samples = append(samples, in)
		}
		switch {
		case in.Verdict == Holds:
			nHold++
			if *flagV {
				fmt.Printf("ok    %s %s  %s  %s\n", in.Rule, in.Key, in.Pos, in.Msg)
			}
		case in.Verdict == Violated && in.Known != "":
			nKnown++
			fmt.Printf("KNOWN-FINDING: property=%s rule=%s site=%s at %s :: %s\n", prop, in.Rule, in.Key, in.Pos, in.Known)
		default:
			nViol++
			rp := filepath.Join(replayDir, fmt.Sprintf("%s-%s-%s.json", prop, in.Rule, safeName(in.Key)))
			if !*flagNoEv {
				_ = writeJSON(rp, replayFile{Property: prop, Instance: in, RuleText: ruleText(in.Rule), Repo: *flagRepo, When: time.Now().Format(time.RFC3339)})
			}
			tag := "violated"
			if in.Verdict == Undecided {
				tag = "UNDECIDED"
			}
			fmt.Printf("%s rule=%s site=%s at %s :: %s\n", tag, in.Rule, in.Key, in.Pos, in.Msg)
			for _, s := range in.Path {
				fmt.Printf("      path: %s\n", s)
			}
			violLines = append(violLines, fmt.Sprintf("VIOLATION property=%s replay=%s", prop, rp))
		}
	}
	for ki, k := range known {
		if k.Prop == prop && !usedKnown[ki] && (*flagRules == "") {
			// a known finding that no longer reproduces is stale: say so (not an alarm)
			fmt.Printf("NOTE stale known finding (no longer reported by the rule): property=%s rule=%s site=%s\n", k.Prop, k.Rule, k.Site)
		}
	}
	for _, l := range violLines {
		fmt.Println(l)
	}

	// thorough tier: seeded variants must be caught, and a second build configuration must agree
	var vres []variantResult
	var cfgNotes []string
	if *flagTier == "thorough" && *flagOverlay == "" && *flagRules == "" && os.Getenv("TPCHECK_GOARCH") == "" {
		vres = runVariants(prop)
		for _, r := range vres {
			fmt.Printf("VARIANT %s expect=%v -> %s %v\n", r.Name, r.Rules, r.Outcome, r.Fired)
			if r.Outcome == "MISSED" {
				// the checker does not detect a confirmed breaking change it claims to detect: the machinery is broken, not the tree
				fmt.Printf("ERROR variant %s of property %s is not detected by rule(s) %v\n", r.Name, prop, r.Rules)
				machineryBroken = true
			}
			if r.Outcome == "FALSE-ALARM" {
				// a behaviour-preserving refactoring is reported: the rule is wrong, not the tree
				fmt.Printf("ERROR refactoring %s raises a false alarm for property %s: %v\n", r.Name, prop, r.Fired)
				machineryBroken = true
			}
		}
		qv := map[string]bool{}
		for _, in := range all {
			if in.Verdict != Holds && in.Known == "" {
				qv[in.Rule] = true
			}
		}
		same, detail := runOtherConfig(prop, qv, "386")
		cfgNotes = append(cfgNotes, detail)
		fmt.Printf("CONFIG %s same=%v\n", detail, same)
		if !same {
			fmt.Printf("UNDECIDED rule=%s site=build-configuration at  :: verdicts differ between linux/amd64 and linux/386: %s\n", prop+".cfg", detail)
			rp := filepath.Join(replayDir, fmt.Sprintf("%s-cfg-386.json", prop))
			_ = writeJSON(rp, map[string]string{"property": prop, "detail": detail})
			fmt.Printf("VIOLATION property=%s replay=%s\n", prop, rp)
			nViol++
		}
	}

	wall := time.Since(t0).Seconds() + loadS
	nfn := len(p.ShippedFuncs())
	fmt.Printf("SUMMARY property=%s tier=%s rules=%d instances=%d holds=%d known=%d violations=%d controls=%d shipped_pkgs=%d shipped_funcs=%d wall=%.1fs\n",
		prop, *flagTier, len(rs), len(all), nHold, nKnown, nViol, ctrlRan, len(p.Shipped), nfn, wall)

	if !*flagNoEv {
		var fixedHere []string
		for _, f := range fixed {
			if strings.Contains(f, "property="+prop+" ") {
				fixedHere = append(fixedHere, f)
			}
		}
		pk := []string{}
		for _, sp := range p.Shipped {
			pk = append(pk, strings.TrimPrefix(sp.Pkg.Path(), Root))
		}
		ev := evidence{
			PropertyID: prop, Tier: *flagTier, Seed: seed(), Level: "other",
			Coverage: map[string]interface{}{
				"explanation": "Static analysis (go/packages type-checked program, go/ssa CFG + dominators, VTA call graph) of /repo's working tree. " +
					"Decides the structural clauses listed under 'rules' (each a necessary condition of the property; DESIGN.md section 3." + prop + "), not the behaviour itself. " +
					"An obligation is one rule instance keyed by resolved function/field/callee; 'discharged' counts instances that hold; known findings are listed separately.",
				"evaluations":         len(all),
				"distinct_nontrivial": nNontriv,
				"rule":                "one evaluation = one rule instance (rule id + resolved construct); non-trivial = the verdict needed at least one dominance, path-search, access-set, call-graph or value-flow query (as opposed to a table lookup); distinct = distinct (rule,key)",
				"obligations":         len(all),
				"discharged":          nHold,
				"known_findings":      nKnown,
				"undischarged":        nViol,
				"rules":               sums,
				"samples":             samples,
				"controls_run":        ctrlRan,
				"packages_analysed":   pk,
				"functions_analysed":  nfn,
				"fixed_entries":       fixedHere,
				"exhaustive":          false,
				"checker_cmd":         "/verif/bin/tpcheck -prop " + prop + " -tier " + *flagTier,
				"load_s":              loadS,
				"variants":            vres,
				"configurations":      append([]string{"linux/amd64 (default)"}, cfgNotes...),
			},
			Assumptions: assumptionsFor(prop),
			WallS:       wall,
			Violations:  nViol,
		}
		if err := writeJSON(filepath.Join(*flagVerif, "evidence", prop+".json"), ev); err != nil {
			fmt.Printf("ERROR writing evidence: %v\n", err)
			return 2
		}
	}
	if machineryBroken {
		return 2
	}
	if nViol > 0 {
		return 1
	}
	return 0
}

var machineryBroken bool

func ruleText(id string) string {
	for _, r := range rules {
		if r.ID == id {
			return r.Text
		}
	}
	return ""
}

func doReplay(path string) int {
	b, err := os.ReadFile(path)
	if err != nil {
		fmt.Println("ERROR", err)
		return 2
	}
	var rf replayFile
	if err := json.Unmarshal(b, &rf); err != nil {
		fmt.Println("ERROR", err)
		return 2
	}
	p, err := Load(*flagRepo, nil)
	if err != nil {
		fmt.Printf("ERROR load: %v\n", err)
		return 2
	}
	for _, r := range rules {
		if r.ID != rf.Instance.Rule {
			continue
		}
		insts, _ := runRule(p, r)
		for _, in := range insts {
			if in.Key == rf.Instance.Key {
				fmt.Printf("replay rule=%s site=%s verdict=%s at %s :: %s\n", in.Rule, in.Key, in.Verdict, in.Pos, in.Msg)
				for _, s := range in.Path {
					fmt.Printf("      path: %s\n", s)
				}
				if in.Verdict != Holds {
					fmt.Printf("VIOLATION property=%s replay=%s\n", rf.Property, path)
					return 1
				}
				return 0
			}
		}
		fmt.Printf("replay: instance %s of rule %s no longer exists on this tree\n", rf.Instance.Key, r.ID)
		return 0
	}
	fmt.Println("ERROR unknown rule", rf.Instance.Rule)
	return 2
}

var commonAssumptions = []string{
	"go/types, go/ssa (x/tools v0.29.0) model the program faithfully; analysis is of the default build configuration (linux/amd64) unless the thorough tier says otherwise",
	"packages under examples/, socket/example and mixer/evio/bench do not type-check on the pinned tree and are not shipped framework code: excluded",
	"third-party dependencies (goutil, thrift, gogo/protobuf, quic-go, kcp-go, websocket fork internals) are not analysed beyond their type signatures",
	"aliasing is treated field-based (all instances of T.f are one location); reflection and unsafe are not followed",
}

var propAssumptions = map[string][]string{}

func assumptionsFor(prop string) []string {
	return append(append([]string{}, commonAssumptions...), propAssumptions[prop]...)
}
