package main

import (
	"fmt"
	"go/token"
	"go/types"

	"golang.org/x/tools/go/ssa"
)

func init() {
	register(&Rule{ID: "C08.1", Prop: "C08", Min: 1,
		Text: "close order in closeLocked is a dominance chain: CAS to ActiveClosing -> index delete -> notifyClosed -> wait for running handlers (graceCtxWait) -> wait for issued calls (graceCallCmdWaitGroup.Wait) -> ActiveClosed -> socket.Close -> postDisconnect; the socket is never closed before both waits",
		Run:  runC08_1})
	register(&Rule{ID: "C08.2", Prop: "C08", Min: 5,
		Text: "handler wait-group pairing: graceCtxWaitGroup.Add(1) dominates the dispatch; the dispatched closure releases it exactly once after handle() (deferred putContext(ctx,true)); the Go()-failed path releases it exactly once; Push pairs getContext(s,true) with a deferred putContext(ctx,true); getContext/putContext Add/Done exactly under withWg",
		Run:  runC08_2})
	register(&Rule{ID: "C08.3", Prop: "C08", Min: 2,
		Text: "while closing actively replies may still be written and frames still read: goonRead() accepts exactly {Ok, ActiveClosing} (write side: C07.5); graceCtxWait waits on graceCtxWaitGroup under graceCtxMutex",
		Run:  runC08_3})
	register(&Rule{ID: "C08.5", Prop: "C08", Min: 3,
		Text: "an entered handler's reply is written whatever the session's closing state: every normal path of handleCall passes writeReply (no early return that skips the reply once the handler ran); same obligations as C03.4 (the write gate C07.5 admits replies while closing actively)",
		Run:  runC03_4})
	register(&Rule{ID: "C08.4", Prop: "C08", Min: 3,
		Text: "peer.Close joins all sessions: the accept-stopping listener close dominates the session range; each ranged session gets exactly one asynchronous sess.Close whose result is sent to the error channel and counted; exactly `count` results are received before returning",
		Run:  runC08_4})
	register(&Rule{ID: "C08.6", Prop: "C08", Min: 2,
		Text: "frames read while closing gracefully are still delivered: the only status predicates consulted by the read loop (startReadAndHandle) are goonRead() or a checkStatus with exactly {Ok, ActiveClosing} - a narrower gate drops the replies the graceful wait is waiting for",
		Run:  runC08_6})
	register(&Rule{ID: "C08.7", Prop: "C08", Min: 2,
		Text: "every Close waits: (*session).Close takes the session lock and reaches closeLocked on every path - a status-based early return before the lock lets an overlapping Close return while handlers are still running and their replies unwritten",
		Run:  runC08_7})
}

// readsStatus: does fn (following static calls inside the root package, depth <= 2) load session.status?
func readsStatus(p *Prog, fn *ssa.Function, depth int) bool {
	if fn == nil || len(fn.Blocks) == 0 || depth > 2 {
		return false
	}
	sessN, statusIdx := p.FieldIndex(Root, "session", "status")
	found := false
	Instrs(fn, func(i ssa.Instruction) {
		call, ok := i.(ssa.CallInstruction)
		if !ok {
			return
		}
		if o := CalleeObj(call); o != nil && isAtomicFn(o) && len(call.Common().Args) > 0 && isFieldAddr(call.Common().Args[0], sessN, statusIdx) {
			found = true
			return
		}
		if sc := call.Common().StaticCallee(); sc != nil && sc != fn && sc.Pkg == fn.Pkg && readsStatus(p, sc, depth+1) {
			found = true
		}
	})
	return found
}

func runC08_6(c *Ctx) {
	p := c.P
	st := p.statusTable()
	fn := p.Fn(Root, "session", "startReadAndHandle")
	goon := p.MethodObj(Root, "session", "goonRead")
	check := p.MethodObj(Root, "session", "checkStatus")
	n := 0
	idx := map[string]int{}
	for _, call := range AllCalls(fn) {
		if _, isCall := call.(*ssa.Call); !isCall {
			continue
		}
		sc := call.Common().StaticCallee()
		if sc == nil || sc.Signature.Results().Len() != 1 {
			continue
		}
		if b, ok := sc.Signature.Results().At(0).Type().Underlying().(*types.Basic); !ok || b.Kind() != types.Bool {
			continue
		}
		if !readsStatus(p, sc, 0) {
			continue
		}
		n++
		key := "status predicate " + sc.Name() + " in read loop"
		idx[key]++
		if idx[key] > 1 {
			key = fmt.Sprintf("%s#%d", key, idx[key])
		}
		o := CalleeObj(call)
		switch {
		case o == goon:
			c.Hold(key, p.InstrPos(call), "goonRead() (its state set is decided by C08.3)")
		case o == check:
			vals, okv := VariadicInts(CallArgs(call)[0])
			var m uint32
			for _, v := range vals {
				m |= 1 << st.bits[v]
			}
			c.Check(okv && m == st.mask("statusOk", "statusActiveClosing"), key, p.InstrPos(call), "checkStatus(Ok, ActiveClosing)",
				"the read loop gates on checkStatus("+st.names(m)+") instead of {Ok,ActiveClosing}: frames read while the session closes gracefully (replies to its own pending calls) are dropped, or a closed session keeps dispatching")
		default:
			c.Viol(key, p.InstrPos(call), "the read loop consults "+sc.Name()+"() instead of goonRead(): the set of states in which frames are delivered is no longer {Ok, ActiveClosing}")
		}
	}
	c.fact("call-site census")
	if n < 2 {
		c.Undec("read loop gates", p.Pos(fn.Pos()), fmt.Sprintf("found %d status predicates in the read loop, expected >= 2", n))
	}
}

func runC08_7(c *Ctx) {
	p := c.P
	fn := p.Fn(Root, "session", "Close")
	closeLocked := p.MethodObj(Root, "session", "closeLocked")
	sessN, lockIdx := p.FieldIndex(Root, "session", "lock")
	all, exits := p.MustPassFromEntry(fn, func(i ssa.Instruction) bool {
		_, isCall := i.(*ssa.Call)
		return isCall && IsCallTo(i, closeLocked)
	}, nil)
	c.fact("must-pass")
	var path []string
	for _, e := range exits {
		path = append(path, "return without closeLocked: "+p.InstrPos(e))
	}
	c.Check(all, "Close always reaches closeLocked", p.Pos(fn.Pos()), "every path of Close() calls closeLocked()",
		"Close() can return without entering closeLocked (and without queueing on the session lock): an overlapping Close returns while the first one is still waiting for handlers - the caller tears the connection down under a running handler and its reply is lost", path...)
	okLock := len(CallsTo(fn, closeLocked)) > 0
	for _, call := range CallsTo(fn, closeLocked) {
		if !heldAtMode(p, fn, sessN, lockIdx, call, true) {
			okLock = false
		}
	}
	c.fact("dominance")
	c.Check(okLock, "Close holds the session lock", p.Pos(fn.Pos()), "s.lock.Lock() dominates closeLocked()", "Close() enters closeLocked without the session lock: overlapping closes no longer serialise (the second returns before the first finished waiting)")
}

func runC08_1(c *Ctx) {
	p := c.P
	fn := p.Fn(Root, "session", "closeLocked")
	st := p.statusTable()
	try := p.MethodObj(Root, "session", "tryChangeStatus")
	change := p.MethodObj(Root, "session", "changeStatus")
	sessN, wgIdx := p.FieldIndex(Root, "session", "graceCallCmdWaitGroup")
	wgWait := p.MethodObj("sync", "WaitGroup", "Wait")
	find := func(what string, pred func(ssa.Instruction) bool) ssa.Instruction {
		var out ssa.Instruction
		n := 0
		Instrs(fn, func(i ssa.Instruction) {
			if pred(i) {
				out = i
				n++
			}
		})
		if n != 1 {
			anchorFail("closeLocked: expected exactly one %s, found %d", what, n)
		}
		return out
	}
	steps := []struct {
		name string
		in   ssa.Instruction
	}{
		{"CAS->ActiveClosing", find("tryChangeStatus", func(i ssa.Instruction) bool { return IsCallTo(i, try) })},
		{"sessHub.delete", find("sessHub.delete", func(i ssa.Instruction) bool { return IsCallTo(i, p.MethodObj(Root, "SessionHub", "delete")) })},
		{"notifyClosed", find("notifyClosed", func(i ssa.Instruction) bool { return IsCallTo(i, p.MethodObj(Root, "session", "notifyClosed")) })},
		{"graceCtxWait", find("graceCtxWait", func(i ssa.Instruction) bool { return IsCallTo(i, p.MethodObj(Root, "session", "graceCtxWait")) })},
		{"graceCallCmdWaitGroup.Wait", find("graceCallCmdWaitGroup.Wait", func(i ssa.Instruction) bool {
			call, ok := i.(ssa.CallInstruction)
			return ok && CalleeObj(call) == wgWait && isFieldAddr(call.Common().Args[0], sessN, wgIdx)
		})},
		{"changeStatus(ActiveClosed)", find("changeStatus(ActiveClosed)", func(i ssa.Instruction) bool {
			call, ok := i.(ssa.CallInstruction)
			if !ok || CalleeObj(call) != change {
				return false
			}
			k, _ := ConstIntOf(CallArgs(call)[0])
			return st.name[k] == "statusActiveClosed"
		})},
		{"socket.Close", find("socket.Close", func(i ssa.Instruction) bool { return IsCallTo(i, p.MethodObj(Root+"/socket", "Socket", "Close")) })},
		{"postDisconnect", find("postDisconnect", func(i ssa.Instruction) bool {
			return IsCallTo(i, p.MethodObj(Root, "pluginSingleContainer", "postDisconnect"))
		})},
	}
	ok := true
	bad := ""
	for k := 0; k+1 < len(steps); k++ {
		c.fact("dominance")
		if !Dominates(steps[k].in, steps[k+1].in) {
			ok = false
			bad += fmt.Sprintf("%s does not precede %s; ", steps[k].name, steps[k+1].name)
		}
	}
	// the CAS must guard everything: the delete is on its true edge
	guard := false
	for _, e := range CondCallEdges(fn, try) {
		if BlockDominatesInstr(e.True, steps[1].in) {
			guard = true
		}
	}
	c.Check(ok && guard, "closeLocked order", p.Pos(fn.Pos()), "CAS -> delete -> notify -> wait handlers -> wait calls -> ActiveClosed -> socket.Close -> postDisconnect",
		"graceful close order broken in closeLocked: "+bad+"(a reply of a running handler or of an issued call can be lost because the socket closes first, or new work is accepted after the waits)")
}

// putContextWithWg lists calls to putContext with constant withWg == want in fn.
func putContextCalls(p *Prog, fn *ssa.Function, want bool) []ssa.CallInstruction {
	put := p.MethodObj(Root, "peer", "putContext")
	var out []ssa.CallInstruction
	for _, call := range CallsTo(fn, put) {
		if cst, ok := CallArgs(call)[1].(*ssa.Const); ok && cst.Value != nil && (cst.Value.String() == "true") == want {
			out = append(out, call)
		}
	}
	return out
}

func runC08_2(c *Ctx) {
	p := c.P
	loop := p.Fn(Root, "session", "startReadAndHandle")
	sessN, wgIdx := p.FieldIndex(Root, "session", "graceCtxWaitGroup")
	wgAdd := p.MethodObj("sync", "WaitGroup", "Add")
	wgDone := p.MethodObj("sync", "WaitGroup", "Done")
	goF := p.FuncObj(Root, "Go")
	handle := p.MethodObj(Root, "handlerCtx", "handle")
	getContext := p.MethodObj(Root, "peer", "getContext")
	isAdd := func(i ssa.Instruction) bool {
		call, ok := i.(ssa.CallInstruction)
		if !ok || CalleeObj(call) != wgAdd || !isFieldAddr(call.Common().Args[0], sessN, wgIdx) {
			return false
		}
		k, okc := ConstIntOf(call.Common().Args[1])
		return okc && k == 1
	}
	for _, e := range CondCallEdges(loop, goF) {
		// Add dominates dispatch
		dom := false
		Instrs(loop, func(i ssa.Instruction) {
			if isAdd(i) && Dominates(i, e.Call) {
				dom = true
			}
		})
		c.fact("dominance")
		c.Check(dom, "read loop: Add(1) before dispatch", p.InstrPos(e.Call), "graceCtxWaitGroup.Add(1) dominates Go(...)", "the handler goroutine is dispatched without first registering in graceCtxWaitGroup: Close() can finish while the handler is still running and its reply is lost")
		// dispatched closure: deferred putContext(ctx,true), handle() once
		cl := closureArg(e.Call, 0)
		okCl := false
		if cl != nil {
			defers := 0
			Instrs(cl, func(i ssa.Instruction) {
				if d, ok := i.(*ssa.Defer); ok && CalleeObj(d) == p.MethodObj(Root, "peer", "putContext") {
					if cst, ok := CallArgs(d)[1].(*ssa.Const); ok && cst.Value != nil && cst.Value.String() == "true" {
						// the defer must dominate handle()
						for _, h := range CallsTo(cl, handle) {
							if Dominates(i, h) {
								defers++
							}
						}
					}
				}
			})
			okCl = defers == 1 && len(putContextCalls(p, cl, true)) == 1
		}
		c.Check(okCl, "dispatched closure releases once after handle()", p.InstrPos(e.Call), "defer putContext(ctx,true) dominates handle(); no other release", "the dispatched closure does not release graceCtxWaitGroup exactly once after handle() (Close() hangs for ever or returns before the reply is written)")
		// Go-failed edge: exactly one putContext(ctx,true) before the next iteration
		isPutTrue := func(i ssa.Instruction) bool {
			for _, pc := range putContextCalls(p, loop, true) {
				if i == pc.(ssa.Instruction) {
					return true
				}
			}
			return false
		}
		w := &Walk{P: p, Stop: func(i ssa.Instruction) bool { return isPutTrue(i) || IsCallTo(i, getContext) }}
		w.FromBlock(e.False)
		okFail := len(w.Exits) == 0 && len(w.Hits) > 0
		for _, h := range w.Hits {
			if !isPutTrue(h) {
				okFail = false
				continue
			}
			// no second release before next iteration
			again := p.ReachableFrom(h, isPutTrue, func(i ssa.Instruction) bool { return IsCallTo(i, getContext) }, nil)
			if len(again) > 0 {
				okFail = false
			}
		}
		// and not released on the success edge by the loop itself
		onSucc := p.ReachableFromBlock(e.True, isPutTrue, func(i ssa.Instruction) bool { return IsCallTo(i, getContext) }, nil)
		if e.True != e.False && len(onSucc) > 0 {
			okFail = false
		}
		c.fact("path-search")
		c.Check(okFail, "Go()-failed path releases exactly once", p.InstrPos(e.If), "putContext(ctx,true) once on the failed edge, none on the success edge", "wait-group release on the Go()-failed / success edges of the read loop is not exactly-once")
	}
	// Push
	push := p.Fn(Root, "session", "Push")
	okPush := false
	for _, gc := range CallsTo(push, getContext) {
		if cst, ok := CallArgs(gc)[1].(*ssa.Const); ok && cst.Value != nil && cst.Value.String() == "true" {
			for _, d := range deferredClosures(push) {
				all, _ := p.MustPassFromEntry(d, func(i ssa.Instruction) bool {
					for _, pc := range putContextCalls(p, d, true) {
						if i == pc.(ssa.Instruction) {
							return true
						}
					}
					return false
				}, nil)
				if all && len(putContextCalls(p, d, true)) == 1 {
					okPush = true
				}
			}
		}
	}
	c.fact("must-pass")
	c.Check(okPush, "Push pairs getContext(s,true) with deferred putContext(ctx,true)", p.Pos(push.Pos()), "acquire with wait-group, release once in the deferred closure on every path", "Push does not pair its wait-group acquire/release exactly once")
	// getContext / putContext: Add / Done exactly on the withWg edge
	for _, s := range []struct {
		fn  string
		m   *types.Func
		idx int
	}{{"getContext", wgAdd, 1}, {"putContext", wgDone, 1}} {
		fn := p.Fn(Root, "peer", s.fn)
		withWg := fn.Params[2]
		var calls []ssa.CallInstruction
		for _, call := range CallsTo(fn, s.m) {
			if isFieldAddr(call.Common().Args[0], sessN, wgIdx) {
				calls = append(calls, call)
			}
		}
		ok := len(calls) == 1
		if ok {
			ok = false
			for _, b := range fn.Blocks {
				ifi, isIf := b.Instrs[len(b.Instrs)-1].(*ssa.If)
				if !isIf {
					continue
				}
				cv, neg := stripNot(ifi.Cond)
				if cv != ssa.Value(withWg) {
					continue
				}
				t, f := b.Succs[0], b.Succs[1]
				if neg {
					t, f = f, t
				}
				// on the true edge: exactly the call, and it is on every path from there
				w := &Walk{P: p, Stop: func(i ssa.Instruction) bool { return i == calls[0].(ssa.Instruction) }}
				w.FromBlock(t)
				reachF := p.ReachableFromBlock(f, func(i ssa.Instruction) bool { return i == calls[0].(ssa.Instruction) }, nil, nil)
				if len(w.Exits) == 0 && len(w.Hits) > 0 && BlockDominatesInstr(t, calls[0]) && (len(reachF) == 0 || t == f) {
					ok = true
				}
			}
		}
		c.fact("dominance+must-pass")
		c.Check(ok, s.fn+" counts iff withWg", p.Pos(fn.Pos()), "graceCtxWaitGroup."+s.m.Name()+" exactly on the withWg edge", s.fn+" does not "+s.m.Name()+" graceCtxWaitGroup exactly when withWg is true: the handler count drifts (Close hangs or returns early)")
	}
}

func runC08_3(c *Ctx) {
	p := c.P
	st := p.statusTable()
	goon := p.Fn(Root, "session", "goonRead")
	check := p.MethodObj(Root, "session", "checkStatus")
	calls := CallsTo(goon, check)
	ok := false
	got := ""
	if len(calls) == 1 {
		vals, okv := VariadicInts(CallArgs(calls[0])[0])
		if okv {
			var m uint32
			for _, v := range vals {
				m |= 1 << st.bits[v]
			}
			got = st.names(m)
			ok = m == st.mask("statusOk", "statusActiveClosing")
		}
	}
	c.fact("constants")
	c.Check(ok, "goonRead accepts {Ok, ActiveClosing}", p.Pos(goon.Pos()), "reads continue while closing actively, and only then", "goonRead() accepts "+got+" instead of exactly {Ok,ActiveClosing}: replies to calls issued before Close() are no longer read (or a closed session keeps reading)")
	// checkStatus really compares the loaded status with each element
	cs := p.Fn(Root, "session", "checkStatus")
	hasLoad := false
	Instrs(cs, func(i ssa.Instruction) {
		if call, isC := i.(*ssa.Call); isC && CalleeObj(call) != nil && CalleeObj(call).FullName() == "sync/atomic.LoadInt32" {
			hasLoad = true
		}
	})
	retTrueOnEq := false
	seenIf := map[*ssa.If]bool{}
	for _, ee := range EqEdges(cs) {
		if seenIf[ee.If] {
			continue
		}
		seenIf[ee.If] = true
		// the equal edge returns true
		for _, in := range ee.Eq.Instrs {
			if r, isR := in.(*ssa.Return); isR {
				if cst, isC := r.Results[0].(*ssa.Const); isC && cst.Value != nil && cst.Value.String() == "true" {
					retTrueOnEq = true
				}
			}
		}
	}
	c.Check(hasLoad && retTrueOnEq, "checkStatus = membership of the atomically loaded status", p.Pos(cs.Pos()), "atomic load; true iff equal to a listed value", "checkStatus no longer tests membership of the atomically loaded status")
	// graceCtxWait
	gw := p.Fn(Root, "session", "graceCtxWait")
	sessN, wgIdx := p.FieldIndex(Root, "session", "graceCtxWaitGroup")
	_, muIdx := p.FieldIndex(Root, "session", "graceCtxMutex")
	var l, wt, u ssa.Instruction
	Instrs(gw, func(i ssa.Instruction) {
		call, isC := i.(*ssa.Call)
		if !isC || CalleeObj(call) == nil {
			return
		}
		switch CalleeObj(call).FullName() {
		case "(*sync.Mutex).Lock":
			if isFieldAddr(call.Call.Args[0], sessN, muIdx) {
				l = i
			}
		case "(*sync.Mutex).Unlock":
			if isFieldAddr(call.Call.Args[0], sessN, muIdx) {
				u = i
			}
		case "(*sync.WaitGroup).Wait":
			if isFieldAddr(call.Call.Args[0], sessN, wgIdx) {
				wt = i
			}
		}
	})
	c.Check(l != nil && wt != nil && u != nil && Dominates(l, wt) && Dominates(wt, u), "graceCtxWait waits for the handler wait-group under its mutex", p.Pos(gw.Pos()), "Lock; graceCtxWaitGroup.Wait; Unlock", "graceCtxWait no longer waits for graceCtxWaitGroup (under graceCtxMutex): Close() does not wait for running handlers")
}

func runC08_4(c *Ctx) {
	p := c.P
	fn := p.Fn(Root, "peer", "Close")
	rangeCb := p.MethodObj(Root, "SessionHub", "rangeCallback")
	mustGo := p.FuncObj(Root, "MustGo")
	sessClose := p.MethodObj(Root, "session", "Close")
	lisClose := p.MethodObj("net", "Listener", "Close")
	rcs := CallsTo(fn, rangeCb)
	if len(rcs) != 1 {
		c.Undec("peer.Close range", p.Pos(fn.Pos()), fmt.Sprintf("expected one sessHub.rangeCallback, found %d", len(rcs)))
		return
	}
	cb := closureArg(rcs[0], 0)
	if cb == nil {
		c.Undec("peer.Close range callback", p.InstrPos(rcs[0]), "callback is not a closure literal")
		return
	}
	// listeners closed before ranging sessions
	domLis := false
	for _, call := range CallsTo(fn, lisClose) {
		if Dominates(call, rcs[0]) || call.Block().Dominates(rcs[0].Block()) {
			domLis = true
		}
	}
	// the listener-closing loop precedes the range: some net.Listener.Close call sits in a block from which the range is reachable and which is not reachable from the range
	if !domLis {
		for _, call := range CallsTo(fn, lisClose) {
			fwd := p.ReachableFrom(call, func(i ssa.Instruction) bool { return i == rcs[0].(ssa.Instruction) }, nil, nil)
			back := p.ReachableFrom(rcs[0], func(i ssa.Instruction) bool { return i == call.(ssa.Instruction) }, nil, nil)
			if len(fwd) > 0 && len(back) == 0 {
				domLis = true
			}
		}
	}
	c.fact("path-search")
	c.Check(domLis, "listeners stop accepting before sessions are drained", p.InstrPos(rcs[0]), "a listener Close loop precedes the session range", "peer.Close ranges the sessions before (or without) closing the listeners: connections accepted meanwhile are never closed")
	// callback: one count++ and one MustGo(closure sending sess.Close()) on every path
	var incs []ssa.Instruction
	var countCell ssa.Value
	Instrs(cb, func(i ssa.Instruction) {
		st, ok := i.(*ssa.Store)
		if !ok {
			return
		}
		bo, ok := st.Val.(*ssa.BinOp)
		if !ok || bo.Op != token.ADD {
			return
		}
		if k, okc := ConstIntOf(bo.Y); !okc || k != 1 {
			return
		}
		if u, ok := bo.X.(*ssa.UnOp); ok && u.Op == token.MUL && u.X == st.Addr {
			incs = append(incs, i)
			countCell = st.Addr
		}
	})
	var errChInCb ssa.Value
	okGo := false
	mgs := CallsTo(cb, mustGo)
	if len(mgs) == 1 {
		if inner := closureArg(mgs[0], 0); inner != nil {
			Instrs(inner, func(i ssa.Instruction) {
				if s, ok := i.(*ssa.Send); ok {
					if call, ok := s.X.(*ssa.Call); ok && CalleeObj(call) == sessClose {
						okGo = true
						errChInCb = s.Chan
					}
				}
			})
		}
	}
	okCb := len(incs) == 1 && okGo
	if okCb {
		a, _ := p.MustPassFromEntry(cb, func(i ssa.Instruction) bool { return i == incs[0] }, nil)
		b, _ := p.MustPassFromEntry(cb, func(i ssa.Instruction) bool { return i == mgs[0].(ssa.Instruction) }, nil)
		okCb = a && b
	}
	c.fact("must-pass")
	c.Check(okCb, "one counted asynchronous Close per session", p.Pos(cb.Pos()), "count++ and MustGo(func(){ errCh <- sess.Close() }) once on every path of the callback", "the range callback does not launch exactly one counted sess.Close per session: peer.Close returns before all sessions are closed or blocks for ever")
	_ = errChInCb
	// receive loop bounded by count
	okRecv := false
	if countCell != nil {
		// the cell in Close bound to the callback's free variable
		var cell ssa.Value
		if fv, ok := countCell.(*ssa.FreeVar); ok {
			cell = freeVarBinding(fv)
		}
		for _, b := range fn.Blocks {
			ifi, isIf := b.Instrs[len(b.Instrs)-1].(*ssa.If)
			if !isIf {
				continue
			}
			bo, isB := ifi.Cond.(*ssa.BinOp)
			if !isB || bo.Op != token.LSS {
				continue
			}
			u, isU := bo.Y.(*ssa.UnOp)
			if !isU || u.Op != token.MUL || u.X != cell {
				continue
			}
			if _, isPhi := bo.X.(*ssa.Phi); !isPhi {
				continue
			}
			// body (true successor) contains a channel receive and the loop is after the range
			for _, in := range b.Succs[0].Instrs {
				if r, isR := in.(*ssa.UnOp); isR && r.Op == token.ARROW {
					if len(p.ReachableFrom(rcs[0], func(i ssa.Instruction) bool { return i == in }, nil, nil)) > 0 {
						okRecv = true
					}
				}
			}
		}
	}
	c.fact("loop-shape")
	c.Check(okRecv, "exactly count results are awaited", p.Pos(fn.Pos()), "for i < count { <-errCh } after the range", "peer.Close does not wait for one result per launched session close: it returns while sessions are still closing")
}
