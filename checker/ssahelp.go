package main

import (
	"fmt"
	"go/constant"
	"go/token"
	"go/types"
	"sort"
	"strings"

	"golang.org/x/tools/go/ssa"
)

// ---------------------------------------------------------------- anchors

// AnchorErr is raised (via panic) when a rule's anchor cannot be resolved; the
// rule runner converts it into an UNDECIDED instance.
type AnchorErr struct{ Msg string }

func anchorFail(format string, a ...interface{}) {
	panic(AnchorErr{fmt.Sprintf(format, a...)})
}

// Named returns the named type pkg.name.
func (p *Prog) Named(pkgPath, name string) *types.Named {
	pk := p.SSAPkg[pkgPath]
	if pk == nil {
		anchorFail("package %s not loaded", pkgPath)
	}
	obj := pk.Pkg.Scope().Lookup(name)
	if obj == nil {
		anchorFail("type %s.%s not found", pkgPath, name)
	}
	tn, ok := obj.(*types.TypeName)
	if !ok {
		anchorFail("%s.%s is not a type", pkgPath, name)
	}
	n, ok := types.Unalias(tn.Type()).(*types.Named)
	if !ok {
		anchorFail("%s.%s is not a named type", pkgPath, name)
	}
	return n
}

// MethodObj resolves the method `name` of type pkg.typ (pointer receiver method set,
// or interface method) to its types.Func.
func (p *Prog) MethodObj(pkgPath, typ, name string) *types.Func {
	n := p.Named(pkgPath, typ)
	var T types.Type = n
	if _, isIface := n.Underlying().(*types.Interface); !isIface {
		T = types.NewPointer(n)
	}
	obj, _, _ := types.LookupFieldOrMethod(T, true, n.Obj().Pkg(), name)
	f, ok := obj.(*types.Func)
	if !ok {
		anchorFail("method %s.%s.%s not found", pkgPath, typ, name)
	}
	return f
}

// FuncObj resolves a package-level function.
func (p *Prog) FuncObj(pkgPath, name string) *types.Func {
	pk := p.SSAPkg[pkgPath]
	if pk == nil {
		anchorFail("package %s not loaded", pkgPath)
	}
	f, ok := pk.Pkg.Scope().Lookup(name).(*types.Func)
	if !ok {
		anchorFail("func %s.%s not found", pkgPath, name)
	}
	return f
}

// Fn returns the SSA function of a method (typ != "") or package function.
func (p *Prog) Fn(pkgPath, typ, name string) *ssa.Function {
	var obj *types.Func
	if typ == "" {
		obj = p.FuncObj(pkgPath, name)
	} else {
		obj = p.MethodObj(pkgPath, typ, name)
	}
	fn := p.SSA.FuncValue(obj)
	if fn == nil || fn.Blocks == nil {
		anchorFail("no SSA body for %s", obj.FullName())
	}
	return fn
}

// FnOpt is Fn but returns nil instead of failing.
func (p *Prog) FnOpt(pkgPath, typ, name string) (fn *ssa.Function) {
	defer func() {
		if r := recover(); r != nil {
			if _, ok := r.(AnchorErr); ok {
				fn = nil
				return
			}
			panic(r)
		}
	}()
	return p.Fn(pkgPath, typ, name)
}

// Global returns a package-level variable.
func (p *Prog) Global(pkgPath, name string) *ssa.Global {
	pk := p.SSAPkg[pkgPath]
	if pk == nil {
		anchorFail("package %s not loaded", pkgPath)
	}
	g, ok := pk.Members[name].(*ssa.Global)
	if !ok {
		anchorFail("global %s.%s not found", pkgPath, name)
	}
	return g
}

// ConstVal returns the constant value of pkg.name.
func (p *Prog) ConstVal(pkgPath, name string) constant.Value {
	pk := p.SSAPkg[pkgPath]
	if pk == nil {
		anchorFail("package %s not loaded", pkgPath)
	}
	c, ok := pk.Pkg.Scope().Lookup(name).(*types.Const)
	if !ok {
		anchorFail("const %s.%s not found", pkgPath, name)
	}
	return c.Val()
}

func (p *Prog) ConstInt(pkgPath, name string) int64 {
	v, ok := constant.Int64Val(constant.ToInt(p.ConstVal(pkgPath, name)))
	if !ok {
		anchorFail("const %s.%s not an int", pkgPath, name)
	}
	return v
}

// FieldIndex returns the index of field `name` in struct type pkg.typ.
func (p *Prog) FieldIndex(pkgPath, typ, name string) (*types.Named, int) {
	n := p.Named(pkgPath, typ)
	st, ok := n.Underlying().(*types.Struct)
	if !ok {
		anchorFail("%s.%s is not a struct", pkgPath, typ)
	}
	for i := 0; i < st.NumFields(); i++ {
		if st.Field(i).Name() == name {
			return n, i
		}
	}
	anchorFail("field %s.%s.%s not found", pkgPath, typ, name)
	return nil, 0
}

// ---------------------------------------------------------------- functions and calls

// WithAnon returns fn and all its (transitively) nested anonymous functions.
func WithAnon(fn *ssa.Function) []*ssa.Function {
	out := []*ssa.Function{fn}
	for _, a := range fn.AnonFuncs {
		out = append(out, WithAnon(a)...)
	}
	return out
}

// Instrs calls f for every instruction of fn (not nested closures).
func Instrs(fn *ssa.Function, f func(ssa.Instruction)) {
	for _, b := range fn.Blocks {
		for _, i := range b.Instrs {
			f(i)
		}
	}
}

// CalleeObj returns the resolved callee of a call instruction: the *types.Func of a
// statically called function/method or of the invoked interface method; nil for
// calls of function values (closures, fields) and builtins.
func CalleeObj(c ssa.CallInstruction) *types.Func {
	cc := c.Common()
	if cc.IsInvoke() {
		return cc.Method
	}
	if sc := cc.StaticCallee(); sc != nil {
		if o, ok := sc.Object().(*types.Func); ok {
			return o
		}
		// instantiations / wrappers
		if sc.Origin() != nil {
			if o, ok := sc.Origin().Object().(*types.Func); ok {
				return o
			}
		}
	}
	return nil
}

// StaticFn returns the statically known SSA callee (function, method or closure).
func StaticFn(c ssa.CallInstruction) *ssa.Function {
	cc := c.Common()
	if cc.IsInvoke() {
		return nil
	}
	if sc := cc.StaticCallee(); sc != nil {
		return sc
	}
	// immediately-invoked or locally bound closure
	if mc, ok := cc.Value.(*ssa.MakeClosure); ok {
		if f, ok := mc.Fn.(*ssa.Function); ok {
			return f
		}
	}
	return nil
}

// CallsTo lists call instructions (call/go/defer) in fn whose resolved callee is target.
func CallsTo(fn *ssa.Function, target *types.Func) []ssa.CallInstruction {
	var out []ssa.CallInstruction
	Instrs(fn, func(i ssa.Instruction) {
		if c, ok := i.(ssa.CallInstruction); ok && CalleeObj(c) == target {
			out = append(out, c)
		}
	})
	return out
}

// IsCallTo reports whether instruction i is a plain call (not go/defer unless
// allowDefer) to target.
func IsCallTo(i ssa.Instruction, targets ...*types.Func) bool {
	c, ok := i.(ssa.CallInstruction)
	if !ok {
		return false
	}
	o := CalleeObj(c)
	if o == nil {
		return false
	}
	for _, t := range targets {
		if o == t {
			return true
		}
	}
	return false
}

// AllCalls lists every call instruction in fn.
func AllCalls(fn *ssa.Function) []ssa.CallInstruction {
	var out []ssa.CallInstruction
	Instrs(fn, func(i ssa.Instruction) {
		if c, ok := i.(ssa.CallInstruction); ok {
			out = append(out, c)
		}
	})
	return out
}

func idxIn(i ssa.Instruction) int {
	for k, x := range i.Block().Instrs {
		if x == i {
			return k
		}
	}
	return -1
}

// Dominates: instruction a dominates instruction b (same function).
func Dominates(a, b ssa.Instruction) bool {
	if a.Parent() != b.Parent() {
		return false
	}
	if a.Block() == b.Block() {
		return idxIn(a) < idxIn(b)
	}
	return a.Block().Dominates(b.Block())
}

// ---------------------------------------------------------------- no-return summaries

func (p *Prog) computeNoReturn() {
	p.noRet = map[*ssa.Function]bool{}
	base := map[string]bool{"os.Exit": true, "runtime.Goexit": true, "log.Fatal": true, "log.Fatalf": true, "log.Fatalln": true, "log.Panic": true, "log.Panicf": true}
	isNoRetCall := func(i ssa.Instruction) bool {
		c, ok := i.(*ssa.Call)
		if !ok {
			return false
		}
		if sf := StaticFn(c); sf != nil {
			if p.noRet[sf] {
				return true
			}
			if sf.Object() != nil && base[sf.Object().(interface{ FullName() string }).FullName()] {
				return true
			}
		}
		return false
	}
	fns := p.ShippedFuncs()
	for changed := true; changed; {
		changed = false
		for _, fn := range fns {
			if p.noRet[fn] || fn.Recover != nil {
				continue
			}
			// can a Return be reached from entry, cutting at no-return calls?
			seen := map[*ssa.BasicBlock]bool{}
			var returns bool
			var walk func(b *ssa.BasicBlock)
			walk = func(b *ssa.BasicBlock) {
				if seen[b] || returns {
					return
				}
				seen[b] = true
				for _, i := range b.Instrs {
					if isNoRetCall(i) {
						return
					}
					if _, ok := i.(*ssa.Return); ok {
						returns = true
						return
					}
				}
				for _, s := range b.Succs {
					walk(s)
				}
			}
			walk(fn.Blocks[0])
			if !returns {
				p.noRet[fn] = true
				changed = true
			}
		}
	}
}

// NoReturnCall reports whether instruction i is a call that never returns
// (os.Exit, or a shipped function all of whose paths end in exit/panic).
func (p *Prog) NoReturnCall(i ssa.Instruction) bool {
	if p.noRet == nil {
		p.computeNoReturn()
	}
	c, ok := i.(*ssa.Call)
	if !ok {
		return false
	}
	sf := StaticFn(c)
	if sf == nil {
		return false
	}
	if p.noRet[sf] {
		return true
	}
	if o, ok := sf.Object().(*types.Func); ok {
		switch o.FullName() {
		case "os.Exit", "runtime.Goexit", "log.Fatal", "log.Fatalf", "log.Fatalln":
			return true
		}
	}
	return false
}

// ---------------------------------------------------------------- path search

// Walk is a forward exploration of the CFG at instruction granularity.
type Walk struct {
	P *Prog
	// Stop: if it returns true the instruction is recorded as a hit and the walk
	// does not continue past it.
	Stop func(ssa.Instruction) bool
	// EdgeOK (optional): whether to follow the edge from block b to its k-th successor.
	EdgeOK func(b *ssa.BasicBlock, k int) bool
	// PanicIsExit: treat ssa.Panic as a function exit (default: it is a cut, i.e. the
	// path ends without counting as a normal exit).
	PanicIsExit bool

	Hits    []ssa.Instruction
	Exits   []ssa.Instruction // Return (or Panic) instructions reached
	visited map[*ssa.BasicBlock]bool
}

// From explores all paths starting just after instruction `from` (or at the start of
// its block when from == nil and blk != nil).
func (w *Walk) From(from ssa.Instruction) *Walk {
	w.visited = map[*ssa.BasicBlock]bool{}
	b := from.Block()
	w.scan(b, idxIn(from)+1)
	return w
}

// FromBlock explores paths starting at the beginning of block b.
func (w *Walk) FromBlock(b *ssa.BasicBlock) *Walk {
	if w.visited == nil {
		w.visited = map[*ssa.BasicBlock]bool{}
	}
	w.enter(b)
	return w
}

func (w *Walk) enter(b *ssa.BasicBlock) {
	if w.visited[b] {
		return
	}
	w.visited[b] = true
	w.scan(b, 0)
}

func (w *Walk) scan(b *ssa.BasicBlock, start int) {
	for k := start; k < len(b.Instrs); k++ {
		i := b.Instrs[k]
		if w.Stop != nil && w.Stop(i) {
			w.Hits = append(w.Hits, i)
			return
		}
		if w.P != nil && w.P.NoReturnCall(i) {
			return
		}
		switch i.(type) {
		case *ssa.Return:
			w.Exits = append(w.Exits, i)
			return
		case *ssa.Panic:
			if w.PanicIsExit {
				w.Exits = append(w.Exits, i)
			}
			return
		}
	}
	for k, s := range b.Succs {
		if w.EdgeOK != nil && !w.EdgeOK(b, k) {
			continue
		}
		w.enter(s)
	}
}

// MustPassBeforeExit: every path from just after `from` to a function exit passes an
// instruction satisfying `pass`. Returns the offending exits otherwise.
func (p *Prog) MustPassBeforeExit(from ssa.Instruction, pass func(ssa.Instruction) bool, edgeOK func(*ssa.BasicBlock, int) bool) (ok bool, exits []ssa.Instruction) {
	w := (&Walk{P: p, Stop: pass, EdgeOK: edgeOK}).From(from)
	return len(w.Exits) == 0, w.Exits
}

// MustPassFromEntry: every path from function entry to a normal exit passes `pass`.
func (p *Prog) MustPassFromEntry(fn *ssa.Function, pass func(ssa.Instruction) bool, edgeOK func(*ssa.BasicBlock, int) bool) (ok bool, exits []ssa.Instruction) {
	w := (&Walk{P: p, Stop: pass, EdgeOK: edgeOK}).FromBlock(fn.Blocks[0])
	return len(w.Exits) == 0, w.Exits
}

// ReachableFrom lists instructions satisfying `target` that are reachable from just
// after `from` (not continuing past hits), optionally avoiding `avoid` instructions.
func (p *Prog) ReachableFrom(from ssa.Instruction, target func(ssa.Instruction) bool, avoid func(ssa.Instruction) bool, edgeOK func(*ssa.BasicBlock, int) bool) []ssa.Instruction {
	var hits []ssa.Instruction
	w := &Walk{P: p, EdgeOK: edgeOK}
	w.Stop = func(i ssa.Instruction) bool {
		if target(i) {
			hits = append(hits, i)
			return true
		}
		if avoid != nil && avoid(i) {
			return true
		}
		return false
	}
	w.From(from)
	return hits
}

// ReachableFromBlock is ReachableFrom starting at the top of a block.
func (p *Prog) ReachableFromBlock(b *ssa.BasicBlock, target func(ssa.Instruction) bool, avoid func(ssa.Instruction) bool, edgeOK func(*ssa.BasicBlock, int) bool) []ssa.Instruction {
	var hits []ssa.Instruction
	w := &Walk{P: p, EdgeOK: edgeOK}
	w.Stop = func(i ssa.Instruction) bool {
		if target(i) {
			hits = append(hits, i)
			return true
		}
		if avoid != nil && avoid(i) {
			return true
		}
		return false
	}
	w.FromBlock(b)
	return hits
}

// ---------------------------------------------------------------- conditions

// CondEdge describes an `if` on a boolean call result.
type CondEdge struct {
	If    *ssa.If
	Call  *ssa.Call // the call producing the condition
	Recv  ssa.Value // receiver / first argument
	True  *ssa.BasicBlock
	False *ssa.BasicBlock
}

// stripNot follows !x chains; returns underlying value and whether negated.
func stripNot(v ssa.Value) (ssa.Value, bool) {
	neg := false
	for {
		u, ok := v.(*ssa.UnOp)
		if !ok || u.Op != token.NOT {
			return v, neg
		}
		v = u.X
		neg = !neg
	}
}

// CondCallEdges lists the `if` instructions in fn whose condition is (possibly negated)
// the result of a call to target.
func CondCallEdges(fn *ssa.Function, target *types.Func) []CondEdge {
	var out []CondEdge
	for _, b := range fn.Blocks {
		if len(b.Instrs) == 0 {
			continue
		}
		ifi, ok := b.Instrs[len(b.Instrs)-1].(*ssa.If)
		if !ok {
			continue
		}
		v, neg := stripNot(ifi.Cond)
		c, ok := v.(*ssa.Call)
		if !ok || CalleeObj(c) != target {
			continue
		}
		e := CondEdge{If: ifi, Call: c, True: b.Succs[0], False: b.Succs[1]}
		if neg {
			e.True, e.False = e.False, e.True
		}
		if c.Call.IsInvoke() {
			e.Recv = c.Call.Value
		} else if len(c.Call.Args) > 0 {
			e.Recv = c.Call.Args[0]
		}
		out = append(out, e)
	}
	return out
}

// EdgeIndex returns which successor index of b leads to s (first match).
func EdgeIndex(b, s *ssa.BasicBlock) int {
	for k, x := range b.Succs {
		if x == s {
			return k
		}
	}
	return -1
}

// ---------------------------------------------------------------- values

// ConstIntOf returns the int64 constant a value denotes, if any.
func ConstIntOf(v ssa.Value) (int64, bool) {
	for {
		switch x := v.(type) {
		case *ssa.Const:
			if x.Value == nil {
				return 0, false
			}
			if x.Value.Kind() != constant.Int {
				return 0, false
			}
			n, ok := constant.Int64Val(x.Value)
			return n, ok
		case *ssa.Convert:
			v = x.X
		case *ssa.ChangeType:
			v = x.X
		default:
			return 0, false
		}
	}
}

// FieldRef identifies struct field access.
type FieldRef struct {
	Struct *types.Named
	Index  int
}

func (f FieldRef) String() string {
	st := f.Struct.Underlying().(*types.Struct)
	return f.Struct.Obj().Name() + "." + st.Field(f.Index).Name()
}

func derefNamed(t types.Type) *types.Named {
	t = types.Unalias(t)
	if pt, ok := t.Underlying().(*types.Pointer); ok {
		t = types.Unalias(pt.Elem())
	}
	n, _ := t.(*types.Named)
	return n
}

// FieldOfAddr returns the field addressed by a FieldAddr value.
func FieldOfAddr(v ssa.Value) (FieldRef, *ssa.FieldAddr, bool) {
	fa, ok := v.(*ssa.FieldAddr)
	if !ok {
		return FieldRef{}, nil, false
	}
	n := derefNamed(fa.X.Type())
	if n == nil {
		return FieldRef{}, nil, false
	}
	return FieldRef{n, fa.Field}, fa, true
}

// LoadedField: if v is a load (*fa) of a struct field, returns that field.
func LoadedField(v ssa.Value) (FieldRef, *ssa.FieldAddr, bool) {
	u, ok := v.(*ssa.UnOp)
	if !ok || u.Op != token.MUL {
		if f, ok := v.(*ssa.Field); ok {
			n := derefNamed(f.X.Type())
			if n != nil {
				return FieldRef{n, f.Field}, nil, true
			}
		}
		return FieldRef{}, nil, false
	}
	return FieldOfAddr(u.X)
}

// AccessKind classifies a field access.
type AccessKind int

const (
	AccRead AccessKind = iota
	AccWrite
	AccAtomic // &f passed to a sync/atomic function
	AccAddr   // address taken otherwise (method call on the field, passed on, ...)
)

func (k AccessKind) String() string {
	return [...]string{"read", "write", "atomic", "addr"}[k]
}

// FieldAccess is one access to a struct field.
type FieldAccess struct {
	Field FieldRef
	Kind  AccessKind
	Fn    *ssa.Function
	Instr ssa.Instruction
	Via   string // for AccAtomic: the atomic function; for AccAddr: callee if any
}

func isAtomicFn(o *types.Func) bool {
	return o != nil && o.Pkg() != nil && o.Pkg().Path() == "sync/atomic"
}

// FieldAccesses collects all accesses to fields of struct `n` in shipped code.
func (p *Prog) FieldAccesses(n *types.Named) []FieldAccess {
	var out []FieldAccess
	for _, fn := range p.ShippedFuncs() {
		Instrs(fn, func(i ssa.Instruction) {
			switch x := i.(type) {
			case *ssa.FieldAddr:
				if derefNamed(x.X.Type()) != n {
					return
				}
				fr := FieldRef{n, x.Field}
				refs := x.Referrers()
				if refs == nil || len(*refs) == 0 {
					return
				}
				for _, r := range *refs {
					switch y := r.(type) {
					case *ssa.Store:
						if y.Addr == x {
							out = append(out, FieldAccess{fr, AccWrite, fn, r, ""})
						} else {
							out = append(out, FieldAccess{fr, AccAddr, fn, r, "stored"})
						}
					case *ssa.UnOp:
						if y.Op == token.MUL {
							out = append(out, FieldAccess{fr, AccRead, fn, r, ""})
						}
					case ssa.CallInstruction:
						o := CalleeObj(y)
						if isAtomicFn(o) {
							out = append(out, FieldAccess{fr, AccAtomic, fn, r, o.Name()})
						} else {
							via := ""
							if o != nil {
								via = o.FullName()
							}
							out = append(out, FieldAccess{fr, AccAddr, fn, r, via})
						}
					case *ssa.DebugRef:
					default:
						out = append(out, FieldAccess{fr, AccAddr, fn, r, fmt.Sprintf("%T", r)})
					}
				}
			case *ssa.Field:
				if derefNamed(x.X.Type()) == n {
					out = append(out, FieldAccess{FieldRef{n, x.Field}, AccRead, fn, i, ""})
				}
			}
		})
	}
	return out
}

// ---------------------------------------------------------------- names

// FnName is a stable display name for a function (closures: parent$N).
func FnName(fn *ssa.Function) string {
	s := fn.String()
	s = strings.ReplaceAll(s, Root, "erpc")
	return s
}

func sortedKeys[M ~map[string]V, V any](m M) []string {
	ks := make([]string, 0, len(m))
	for k := range m {
		ks = append(ks, k)
	}
	sort.Strings(ks)
	return ks
}

// EnclosingTop returns the outermost parent of a (possibly anonymous) function.
func EnclosingTop(fn *ssa.Function) *ssa.Function {
	for fn.Parent() != nil {
		fn = fn.Parent()
	}
	return fn
}

// ---------------------------------------------------------------- captured-variable cells

// cellStores returns all values stored into the heap cell `a` (an Alloc of a captured
// local) in its function and in every closure that captures it; ok=false when the
// cell's address escapes in a way that is not understood.
func cellStores(a *ssa.Alloc) (vals []ssa.Value, ok bool) {
	ok = true
	var visit func(addr ssa.Value)
	visit = func(addr ssa.Value) {
		refs := addr.Referrers()
		if refs == nil {
			return
		}
		for _, r := range *refs {
			switch x := r.(type) {
			case *ssa.Store:
				if x.Addr == addr {
					vals = append(vals, x.Val)
				} else {
					ok = false
				}
			case *ssa.UnOp, *ssa.DebugRef:
			case *ssa.MakeClosure:
				fn, _ := x.Fn.(*ssa.Function)
				if fn == nil {
					ok = false
					continue
				}
				for bi, b := range x.Bindings {
					if b == addr && bi < len(fn.FreeVars) {
						visit(fn.FreeVars[bi])
					}
				}
			default:
				ok = false
			}
		}
	}
	visit(a)
	return
}

// Resolve follows loads of captured-variable cells that are assigned exactly one
// value, and strips no-op conversions, returning the underlying SSA value.
func Resolve(v ssa.Value) ssa.Value {
	for n := 0; n < 16; n++ {
		switch x := v.(type) {
		case *ssa.UnOp:
			if x.Op != token.MUL {
				return v
			}
			var cell *ssa.Alloc
			switch y := x.X.(type) {
			case *ssa.Alloc:
				cell = y
			case *ssa.FreeVar:
				// find the binding in the parent's MakeClosure
				if b := freeVarBinding(y); b != nil {
					if a, ok := b.(*ssa.Alloc); ok {
						cell = a
					}
				}
			}
			if cell == nil {
				return v
			}
			vals, ok := cellStores(cell)
			if !ok || len(vals) == 0 {
				return v
			}
			first := vals[0]
			for _, o := range vals[1:] {
				if o != first {
					return v
				}
			}
			v = first
		case *ssa.ChangeType:
			v = x.X
		default:
			return v
		}
	}
	return v
}

// freeVarBinding returns the value bound to free variable fv at the (unique)
// MakeClosure site of its function in the parent.
func freeVarBinding(fv *ssa.FreeVar) ssa.Value {
	fn := fv.Parent()
	par := fn.Parent()
	if par == nil {
		return nil
	}
	idx := -1
	for i, f := range fn.FreeVars {
		if f == fv {
			idx = i
		}
	}
	if idx < 0 {
		return nil
	}
	var out ssa.Value
	n := 0
	Instrs(par, func(i ssa.Instruction) {
		if mc, ok := i.(*ssa.MakeClosure); ok && mc.Fn == fn {
			out = mc.Bindings[idx]
			n++
		}
	})
	if n != 1 {
		return nil
	}
	// binding may itself be a free var of the parent (nested closures)
	if pfv, ok := out.(*ssa.FreeVar); ok {
		return freeVarBinding(pfv)
	}
	return out
}

// IsRecvField reports whether addr is &recv.f (field index idx) where recv may be
// spilled to a captured-variable cell.
func IsRecvField(addr ssa.Value, recv ssa.Value, idx int) bool {
	fa, ok := addr.(*ssa.FieldAddr)
	if !ok || fa.Field != idx {
		return false
	}
	return fa.X == recv || Resolve(fa.X) == recv
}

// ---------------------------------------------------------------- misc value helpers

// VariadicInts returns the integer constants of a variadic argument slice built at the
// call site (`new [n]T (varargs)` + IndexAddr stores + slice), or ok=false.
func VariadicInts(v ssa.Value) (out []int64, ok bool) {
	if c, isC := v.(*ssa.Const); isC && c.IsNil() {
		return nil, true
	}
	sl, isS := v.(*ssa.Slice)
	if !isS {
		return nil, false
	}
	al, isA := sl.X.(*ssa.Alloc)
	if !isA || al.Referrers() == nil {
		return nil, false
	}
	vals := map[int64]int64{}
	for _, r := range *al.Referrers() {
		ia, isIA := r.(*ssa.IndexAddr)
		if !isIA {
			continue
		}
		idx, okI := ConstIntOf(ia.Index)
		if !okI || ia.Referrers() == nil {
			return nil, false
		}
		for _, rr := range *ia.Referrers() {
			if st, isSt := rr.(*ssa.Store); isSt && st.Addr == ia {
				k, okK := ConstIntOf(st.Val)
				if !okK {
					return nil, false
				}
				vals[idx] = k
			}
		}
	}
	for i := int64(0); i < int64(len(vals)); i++ {
		k, have := vals[i]
		if !have {
			return nil, false
		}
		out = append(out, k)
	}
	return out, true
}

// ReturnVals resolves the results of a return, looking through the result cells that
// go/ssa introduces in functions with defers (`*t0 = v; rundefers; t = *t0; return t`).
func ReturnVals(ret *ssa.Return) []ssa.Value {
	out := make([]ssa.Value, len(ret.Results))
	b := ret.Block()
	for i, r := range ret.Results {
		out[i] = r
		u, ok := r.(*ssa.UnOp)
		if !ok || u.Op != token.MUL {
			continue
		}
		al, ok := u.X.(*ssa.Alloc)
		if !ok {
			continue
		}
		for k := len(b.Instrs) - 1; k >= 0; k-- {
			if st, ok := b.Instrs[k].(*ssa.Store); ok && st.Addr == al {
				out[i] = st.Val
				break
			}
		}
	}
	return out
}

// IsLoadOfGlobal reports whether v is `*g`.
func IsLoadOfGlobal(v ssa.Value, g *ssa.Global) bool {
	u, ok := v.(*ssa.UnOp)
	return ok && u.Op == token.MUL && u.X == g
}

// IsNilConst reports whether v is a nil constant.
func IsNilConst(v ssa.Value) bool {
	c, ok := v.(*ssa.Const)
	return ok && c.IsNil()
}

// BlockDominatesInstr: every path to `in` enters block b first (b == in.Block() counts).
// b is always the target of a conditional edge: when b has other predecessors as well, entering b
// does not imply that edge was taken (go/ssa does not split critical edges), so nothing is dominated
// by the edge.
func BlockDominatesInstr(b *ssa.BasicBlock, in ssa.Instruction) bool {
	if len(b.Preds) > 1 {
		return false
	}
	return b == in.Block() || b.Dominates(in.Block())
}

// CallArgs returns the call's arguments without the receiver.
func CallArgs(c ssa.CallInstruction) []ssa.Value {
	cc := c.Common()
	if cc.IsInvoke() {
		return cc.Args
	}
	if sc := cc.StaticCallee(); sc != nil && sc.Signature.Recv() != nil && len(cc.Args) > 0 {
		return cc.Args[1:]
	}
	return cc.Args
}

// CallRecv returns the receiver of a method call (nil for plain functions).
func CallRecv(c ssa.CallInstruction) ssa.Value {
	cc := c.Common()
	if cc.IsInvoke() {
		return cc.Value
	}
	if sc := cc.StaticCallee(); sc != nil && sc.Signature.Recv() != nil && len(cc.Args) > 0 {
		return cc.Args[0]
	}
	return nil
}

// NilCmpEdges finds `if v == nil` / `if v != nil` on value v; returns the block
// entered when v is nil and the one entered when it is non-nil.
func NilCmpEdges(fn *ssa.Function, match func(ssa.Value) bool) (out []struct {
	If          *ssa.If
	Nil, NonNil *ssa.BasicBlock
}) {
	for _, b := range fn.Blocks {
		if len(b.Instrs) == 0 {
			continue
		}
		ifi, ok := b.Instrs[len(b.Instrs)-1].(*ssa.If)
		if !ok {
			continue
		}
		v, neg := stripNot(ifi.Cond)
		bo, ok := v.(*ssa.BinOp)
		if !ok || (bo.Op != token.EQL && bo.Op != token.NEQ) {
			continue
		}
		var x ssa.Value
		if IsNilConst(bo.Y) {
			x = bo.X
		} else if IsNilConst(bo.X) {
			x = bo.Y
		} else {
			continue
		}
		if !match(x) {
			continue
		}
		eq := bo.Op == token.EQL
		if neg {
			eq = !eq
		}
		e := struct {
			If          *ssa.If
			Nil, NonNil *ssa.BasicBlock
		}{ifi, b.Succs[0], b.Succs[1]}
		if !eq {
			e.Nil, e.NonNil = e.NonNil, e.Nil
		}
		out = append(out, e)
	}
	return
}

// EqEdge is an `if` deciding X == Y, whichever way it was written (==, !=, negated, either operand order):
// Eq is the block entered when the operands are equal, Ne the other one.
type EqEdge struct {
	If     *ssa.If
	X, Y   ssa.Value
	Eq, Ne *ssa.BasicBlock
}

// EqEdges lists the equality tests of fn; every test is reported in both operand orders so that callers
// can match `X` against the interesting side only.
func EqEdges(fn *ssa.Function) []EqEdge {
	var out []EqEdge
	for _, b := range fn.Blocks {
		if len(b.Instrs) == 0 {
			continue
		}
		ifi, ok := b.Instrs[len(b.Instrs)-1].(*ssa.If)
		if !ok {
			continue
		}
		cv, neg := stripNot(ifi.Cond)
		bo, ok := cv.(*ssa.BinOp)
		if !ok || (bo.Op != token.EQL && bo.Op != token.NEQ) {
			continue
		}
		eq := bo.Op == token.EQL
		if neg {
			eq = !eq
		}
		e := EqEdge{If: ifi, X: bo.X, Y: bo.Y, Eq: b.Succs[0], Ne: b.Succs[1]}
		if !eq {
			e.Eq, e.Ne = e.Ne, e.Eq
		}
		out = append(out, e)
		out = append(out, EqEdge{If: ifi, X: bo.Y, Y: bo.X, Eq: e.Eq, Ne: e.Ne})
	}
	return out
}
