package main

import (
	"fmt"
	"go/token"
	"go/types"
	"sort"
	"strings"

	"golang.org/x/tools/go/ssa"
)

// Rules added in the fourth round (seeded changes G/H and the reading they forced).

func init() {
	t513 := "the writer's escape table covers the reader's: in the Pack of the two JSON-framed protocols the body (MarshalBody, through OnPack) and the service method reach the frame only through an escaper that distinguishes the quote (ends the literal for gjson), the backslash (starts an escape) and every control byte below 0x20 (gjson truncates an escaped string there); a Replace chain, strconv.Quote (\\x escapes gjson does not know) or an escaper that decodes the bytes as UTF-8 (invalid sequences replaced by U+FFFD) is not such an escaper"
	register(&Rule{ID: "C05.13", Prop: "C05", Min: 4, Text: t513, Run: runJSONEscaping})
	register(&Rule{ID: "C14.9", Prop: "C14", Min: 8,
		Text: "no two goroutines share a pooled buffer: a filter or protocol never returns bytes of a ByteBuffer it has released (same obligations as C12.6) - the next Pack/Unpack anywhere in the process takes that buffer from the pool and writes it while the first payload is still being framed (a data race on the bytes and a torn frame)",
		Run:  runPooledBufferEscape})
	register(&Rule{ID: "C11.10", Prop: "C11", Min: 4,
		Text: "an encoded body survives the JSON-framed protocols byte for byte (same obligations as C05.13): codec output is binary in general (protobuf/thrift varints, non-UTF-8 strings), so the frame's escaper must carry every byte - " + t513,
		Run:  runJSONEscaping})
	register(&Rule{ID: "C07.15", Prop: "C07", Min: 4,
		Text: "the closed state is reached and the disconnect hook runs when the framework closes a session itself: code running under the handler wait-group reaches session.Close only through a `go` statement (same obligations as C06.6) - on an unsupported message type a synchronous Close waits for its own goroutine, the session stays ActiveClosing for ever and PostDisconnect never runs",
		Run:  runC06_6})
	register(&Rule{ID: "C09.10", Prop: "C09", Min: 3,
		Text: "the calling side's stages are ordered: AsyncCall holds the per-call mutex (deferred unlock) from before the publication until it returns, so PostWriteCall has run before bindReply - which takes the same mutex (C09.8) - starts the reply stages (same obligations as C02.3); releasing it right after the write lets PostReadReplyHeader overtake PostWriteCall",
		Run:  runC02_3})
	register(&Rule{ID: "C01.13", Prop: "C01", Min: 6,
		Text: "no metadata of an earlier message on a thrift session: both thrift Pack functions clear the transport's persistent write headers first and store every header field on every path (same obligations as C12.10) - a message without metadata must not go out with the last Tp-Meta sent",
		Run:  runThriftHeaders})
	register(&Rule{ID: "C01.12", Prop: "C01", Min: 4, Text: "a handler sees exactly the body its sender supplied over the JSON-framed protocols (same obligations as C05.13): " + t513, Run: runJSONEscaping})
}

// ---------------------------------------------------------------------------------------------------------------
// C05.13  JSON string escaping of arbitrary-byte fields

type byteSet [256]bool

func (s *byteSet) addRange(lo, hi int64) { // [lo,hi)
	for i := lo; i < hi && i < 256; i++ {
		if i >= 0 {
			s[i] = true
		}
	}
}

func (s *byteSet) missing(req *byteSet) []string {
	var out []string
	for i := 0; i < 256; i++ {
		if req[i] && !s[i] {
			out = append(out, fmt.Sprintf("0x%02x", i))
		}
	}
	return out
}

func isByteTyped(v ssa.Value) bool {
	b, ok := v.Type().Underlying().(*types.Basic)
	return ok && (b.Kind() == types.Uint8 || b.Kind() == types.Int32 || b.Kind() == types.UntypedRune)
}

// distinguishedBytes: the byte values a function tells apart from the rest by comparing a byte-typed value with a
// constant (==, !=, switch cases, < <= > >= against a bound). tableDriven reports an index into a table by a byte.
func distinguishedBytes(fn *ssa.Function) (set byteSet, tableDriven bool) {
	for _, f := range WithAnon(fn) {
		Instrs(f, func(i ssa.Instruction) {
			switch x := i.(type) {
			case *ssa.BinOp:
				var k int64
				var other ssa.Value
				constLeft := false
				if kv, ok := ConstIntOf(x.Y); ok {
					k, other = kv, x.X
				} else if kv, ok := ConstIntOf(x.X); ok {
					k, other, constLeft = kv, x.Y, true
				} else {
					return
				}
				if !isByteTyped(other) {
					return
				}
				op := x.Op
				if constLeft { // K op v  ==  v op' K
					switch op {
					case token.LSS:
						op = token.GTR
					case token.LEQ:
						op = token.GEQ
					case token.GTR:
						op = token.LSS
					case token.GEQ:
						op = token.LEQ
					}
				}
				switch op {
				case token.EQL, token.NEQ:
					set.addRange(k, k+1)
				case token.LSS, token.GEQ: // v < K  /  v >= K split the bytes at K
					set.addRange(0, k)
				case token.LEQ, token.GTR:
					set.addRange(0, k+1)
				}
			case *ssa.IndexAddr:
				if isByteTyped(x.Index) || isConvOfByte(x.Index) {
					if _, isArr := x.X.Type().Underlying().(*types.Pointer); isArr {
						if g, isG := x.X.(*ssa.Global); isG && g != nil {
							tableDriven = true
						}
					}
				}
			case *ssa.Index:
				if isConvOfByte(x.Index) || isByteTyped(x.Index) {
					if _, isC := x.X.(*ssa.Const); !isC { // hex digit strings are constants
						tableDriven = true
					}
				}
			}
		})
	}
	return
}

// decodesUTF8 names the utf8 decoding call of an escaper that treats its input as text (lossy for arbitrary bytes).
func decodesUTF8(fn *ssa.Function) string {
	found := ""
	for _, f := range WithAnon(fn) {
		for _, call := range AllCalls(f) {
			if o := CalleeObj(call); o != nil && o.Pkg() != nil && o.Pkg().Path() == "unicode/utf8" && (strings.HasPrefix(o.Name(), "Decode") || strings.HasPrefix(o.Name(), "Valid")) {
				found = "utf8." + o.Name()
			}
		}
		Instrs(f, func(i ssa.Instruction) {
			if rg, ok := i.(*ssa.Range); ok {
				if b, isB := rg.X.Type().Underlying().(*types.Basic); isB && b.Kind() == types.String {
					found = "range over a string decodes runes"
				}
			}
		})
	}
	return found
}

func isConvOfByte(v ssa.Value) bool {
	if cv, ok := v.(*ssa.Convert); ok {
		return isByteTyped(cv.X)
	}
	return false
}

type escOutcome struct {
	via  string // how the value reached the frame
	pos  token.Pos
	ok   bool
	und  bool
	what string
}

// followToFrame follows a value forward inside fn until it is consumed by an escaper or by a raw sink.
func followToFrame(p *Prog, fn *ssa.Function, src ssa.Value, req *byteSet) []escOutcome {
	return followToFrameD(p, fn, src, req, 0)
}

func followToFrameD(p *Prog, fn *ssa.Function, src ssa.Value, req *byteSet, depth int) []escOutcome {
	var out []escOutcome
	seen := map[ssa.Value]bool{}
	work := []ssa.Value{src}
	push := func(v ssa.Value) {
		if v != nil && !seen[v] {
			seen[v] = true
			work = append(work, v)
		}
	}
	seen[src] = true
	raw := func(pos token.Pos, what string) {
		out = append(out, escOutcome{via: what, pos: pos, ok: false, what: "written into the JSON string literal without an escaper (" + what + ")"})
	}
	checkEscaper := func(f *ssa.Function, pos token.Pos) {
		set, table := distinguishedBytes(f)
		miss := set.missing(req)
		name := FnName(f)
		if dec := decodesUTF8(f); dec != "" {
			out = append(out, escOutcome{via: name, pos: pos, ok: false, what: "escaper " + name + " reads the bytes as UTF-8 text (" + dec + "): an invalid sequence - any protobuf/thrift varint >= 128, any binary body - is replaced by U+FFFD instead of being carried"})
			return
		}
		switch {
		case len(miss) == 0:
			out = append(out, escOutcome{via: name, pos: pos, ok: true, what: "escaped by " + name + " (distinguishes the quote, the backslash and the control bytes)"})
		case table:
			out = append(out, escOutcome{via: name, pos: pos, und: true, what: "escaper " + name + " is table-driven: idiom not recognised"})
		default:
			out = append(out, escOutcome{via: name, pos: pos, ok: false, what: "escaper " + name + " does not distinguish " + summarizeBytes(miss)})
		}
	}
	for len(work) > 0 {
		v := work[len(work)-1]
		work = work[:len(work)-1]
		refs := v.Referrers()
		if refs == nil {
			continue
		}
		for _, r := range *refs {
			switch x := r.(type) {
			case *ssa.Extract, *ssa.Phi, *ssa.Slice, *ssa.ChangeType, *ssa.Convert, *ssa.MakeInterface, *ssa.ChangeInterface:
				push(x.(ssa.Value))
			case *ssa.UnOp:
				if x.Op == token.MUL {
					push(x)
				}
			case *ssa.Store:
				if x.Val != v {
					continue
				}
				switch a := x.Addr.(type) {
				case *ssa.IndexAddr:
					if al, ok := a.X.(*ssa.Alloc); ok {
						push(al)
					} else {
						raw(x.Pos(), "stored into "+a.X.Name())
					}
				case *ssa.Alloc:
					push(a)
				default:
					raw(x.Pos(), "stored through "+x.Addr.Name())
				}
			case *ssa.IndexAddr, *ssa.Index, *ssa.Range, *ssa.Lookup:
				// inline escaping loop over the bytes: the function itself is the escaper
				if isBytesOrString(v.Type()) {
					checkEscaper(fn, r.Pos())
				}
			case ssa.CallInstruction:
				isArg := false
				argIdx := -1
				for k, a := range x.Common().Args {
					if a == v {
						isArg, argIdx = true, k
					}
				}
				if !isArg {
					continue
				}
				if b, ok := x.Common().Value.(*ssa.Builtin); ok {
					switch b.Name() {
					case "len", "cap":
					default:
						raw(x.Pos(), "builtin "+b.Name())
					}
					continue
				}
				obj := CalleeObj(x)
				full := ""
				if obj != nil {
					full = obj.FullName()
				}
				switch {
				case obj != nil && (obj.Name() == "StringToBytes" || obj.Name() == "BytesToString"): // zero-copy views of the same bytes
					if val, ok := x.(ssa.Value); ok {
						push(val)
					}
				case obj != nil && obj.Name() == "OnPack" && strings.Contains(full, "/xfer.XferPipe"):
					if val, ok := x.(ssa.Value); ok {
						push(val)
					}
				case full == "bytes.Replace" || full == "bytes.ReplaceAll" || full == "strings.Replace" || full == "strings.ReplaceAll" || full == "(*strings.Replacer).Replace":
					if argIdx != 0 {
						continue
					}
					var set byteSet
					cur := x
					names := []string{}
					for cur != nil {
						if olds, ok := VariadicInts(cur.Common().Args[1]); ok && len(olds) == 1 {
							set.addRange(olds[0], olds[0]+1)
							names = append(names, fmt.Sprintf("0x%02x", olds[0]))
						}
						var next ssa.CallInstruction
						if val, ok := cur.(ssa.Value); ok && val.Referrers() != nil {
							for _, rr := range *val.Referrers() {
								if nc, ok := rr.(ssa.CallInstruction); ok {
									if o := CalleeObj(nc); o != nil && strings.HasSuffix(o.FullName(), ".Replace") && len(nc.Common().Args) > 0 && nc.Common().Args[0] == val {
										next = nc
									}
								}
							}
						}
						cur = next
					}
					out = append(out, escOutcome{via: full, pos: x.Pos(), ok: false, what: "escaped by a " + full + " chain over {" + strings.Join(names, ",") + "} only: does not distinguish " + summarizeBytes(set.missing(req))})
				case strings.HasPrefix(full, "strconv.Quote") || strings.HasPrefix(full, "strconv.AppendQuote"):
					out = append(out, escOutcome{via: full, pos: x.Pos(), ok: false, what: full + " renders non-printable and non-UTF-8 bytes as \\x.. / \\a / \\v escapes, which the gjson reader does not decode (the string is cut there)"})
				default:
					f := StaticFn(x)
					switch {
					case f != nil && f.Pkg != nil && strings.HasPrefix(f.Pkg.Pkg.Path(), Root) && returnsBytes(f):
						checkEscaper(f, x.Pos())
					case f != nil && f.Pkg == fn.Pkg && len(f.Blocks) > 0 && depth < 2 && argIdx < len(f.Params):
						// a same-package helper that frames the value: follow its parameter
						out = append(out, followToFrameD(p, f, f.Params[argIdx], req, depth+1)...)
					default:
						raw(x.Pos(), "handed to "+full)
					}
				}
			}
		}
	}
	return out
}

func returnsBytes(f *ssa.Function) bool {
	res := f.Signature.Results()
	if res.Len() == 0 {
		return false
	}
	return isBytesOrString(res.At(0).Type())
}

func isBytesOrString(typ types.Type) bool {
	switch t := typ.Underlying().(type) {
	case *types.Slice:
		b, ok := t.Elem().Underlying().(*types.Basic)
		return ok && b.Kind() == types.Uint8
	case *types.Basic:
		return t.Kind() == types.String
	}
	return false
}

func summarizeBytes(miss []string) string {
	if len(miss) > 4 {
		return fmt.Sprintf("%d byte values (%s .. %s)", len(miss), miss[0], miss[len(miss)-1])
	}
	return strings.Join(miss, ",")
}

func runJSONEscaping(c *Ctx) {
	p := c.P
	var req byteSet
	req.addRange(0, 0x20)
	req.addRange('"', '"'+1)
	req.addRange('\\', '\\'+1)
	fams := [][2]string{{Root + "/proto/jsonproto", "jsonproto"}, {Root + "/mixer/websocket/jsonSubProto", "jsonSubProto"}}
	for _, fam := range fams {
		fn := p.Fn(fam[0], fam[1], "Pack")
		for _, field := range []string{"MarshalBody", "ServiceMethod"} {
			type srcAt struct {
				v  ssa.Value
				in *ssa.Function
			}
			var srcs []srcAt
			// the field is read in Pack or in a same-package helper Pack calls (depth <= 2)
			seenFn := map[*ssa.Function]bool{}
			var scan func(f *ssa.Function, d int)
			scan = func(f *ssa.Function, d int) {
				if f == nil || seenFn[f] || len(f.Blocks) == 0 || f.Pkg != fn.Pkg || d > 2 {
					return
				}
				seenFn[f] = true
				for _, call := range AllCalls(f) {
					if o := CalleeObj(call); o != nil && o.Name() == field && o.Pkg() != nil && strings.HasSuffix(o.Pkg().Path(), "/socket") {
						if v, ok := call.(ssa.Value); ok {
							srcs = append(srcs, srcAt{v, f})
						}
					}
					scan(call.Common().StaticCallee(), d+1)
				}
			}
			scan(fn, 0)
			key := fam[1] + ".Pack " + field
			if len(srcs) == 0 {
				c.Undec(key, p.Pos(fn.Pos()), "no call to Message."+field+" found in Pack: idiom not recognised")
				continue
			}
			var outs []escOutcome
			for _, s := range srcs {
				outs = append(outs, followToFrame(p, s.in, s.v, &req)...)
			}
			c.fact("value-forward")
			c.fact("escape-table")
			if len(outs) == 0 {
				c.Undec(key, p.Pos(fn.Pos()), field+"() never reaches the frame: idiom not recognised")
				continue
			}
			sort.Slice(outs, func(i, j int) bool { return outs[i].pos < outs[j].pos })
			bad, und := "", ""
			var badPos, okPos token.Pos
			okMsg := ""
			for _, o := range outs {
				switch {
				case o.und:
					und = o.what
					badPos = o.pos
				case !o.ok:
					if bad == "" {
						bad = o.what
						badPos = o.pos
					}
				default:
					okMsg, okPos = o.what, o.pos
				}
			}
			switch {
			case bad != "":
				c.Viol(key, p.Pos(badPos), field+"() is "+bad+": a value holding such a byte does not come back from Unpack (gjson ends the literal at the quote, takes the backslash as an escape, cuts an escaped string at a control byte)")
			case und != "":
				c.Undec(key, p.Pos(badPos), und)
			default:
				c.Hold(key, p.Pos(okPos), okMsg)
			}
		}
	}
}

// ---------------------------------------------------------------------------------------------------------------
// C06.11  decompression on the receive path is bounded by the configured limit

func init() {
	register(&Rule{ID: "C06.11", Prop: "C06", Min: 2,
		Text: "a frame within the read limit does not inflate beyond it: every read-to-exhaustion (ReadAll / io.Copy / ReadFrom) of a compress/* reader in shipped code goes through io.LimitReader whose bound derives from the configured limit (xfer.UnpackSizeLimit() or socket.MessageSizeLimit()), and socket.SetMessageSizeLimit hands the limit it stored to xfer.SetUnpackSizeLimit on every path",
		Run: runC06_11})
	register(&Rule{ID: "C12.12", Prop: "C12", Min: 2,
		Text: "unpacking restores every payload the receiver accepts: the bound the gzip filter inflates to is the configured message size limit on every path of SetMessageSizeLimit, including the one that restores the default (same obligations as C06.11) - a stale smaller bound makes the filter refuse payloads that are within the limit",
		Run:  runC06_11})
}

func unboxIface(v ssa.Value) ssa.Value {
	for {
		switch x := v.(type) {
		case *ssa.MakeInterface:
			v = x.X
		case *ssa.ChangeInterface:
			v = x.X
		default:
			return v
		}
	}
}

func isDecompressor(v ssa.Value) bool {
	t := v.Type()
	if pt, ok := t.Underlying().(*types.Pointer); ok {
		t = pt.Elem()
	}
	n, ok := t.(*types.Named)
	if !ok || n.Obj().Pkg() == nil {
		return false
	}
	return strings.HasPrefix(n.Obj().Pkg().Path(), "compress/")
}

// derivesFromCall: v is computed (through conversions and +/- constants) from the result of a call to one of the named functions.
func derivesFromCall(v ssa.Value, names map[string]bool, depth int) bool {
	if depth > 6 {
		return false
	}
	switch x := v.(type) {
	case *ssa.Convert:
		return derivesFromCall(x.X, names, depth+1)
	case *ssa.ChangeType:
		return derivesFromCall(x.X, names, depth+1)
	case *ssa.BinOp:
		if x.Op == token.ADD || x.Op == token.SUB {
			if _, ok := ConstIntOf(x.Y); ok {
				return derivesFromCall(x.X, names, depth+1)
			}
			if _, ok := ConstIntOf(x.X); ok && x.Op == token.ADD {
				return derivesFromCall(x.Y, names, depth+1)
			}
		}
	case *ssa.Call:
		if o := CalleeObj(x); o != nil && names[o.FullName()] {
			return true
		}
	}
	return false
}

func runC06_11(c *Ctx) {
	p := c.P
	limitFns := map[string]bool{
		Root + "/xfer.UnpackSizeLimit":    true,
		Root + "/socket.MessageSizeLimit": true,
	}
	readerArg := map[string]int{
		"io/ioutil.ReadAll": 0, "io.ReadAll": 0, "io.Copy": 1, "io.CopyBuffer": 1,
		"(*bytes.Buffer).ReadFrom": 0, "(*" + Root + "/utils.ByteBuffer).ReadFrom": 0,
	}
	n := 0
	for _, fn := range p.ShippedFuncs() {
		for _, call := range AllCalls(fn) {
			o := CalleeObj(call)
			if o == nil {
				continue
			}
			idx, isRead := readerArg[o.FullName()]
			if !isRead {
				continue
			}
			args := CallArgs(call)
			if idx >= len(args) {
				continue
			}
			r := unboxIface(args[idx])
			key := "inflate in " + FnName(fn)
			if isDecompressor(r) {
				n++
				c.Viol(key, p.InstrPos(call), o.FullName()+" reads a "+r.Type().String()+" to exhaustion with no bound: a frame within the read limit (a few KB of compressed zeros) makes the receiver buffer gigabytes for one message")
				continue
			}
			lr, isCall := r.(*ssa.Call)
			if !isCall {
				continue
			}
			if lo := CalleeObj(lr); lo == nil || lo.FullName() != "io.LimitReader" {
				continue
			}
			inner := unboxIface(lr.Call.Args[0])
			if !isDecompressor(inner) {
				continue
			}
			n++
			c.fact("value-backward")
			c.Check(derivesFromCall(lr.Call.Args[1], limitFns, 0), key, p.InstrPos(call),
				"bounded by io.LimitReader(configured limit)",
				"the bound of io.LimitReader is not derived from the configured limit (xfer.UnpackSizeLimit / socket.MessageSizeLimit): the receiver buffers more (or refuses less) than the per-message read limit")
		}
	}
	if n == 0 {
		c.Undec("inflate sites", "", "no read of a compress/* reader found in shipped code (the gzip filter is expected): idiom not recognised")
	}
	// the limit configured on the socket package reaches the filters
	set := p.Fn(Root+"/socket", "", "SetMessageSizeLimit")
	fwd := p.FuncObj(Root+"/xfer", "SetUnpackSizeLimit")
	g := p.Global(Root+"/socket", "messageSizeLimit")
	okArg := true
	for _, call := range CallsTo(set, fwd) {
		if a := call.Common().Args[0]; !IsLoadOfGlobal(a, g) {
			okArg = false
		}
	}
	ok, exits := p.MustPassFromEntry(set, func(i ssa.Instruction) bool { return IsCallTo(i, fwd) }, nil)
	c.fact("must-pass")
	pos := p.Pos(set.Pos())
	if !ok && len(exits) > 0 {
		pos = p.InstrPos(exits[0])
	}
	c.Check(ok && okArg, "SetMessageSizeLimit forwards the limit", pos, "every path hands messageSizeLimit to xfer.SetUnpackSizeLimit",
		"socket.SetMessageSizeLimit returns without handing the stored limit to xfer.SetUnpackSizeLimit: the filters keep inflating up to the previous (default 1 GB) bound under a smaller read limit")
}

// ---------------------------------------------------------------------------------------------------------------
// C07.14 / C08.9 / C13.12  a session that became Ok is indexed on every path

func init() {
	t := "every established session is listed: at each of the four establishment sites SessionHub.set (directly or through a helper) dominates the store of statusOk or lies on every path from it to a return - readDisconnected removes a redialing session from the index, so a redial that skips the insert (for instance when the id did not change) leaves a live session that Peer.Close, GetSession and RangeSession never see"
	register(&Rule{ID: "C07.14", Prop: "C07", Min: 4, Text: t, Run: runOkImpliesIndexed})
	register(&Rule{ID: "C08.9", Prop: "C08", Min: 4, Text: "peer Close waits for every live session's handlers: it closes the sessions it finds in the index, so " + t, Run: runOkImpliesIndexed})
	register(&Rule{ID: "C13.12", Prop: "C13", Min: 4, Text: "a redialed session is the same listed Session: " + t, Run: runOkImpliesIndexed})
	register(&Rule{ID: "C08.10", Prop: "C08", Min: 1,
		Text: "a reply written during a graceful close is not refused by a stale timer: session.write (re)sets the write deadline on every path to Socket.WriteMessage (same obligations as C03.13) - otherwise the deadline of an earlier message fails the genuine reply and the caller gets a connection error",
		Run:  runC03_13})
}

func runOkImpliesIndexed(c *Ctx) {
	p := c.P
	set := p.MethodObj(Root, "SessionHub", "set")
	sub := &Ctx{P: p, rule: c.rule, Facts: c.Facts}
	sites := establishmentSites(sub) // composition facts are reported by C07.3
	okEf := okStoreEffect(p)
	setEf := effect{"sessHub.set", func(i ssa.Instruction) bool { _, isCall := i.(*ssa.Call); return isCall && IsCallTo(i, set) }}
	for _, s := range sites {
		oks := p.performs(s.fn, okEf, 0)
		sets := map[ssa.Instruction]bool{}
		for _, in := range p.performs(s.fn, setEf, 0) {
			sets[in] = true
		}
		if len(oks) == 0 {
			c.Undec(s.name+" Ok store", p.Pos(s.fn.Pos()), "no store of statusOk found at this establishment site: idiom not recognised")
			continue
		}
		for _, in := range oks {
			key := s.name + " Ok => indexed"
			if sets[in] {
				c.Hold(key, p.InstrPos(in), "the helper that sets Ok also inserts into the index")
				continue
			}
			before := false
			for st := range sets {
				if Dominates(st, in) {
					before = true
				}
			}
			if before {
				c.fact("dominance")
				c.Hold(key, p.InstrPos(in), "SessionHub.set dominates the Ok store")
				continue
			}
			ok, exits := p.MustPassBeforeExit(in, func(i ssa.Instruction) bool { return sets[i] }, nil)
			c.fact("must-pass")
			pos := p.InstrPos(in)
			if !ok && len(exits) > 0 {
				pos = p.InstrPos(exits[0])
			}
			c.Check(ok, key, pos, "every path from the Ok store to a return passes SessionHub.set",
				"a path from changeStatus(statusOk) in "+s.name+" returns without SessionHub.set: the session is live (reads, handles, can call) but not in the peer's index - Peer.Close does not close it or wait for its handlers, GetSession/RangeSession/CountSession do not see it")
		}
	}
}

// ---------------------------------------------------------------------------------------------------------------
// C20.8 / C05.14  a buffer made on a pool miss is as empty as a recycled one

func init() {
	t := "a buffer handed out by BufferPool.Get is empty on the miss path too: every returned value is the pool's object or a new ByteBuffer whose B is stored once with a zero-length slice (make([]byte, 0, n) / nil) and on which nothing but Reset is called before the return - Put resets recycled buffers, so a pre-sized new one (length = calibrated default) puts NUL bytes in front of whatever its user appends"
	register(&Rule{ID: "C20.8", Prop: "C20", Min: 2, Text: t, Run: runFreshBufferEmpty})
	register(&Rule{ID: "C05.14", Prop: "C05", Min: 2, Text: "a packed frame holds the message alone, whatever traffic calibrated the buffer pool before: " + t, Run: runFreshBufferEmpty})
}

func runFreshBufferEmpty(c *Ctx) {
	p := c.P
	utilsPkg := Root + "/utils"
	fn := p.Fn(utilsPkg, "BufferPool", "Get")
	bbN, bIdx := p.FieldIndex(utilsPkg, "ByteBuffer", "B")
	reset := p.MethodObj(utilsPkg, "ByteBuffer", "Reset")
	n := 0
	Instrs(fn, func(i ssa.Instruction) {
		ret, ok := i.(*ssa.Return)
		if !ok {
			return
		}
		for _, rv := range ReturnVals(ret) {
			v := Resolve(rv)
			n++
			key := fmt.Sprintf("BufferPool.Get result #%d", n)
			if call, isCall := v.(*ssa.Call); isCall {
				// the buffer is made by a same-package helper: its single returned value is examined instead
				if h := call.Call.StaticCallee(); h != nil && h.Pkg == fn.Pkg && len(h.Blocks) > 0 {
					var hv []ssa.Value
					Instrs(h, func(j ssa.Instruction) {
						if hr, isRet := j.(*ssa.Return); isRet {
							for _, x := range ReturnVals(hr) {
								hv = append(hv, Resolve(x))
							}
						}
					})
					if len(hv) == 1 {
						v = hv[0]
					}
				}
			}
			switch x := v.(type) {
			case *ssa.TypeAssert:
				c.HoldTrivial(key, p.InstrPos(ret), "the pool's (reset) object")
			case *ssa.Alloc:
				if derefNamed(x.Type()) != bbN {
					c.Undec(key, p.InstrPos(ret), "returns a new object of another type: idiom not recognised")
					continue
				}
				bad := ""
				if x.Referrers() != nil {
					for _, r := range *x.Referrers() {
						switch y := r.(type) {
						case *ssa.FieldAddr:
							if y.Field != bIdx || y.Referrers() == nil {
								continue
							}
							for _, rr := range *y.Referrers() {
								st, isSt := rr.(*ssa.Store)
								if !isSt || st.Addr != ssa.Value(y) {
									continue
								}
								switch sv := st.Val.(type) {
								case *ssa.MakeSlice:
									if k, isK := ConstIntOf(sv.Len); !isK || k != 0 {
										bad = "B is made with a non-zero length"
									}
								case *ssa.Const:
									if !sv.IsNil() {
										bad = "B is stored with a non-nil constant"
									}
								default:
									bad = "B is stored with " + st.Val.String() + " (not a zero-length make)"
								}
							}
						case ssa.CallInstruction:
							if !IsCallTo(r, reset) {
								name := "a function"
								if o := CalleeObj(y); o != nil {
									name = o.Name()
								}
								bad = name + " is called on the new buffer before it is handed out"
							}
						}
					}
				}
				c.fact("value-identity")
				c.Check(bad == "", key, p.InstrPos(ret), "new ByteBuffer with a zero-length B", "the buffer made on a pool miss is not empty ("+bad+"): once the pool has calibrated a default size, a Pack that takes such a buffer frames NUL bytes in front of the message - size and content then depend on earlier traffic")
			default:
				c.Undec(key, p.InstrPos(ret), "returned value is neither the pool's object nor a new ByteBuffer: idiom not recognised")
			}
		}
	})
}

// ---------------------------------------------------------------------------------------------------------------
// C02.14 / C13.13  a failed redial attempt does not leave the session in Preparing

func init() {
	t := "a redial attempt rejected by a dial hook hands the session back in statusRedialing: every path from the store of statusPreparing (redial callback) to a return of a non-nil error passes a store of statusRedialing - the closeLocked that follows an exhausted redial is immediate only from Redialing (from Preparing it is a graceful close that waits for the very call whose write started the redial), and only Redialing can become RedialFailed"
	register(&Rule{ID: "C02.14", Prop: "C02", Min: 1, Text: t, Run: runPreparingRestored})
	register(&Rule{ID: "C13.13", Prop: "C13", Min: 1, Text: t, Run: runPreparingRestored})
}

func runPreparingRestored(c *Ctx) {
	p := c.P
	st := p.statusTable()
	trs, err := p.statusTransitions()
	if err != nil {
		c.Undec("transition-extraction", "", err.Error())
		return
	}
	n := 0
	for _, tr := range trs {
		if st.name[tr.to] != "statusPreparing" || tr.cas {
			continue
		}
		n++
		restore := map[ssa.Instruction]bool{}
		for _, t2 := range trs {
			if t2.fn == tr.fn && st.name[t2.to] == "statusRedialing" {
				restore[t2.call] = true
			}
		}
		bad := p.ReachableFrom(tr.call, func(i ssa.Instruction) bool {
			ret, ok := i.(*ssa.Return)
			if !ok {
				return false
			}
			for _, rv := range ReturnVals(ret) {
				if _, isErr := rv.Type().Underlying().(*types.Interface); isErr && !IsNilConst(rv) {
					return true
				}
			}
			return false
		}, func(i ssa.Instruction) bool { return restore[i] }, nil)
		c.fact("path-search")
		key := FnName(tr.fn) + " Preparing restored on failure"
		pos := p.InstrPos(tr.call)
		if len(bad) > 0 {
			pos = p.InstrPos(bad[0])
		}
		c.Check(len(bad) == 0, key, pos, "every failing return after the Preparing store passes a Redialing store",
			"the redial callback can return an error with the session still in statusPreparing: when the attempts are exhausted closeLocked() runs the graceful close (it waits for the outstanding-call wait group, i.e. for the call whose own write triggered this redial - Call/AsyncCall never return) and the session can never become RedialFailed")
	}
	if n == 0 {
		c.Undec("Preparing store", "", "no blind store of statusPreparing found (the redial callback is expected): idiom not recognised")
	}
}

// ---------------------------------------------------------------------------------------------------------------
// C04.14 / C12.11  httproto: the status entity of an error reply goes through the announced filter

func init() {
	t := "an error reply over HTTP is encoded the way its headers announce: in the function of proto/httproto that writes the JSON form of a non-OK status (Status.MarshalJSON) as the entity, that value is handed to the announced filter's OnPack and what is written (and measured for Content-Length) is the merge of the raw and the packed value - Pack has already put Content-Encoding into the headers because a reply inherits the call's pipe, so a status written raw is gunzipped by the caller and never seen"
	register(&Rule{ID: "C04.14", Prop: "C04", Min: 1, Text: t, Run: runHTTPStatusEntityPacked})
	register(&Rule{ID: "C12.11", Prop: "C12", Min: 1, Text: "a reply is sent through the caller's pipe, error replies included: " + t, Run: runHTTPStatusEntityPacked})
}

func forwardClosure(srcs ...ssa.Value) map[ssa.Value]bool {
	seen := map[ssa.Value]bool{}
	work := append([]ssa.Value{}, srcs...)
	for _, s := range srcs {
		seen[s] = true
	}
	for len(work) > 0 {
		v := work[len(work)-1]
		work = work[:len(work)-1]
		if v.Referrers() == nil {
			continue
		}
		for _, r := range *v.Referrers() {
			switch x := r.(type) {
			case *ssa.Extract, *ssa.Phi, *ssa.Slice, *ssa.ChangeType, *ssa.Convert:
				val := x.(ssa.Value)
				if !seen[val] {
					seen[val] = true
					work = append(work, val)
				}
			}
		}
	}
	return seen
}

// helperWritesParam: h is a same-package helper that hands its k-th parameter (or a slice of it) to a Write.
func helperWritesParam(h, caller *ssa.Function, k int) bool {
	if h == nil || h.Pkg != caller.Pkg || len(h.Blocks) == 0 || k >= len(h.Params) {
		return false
	}
	cl := forwardClosure(h.Params[k])
	for _, c2 := range AllCalls(h) {
		if o := CalleeObj(c2); o != nil && o.Name() == "Write" {
			for _, a := range c2.Common().Args {
				if cl[a] {
					return true
				}
			}
		}
	}
	return false
}

func runHTTPStatusEntityPacked(c *Ctx) {
	p := c.P
	httpPkg := Root + "/proto/httproto"
	n := 0
	for _, fn := range p.ShippedFuncs() {
		if fn.Pkg == nil || fn.Pkg.Pkg.Path() != httpPkg {
			continue
		}
		// only send-side functions: those that write into a ByteBuffer
		for _, call := range AllCalls(fn) {
			o := CalleeObj(call)
			if o == nil || o.Name() != "MarshalJSON" || !strings.HasSuffix(o.FullName(), "status.Status).MarshalJSON") {
				continue
			}
			v, ok := call.(ssa.Value)
			if !ok {
				continue
			}
			raw := forwardClosure(v)
			// is the raw value written into the frame at all?
			var packed []ssa.Value
			var packCall ssa.CallInstruction
			for _, c2 := range AllCalls(fn) {
				o2 := CalleeObj(c2)
				if o2 == nil || o2.Name() != "OnPack" {
					continue
				}
				for _, a := range CallArgs(c2) {
					if raw[a] {
						packCall = c2
						if pv, ok := c2.(ssa.Value); ok {
							packed = append(packed, pv)
						}
					}
				}
			}
			all := forwardClosure(append([]ssa.Value{v}, packed...)...)
			packedOnly := forwardClosure(packed...)
			var writes []ssa.CallInstruction
			for _, c2 := range AllCalls(fn) {
				o2 := CalleeObj(c2)
				if o2 == nil {
					continue
				}
				isWrite := o2.Name() == "Write"
				for k, a := range c2.Common().Args {
					if !all[a] {
						continue
					}
					if isWrite || helperWritesParam(c2.Common().StaticCallee(), fn, k) {
						writes = append(writes, c2)
					}
				}
			}
			if len(writes) == 0 {
				continue // not the function that frames the status entity
			}
			n++
			key := "status entity in " + FnName(fn)
			c.fact("value-forward")
			if packCall == nil {
				c.Viol(key, p.InstrPos(writes[0]), "the JSON form of the status is written as the entity without being offered to the announced transfer filter (no OnPack takes it): with Content-Encoding already in the headers the caller inflates plain JSON, the reply is lost and the handler's status never reaches the caller")
				continue
			}
			okW := true
			for _, w := range writes {
				for _, a := range w.Common().Args {
					if all[a] && !packedOnly[a] {
						okW = false // a write of the raw value that the packed one does not merge into
					}
				}
			}
			c.Check(okW, key, p.InstrPos(packCall), "written value = merge of the raw status JSON and its OnPack result", "the raw status JSON is written although it was packed: the written entity is not the value the filter produced")
		}
	}
	if n == 0 {
		c.Undec("status entity", "", "no function of proto/httproto writes Status.MarshalJSON into the frame: idiom not recognised")
	}
}

// ---------------------------------------------------------------------------------------------------------------
// C06.12  no index can go below zero on the log path

func init() {
	register(&Rule{ID: "C06.12", Prop: "C06", Min: 1,
		Text: "the log renderer cannot index below zero: on the printRunLog path (which runs after the recover barriers, in pool goroutines) every variable slice/string index has a lower bound >= 0 by interval analysis (a counter that only grows from a non-negative start, or a dominating comparison with a constant) - a cursor walked backwards without a floor panics on a crafted body and kills the process",
		Run: runC06_12})
}

func logPathFuncs(p *Prog) []*ssa.Function {
	start := p.Fn(Root, "session", "printRunLog")
	seen := map[*ssa.Function]bool{}
	var fns []*ssa.Function
	var rec func(f *ssa.Function, d int)
	rec = func(f *ssa.Function, d int) {
		if f == nil || seen[f] || len(f.Blocks) == 0 || d > 5 || f.Pkg == nil || !strings.HasPrefix(f.Pkg.Pkg.Path(), Root) {
			return
		}
		seen[f] = true
		fns = append(fns, f)
		for _, call := range AllCalls(f) {
			rec(call.Common().StaticCallee(), d+1)
		}
	}
	rec(start, 0)
	return fns
}

func runC06_12(c *Ctx) {
	p := c.P
	fns := logPathFuncs(p)
	nIdx := 0
	for _, fn := range fns {
		k := 0
		Instrs(fn, func(i ssa.Instruction) {
			var base, idx ssa.Value
			switch x := i.(type) {
			case *ssa.IndexAddr:
				base, idx = x.X, x.Index
			case *ssa.Lookup:
				if _, isMap := x.X.Type().Underlying().(*types.Map); isMap {
					return
				}
				base, idx = x.X, x.Index
			default:
				return
			}
			if _, isC := constI64(idx); isC {
				return
			}
			if _, isArr := base.Type().Underlying().(*types.Pointer); isArr {
				return // fixed-size tables indexed by a byte / nibble
			}
			if b, isB := idx.Type().Underlying().(*types.Basic); isB && b.Info()&types.IsUnsigned != 0 {
				return
			}
			nIdx++
			eng := &linEngine{p: p, fn: fn, at: i.Block(), slack: map[ssa.Value]bool{}, busy: map[ssa.Value]bool{}}
			iv := eng.interval(idx)
			c.fact("interval")
			if iv.lo >= 0 {
				return
			}
			k++
			c.Viol(fmt.Sprintf("index without a floor #%d in %s", k, FnName(fn)), p.InstrPos(i), fmt.Sprintf("%s indexes with a value whose lower bound cannot be shown >= 0 (interval [%d,..]): a cursor walked backwards over a crafted body (e.g. 1025 UTF-8 continuation bytes) reaches -1 - on the printRunLog path that panic is raised after the recover barriers, in a pool goroutine, and kills the process", FnName(fn), iv.lo))
		})
	}
	c.Hold("log rendering path scanned for indexes without a floor", "", fmt.Sprintf("%d functions reachable from printRunLog, %d variable index expression(s), all with a lower bound >= 0", len(fns), nIdx))
	if len(fns) < 5 || nIdx == 0 {
		c.Undec("log rendering path", "", fmt.Sprintf("only %d functions / %d variable indexes reachable from printRunLog", len(fns), nIdx))
	}
}

// ---------------------------------------------------------------------------------------------------------------
// C18.12  a configuration update never refills the bucket

func init() {
	register(&Rule{ID: "C18.12", Prop: "C18", Min: 1,
		Text: "tokens appear only with time: no function reachable from qpsLimiter.update (static calls, depth <= 3, same package) writes qpsLimiter.tokens - the bucket is filled by the constructor and by the refill tick only, so an Update that changes the interval cannot hand a drained bucket a second capacity's worth of admissions",
		Run: runC18_12})
	register(&Rule{ID: "C16.9", Prop: "C16", Min: 1,
		Text: "a rejected connection is not listed afterwards even when an accept hook swapped the socket: ModifySocket restores the id read before socket.Reset (same obligations as C07.13) - otherwise the index keeps the rejected session under the id a hook gave it while closeLocked deletes under the remote address",
		Run:  runC07_13})
	register(&Rule{ID: "C18.11", Prop: "C18", Min: 1,
		Text: "a slot is released when the session has ended, not when it starts closing: in closeLocked the disconnect hook (where the overloader releases the slot) comes after the waits for running handlers and after socket.Close (same obligations as C08.1)",
		Run:  runC08_1})
}

func runC18_12(c *Ctx) {
	p := c.P
	upd := p.Fn(olPkg, "qpsLimiter", "update")
	qN, tokIdx := p.FieldIndex(olPkg, "qpsLimiter", "tokens")
	seen := map[*ssa.Function]bool{}
	var fns []*ssa.Function
	var rec func(f *ssa.Function, d int)
	rec = func(f *ssa.Function, d int) {
		if f == nil || seen[f] || len(f.Blocks) == 0 || d > 3 || f.Pkg != upd.Pkg {
			return
		}
		seen[f] = true
		fns = append(fns, f)
		for _, call := range AllCalls(f) {
			if _, isGo := call.(*ssa.Go); isGo {
				continue // the refill goroutine is the tick path
			}
			rec(call.Common().StaticCallee(), d+1)
		}
	}
	rec(upd, 0)
	bad := ""
	var badPos token.Pos
	for _, acc := range p.FieldAccesses(qN) {
		if acc.Field.Index != tokIdx || !seen[acc.Fn] {
			continue
		}
		if acc.Kind == AccRead {
			continue
		}
		if acc.Kind == AccAtomic && strings.HasPrefix(acc.Via, "Load") {
			continue
		}
		bad = FnName(acc.Fn)
		badPos = acc.Instr.Pos()
	}
	c.fact("field-access-set")
	pos := p.Pos(upd.Pos())
	if bad != "" {
		pos = p.Pos(badPos)
	}
	c.Check(bad == "", "qpsLimiter.update leaves the tokens alone", pos, fmt.Sprintf("%d function(s) reachable from update, none writes tokens", len(fns)),
		bad+" (reachable from qpsLimiter.update) writes the token count: an Overloader.Update that changes the interval refills a drained bucket at once - twice the capacity is admitted within one interval")
}

// ---------------------------------------------------------------------------------------------------------------
// C20.9 / C01.14  a copied metadata container owns its bytes

func init() {
	t := "Args.CopyTo is a deep copy on every path: in utils.copyArgs no builtin copy of argsKV elements takes the source as its second operand (that copies the slice headers: both containers then share the key/value buffers), and every store into a destination slot's key/value is append(slot[:0], source bytes...) - InputMeta()/CopyMeta() hand such copies to users who keep them while the pooled source container decodes later messages in place"
	register(&Rule{ID: "C20.9", Prop: "C20", Min: 3, Text: t, Run: runCopyArgsDeep})
	register(&Rule{ID: "C01.14", Prop: "C01", Min: 3, Text: "reply metadata handed to the caller is not overwritten by later messages: " + t, Run: runCopyArgsDeep})
}

func derivesFromParam(v ssa.Value, prm *ssa.Parameter, depth int) bool {
	if depth > 8 {
		return false
	}
	switch x := v.(type) {
	case *ssa.Parameter:
		return x == prm
	case *ssa.Slice:
		return derivesFromParam(x.X, prm, depth+1)
	case *ssa.ChangeType:
		return derivesFromParam(x.X, prm, depth+1)
	case *ssa.Phi:
		for _, e := range x.Edges {
			if derivesFromParam(e, prm, depth+1) {
				return true
			}
		}
	}
	return false
}

func runCopyArgsDeep(c *Ctx) {
	p := c.P
	utilsPkg := Root + "/utils"
	fn := p.Fn(utilsPkg, "", "copyArgs")
	kvN, keyIdx := p.FieldIndex(utilsPkg, "argsKV", "key")
	_, valIdx := p.FieldIndex(utilsPkg, "argsKV", "value")
	if len(fn.Params) != 2 {
		c.Undec("copyArgs signature", p.Pos(fn.Pos()), "copyArgs(dst, src) expected: idiom not recognised")
		return
	}
	src := fn.Params[1]
	// (1) no element-wise struct copy out of the source
	bad := ""
	var badPos token.Pos
	for _, call := range AllCalls(fn) {
		b, ok := call.Common().Value.(*ssa.Builtin)
		if !ok || b.Name() != "copy" {
			continue
		}
		args := call.Common().Args
		if sl, isSl := args[1].Type().Underlying().(*types.Slice); isSl && derefNamed(sl.Elem()) == kvN || isSl && sl.Elem() == types.Type(kvN) {
			if derivesFromParam(args[1], src, 0) {
				bad, badPos = "copy(..., src) copies the argsKV structs of the source", call.Pos()
			}
		}
	}
	c.fact("value-backward")
	pos := p.Pos(fn.Pos())
	if bad != "" {
		pos = p.Pos(badPos)
	}
	c.Check(bad == "", "copyArgs: no struct copy out of the source", pos, "only the destination's own slots are moved when it grows", bad+": the slice headers are copied, so the following append(slot[:0], ...) copies each buffer onto itself and the 'copy' shares every key/value buffer with the source - metadata kept by a caller (InputMeta, CopyMeta) turns into the pairs of later messages")
	// (2) every store into a slot's key/value is append(slot.field[:0], ...)
	for _, f := range []struct {
		idx  int
		name string
	}{{keyIdx, "key"}, {valIdx, "value"}} {
		n, okAll := 0, true
		var where token.Pos
		Instrs(fn, func(i ssa.Instruction) {
			st, ok := i.(*ssa.Store)
			if !ok || !isFieldAddr(st.Addr, kvN, f.idx) {
				return
			}
			n++
			call, isCall := st.Val.(*ssa.Call)
			good := false
			if isCall {
				if b, isB := call.Call.Value.(*ssa.Builtin); isB && b.Name() == "append" {
					if sl, isSl := call.Call.Args[0].(*ssa.Slice); isSl && isFieldLoad(sl.X, kvN, f.idx) {
						if hi, isK := ConstIntOf(sl.High); isK && hi == 0 {
							good = true
						}
					}
				}
			}
			if !good {
				okAll = false
				where = st.Pos()
			}
		})
		pos := p.Pos(fn.Pos())
		if !okAll {
			pos = p.Pos(where)
		}
		if n == 0 {
			c.Undec("copyArgs: "+f.name+" copied by append", pos, "no store into argsKV."+f.name+" found in copyArgs: idiom not recognised")
			continue
		}
		c.Check(okAll, "copyArgs: "+f.name+" copied by append", pos, "slot."+f.name+" = append(slot."+f.name+"[:0], ...)", "a destination slot's "+f.name+" is assigned something else than append(slot."+f.name+"[:0], bytes...): the destination shares (or keeps) a buffer instead of owning a copy")
	}
}

// ---------------------------------------------------------------------------------------------------------------
// C13.14  ModifySocket records the protocol it installs

func init() {
	register(&Rule{ID: "C13.14", Prop: "C13", Min: 2,
		Text: "the session remembers the protocol a dial hook installed: in ModifySocket the protocol list handed to socket.Reset is a load of session.protoFuncs, and the hook's new ProtoFunc is stored into that field (append) - the websocket client's redial hook re-installs GetProtoFunc(), so a protocol that was installed but not recorded is replaced by the creation-time one after a redial and every later call hangs",
		Run: runC13_14})
	register(&Rule{ID: "C19.10", Prop: "C19", Min: 3,
		Text: "a backend failure is Bad Gateway on that call only: the forwarding session's writers can start a redial from both PassiveClosed and RedialFailed (same obligations as C13.9) - otherwise one outage longer than a round of attempts leaves the proxy answering 502 for ever although the backend is back",
		Run:  runC13_9})
	register(&Rule{ID: "C19.9", Prop: "C19", Min: 1,
		Text: "request metadata reaches the backend unchanged: the query parser overwrites both fields of a recycled slot for every pair it reports (same obligations as C20.6) - the proxy appends X-Real-IP behind the caller's pairs, so a valueless key that was last is followed by '&' on the forwarded hop and would otherwise pick up a stale value there",
		Run:  runC20_6})
}

func runC13_14(c *Ctx) {
	p := c.P
	fn := p.Fn(Root, "session", "ModifySocket")
	sessN, pfIdx := p.FieldIndex(Root, "session", "protoFuncs")
	reset := p.MethodObj(Root+"/socket", "Socket", "Reset")
	calls := CallsTo(fn, reset)
	var viaHelper *ssa.Call
	if len(calls) == 0 {
		// the tail may have been extracted into a same-package helper (one level)
		for _, hc := range AllCalls(fn) {
			h := hc.Common().StaticCallee()
			if h == nil || h.Pkg != fn.Pkg || len(h.Blocks) == 0 {
				continue
			}
			if hcalls := CallsTo(h, reset); len(hcalls) == 1 {
				calls = hcalls
				viaHelper, _ = hc.(*ssa.Call)
			}
		}
	}
	if len(calls) != 1 {
		c.Undec("ModifySocket installs the recorded protocol", p.Pos(fn.Pos()), fmt.Sprintf("expected one socket.Reset in ModifySocket (or in the helper it calls), found %d", len(calls)))
		return
	}
	args := CallArgs(calls[0])
	va := args[len(args)-1]
	if prm, isPrm := va.(*ssa.Parameter); isPrm && viaHelper != nil {
		// the helper is handed the list: look at what ModifySocket passes
		for k, hp := range viaHelper.Call.StaticCallee().Params {
			if hp == prm && k < len(viaHelper.Call.Args) {
				va = viaHelper.Call.Args[k]
			}
		}
	}
	c.fact("value-identity")
	c.Check(isFieldLoad(va, sessN, pfIdx), "ModifySocket installs the recorded protocol", p.InstrPos(calls[0]), "socket.Reset(conn, s.protoFuncs...)",
		"ModifySocket hands socket.Reset a protocol list that is not the session's recorded one (s.protoFuncs): GetProtoFunc() then reports another protocol than the one in use - the websocket redial hook re-installs it, the bare sub-protocol reads the live connection to EOF and every call after the reconnection hangs")
	// the hook's new ProtoFunc is recorded
	recorded := false
	Instrs(fn, func(i ssa.Instruction) {
		st, ok := i.(*ssa.Store)
		if !ok || !isFieldAddr(st.Addr, sessN, pfIdx) {
			return
		}
		call, isCall := st.Val.(*ssa.Call)
		if !isCall {
			return
		}
		if b, isB := call.Call.Value.(*ssa.Builtin); !isB || b.Name() != "append" {
			return
		}
		// the appended element is result #1 of the hook
		if sl, isSl := call.Call.Args[len(call.Call.Args)-1].(*ssa.Slice); isSl {
			if al, isAl := sl.X.(*ssa.Alloc); isAl && al.Referrers() != nil {
				for _, r := range *al.Referrers() {
					ia, isIA := r.(*ssa.IndexAddr)
					if !isIA || ia.Referrers() == nil {
						continue
					}
					for _, rr := range *ia.Referrers() {
						if s2, isS2 := rr.(*ssa.Store); isS2 {
							if ex, isEx := s2.Val.(*ssa.Extract); isEx && ex.Index == 1 {
								recorded = true
							}
						}
					}
				}
			}
		}
	})
	c.Check(recorded, "ModifySocket records the new protocol", p.Pos(fn.Pos()), "s.protoFuncs = append(s.protoFuncs[:0], newProtoFunc)",
		"ModifySocket never stores the hook's new ProtoFunc into s.protoFuncs: GetProtoFunc() keeps reporting the creation-time protocol")
}

// ---------------------------------------------------------------------------------------------------------------
// C15.4  only the receive side writes through Message.Status()

func init() {
	register(&Rule{ID: "C15.4", Prop: "C15", Min: 6,
		Text: "a status installed on a message is never written in place: every write through the result of Message.Status() (a store through the pointer, a field store, SetCode/SetMsg/SetCause/Clear/DecodeQuery/UnmarshalJSON/TagStack on it) lies in a protocol's Unpack (or a helper only Unpack calls) and targets that function's own message parameter - SetStatus installs shared objects (the predefined statuses, whatever a handler returned), so '*m.Status(true) = *stat' on an output message overwrites the shared 102 for the whole process",
		Run: runC15_4})
}

var statusMutatorSet = map[string]bool{"SetCode": true, "SetMsg": true, "SetCause": true, "Clear": true, "DecodeQuery": true, "UnmarshalJSON": true, "TagStack": true}

func onlyCalledFromUnpack(p *Prog, fn *ssa.Function, depth int) bool {
	if fn.Name() == "Unpack" && fn.Signature.Recv() != nil {
		return true
	}
	if depth > 3 {
		return false
	}
	n := 0
	for _, other := range p.ShippedFuncs() {
		if other.Pkg != fn.Pkg {
			continue
		}
		for _, call := range AllCalls(other) {
			if call.Common().StaticCallee() == fn {
				n++
				if !onlyCalledFromUnpack(p, EnclosingTop(other), depth+1) {
					return false
				}
			}
		}
	}
	return n > 0
}

func runC15_4(c *Ctx) {
	p := c.P
	nOK := 0
	for _, fn := range p.ShippedFuncs() {
		k := 0
		for _, call := range AllCalls(fn) {
			o := CalleeObj(call)
			if o == nil || o.Name() != "Status" || o.Pkg() == nil || o.Pkg().Path() != Root+"/socket" {
				continue
			}
			v, ok := call.(ssa.Value)
			if !ok || v.Referrers() == nil {
				continue
			}
			var writes []ssa.Instruction
			for _, r := range *v.Referrers() {
				switch x := r.(type) {
				case *ssa.Store:
					if x.Addr == v {
						writes = append(writes, r)
					}
				case *ssa.FieldAddr:
					if x.Referrers() != nil {
						for _, rr := range *x.Referrers() {
							if st, isSt := rr.(*ssa.Store); isSt && st.Addr == ssa.Value(x) {
								writes = append(writes, rr)
							}
						}
					}
				case ssa.CallInstruction:
					if mo := CalleeObj(x); mo != nil && statusMutatorSet[mo.Name()] && len(x.Common().Args) > 0 && x.Common().Args[0] == v {
						writes = append(writes, r)
					}
				}
			}
			if len(writes) == 0 {
				continue
			}
			recv := Resolve(call.Common().Value)
			if !call.Common().IsInvoke() && len(call.Common().Args) > 0 {
				recv = Resolve(call.Common().Args[0])
			}
			k++
			key := fmt.Sprintf("write through Message.Status() #%d in %s", k, FnName(fn))
			c.fact("who-may-write")
			top := EnclosingTop(fn)
			if isParamOf(recv, fn) && onlyCalledFromUnpack(p, top, 0) {
				nOK++
				c.Hold(key, p.InstrPos(writes[0]), "decodes into the message a protocol's Unpack was handed")
				continue
			}
			c.Viol(key, p.InstrPos(writes[0]), "the status object of a message is written in place outside a protocol's Unpack: the object may be shared (SetStatus installs the predefined statuses and whatever a handler returned, e.g. the 102 of a failed backend push) - after this write every later failure that reports that status shows the new code/message")
		}
	}
	if nOK < 6 {
		c.Undec("decode sites", "", fmt.Sprintf("found %d decode-into-message sites in Unpack functions, expected >= 6", nOK))
	}
}

// ---------------------------------------------------------------------------------------------------------------
// C08.11  the websocket server keeps the connection until a graceful close has finished

func init() {
	register(&Rule{ID: "C08.11", Prop: "C08", Min: 1,
		Text: "a connection owner does not let go when a close merely begins: CloseNotify fires at the START of closeLocked (before the waits for running handlers), so every shipped function that blocks on <-sess.CloseNotify() and whose return releases the connection (the websocket server's per-connection handler: the websocket library closes the socket when it returns) passes Session.Close() - which queues on the session lock until the graceful close has finished - on every path from the receive to a return",
		Run: runC08_11})
}

func runC08_11(c *Ctx) {
	p := c.P
	closeM := p.MethodObj(Root, "Session", "Close")
	n := 0
	for _, fn := range p.ShippedFuncs() {
		Instrs(fn, func(i ssa.Instruction) {
			u, ok := i.(*ssa.UnOp)
			if !ok || u.Op != token.ARROW {
				return
			}
			call, isCall := u.X.(*ssa.Call)
			if !isCall {
				return
			}
			if o := CalleeObj(call); o == nil || o.Name() != "CloseNotify" {
				return
			}
			n++
			okPass, exits := p.MustPassBeforeExit(i, func(j ssa.Instruction) bool {
				cc, isC := j.(ssa.CallInstruction)
				if !isC {
					return false
				}
				o := CalleeObj(cc)
				return o != nil && (o == closeM || (o.Name() == "Close" && o.Pkg() != nil && o.Pkg().Path() == Root))
			}, nil)
			c.fact("must-pass")
			pos := p.InstrPos(i)
			if !okPass && len(exits) > 0 {
				pos = p.InstrPos(exits[0])
			}
			c.Check(okPass, "wait for the close to finish in "+FnName(fn), pos, "<-CloseNotify() is followed by Session.Close() on every path to the return",
				FnName(fn)+" returns as soon as CloseNotify fires: the notification is sent when a close BEGINS, the caller (the websocket server) then closes the connection while closeLocked is still waiting for running handlers - their replies are lost and the callers get a connection error instead of the genuine reply")
		})
	}
	if n == 0 {
		c.Undec("CloseNotify waiters", "", "no shipped function blocks on <-CloseNotify() (the websocket server handler is expected): idiom not recognised")
	}
}

// ---------------------------------------------------------------------------------------------------------------
// C02.15 / C08.12  nobody Close() waits for queues on the lock Close() holds

func init() {
	t := "no wait cycle through the session lock: Close() holds session.lock while it waits for the outstanding-call and handler wait-groups, so every other acquisition of session.lock (redialForClient, reached from AsyncCall after the call was counted and from handlers) is preceded on every path by a status test (getStatus() comparisons or the checkStatus membership helper) that returns for ActiveClosing and ActiveClosed - the two states in which Close holds the lock and waits; otherwise a call issued on a redial-enabled client while Close() waits for another call blocks on the lock, Close waits for that call, and neither ever returns"
	register(&Rule{ID: "C02.15", Prop: "C02", Min: 1, Text: t, Run: runNoLockUnderClose})
	register(&Rule{ID: "C08.12", Prop: "C08", Min: 1, Text: "Close returns: " + t, Run: runNoLockUnderClose})
	register(&Rule{ID: "C13.15", Prop: "C13", Min: 1, Text: "later calls fail fast instead of hanging: " + t, Run: runNoLockUnderClose})
}

func runNoLockUnderClose(c *Ctx) {
	p := c.P
	st := p.statusTable()
	sessN, lockIdx := p.FieldIndex(Root, "session", "lock")
	getStatus := p.MethodObj(Root, "session", "getStatus")
	checkStatus := p.MethodObj(Root, "session", "checkStatus")
	closeFn := p.Fn(Root, "session", "Close")
	n := 0
	for _, fn := range p.ShippedFuncs() {
		if fn == closeFn || fn.Pkg == nil || fn.Pkg.Pkg.Path() != Root {
			continue
		}
		for _, call := range AllCalls(fn) {
			o := CalleeObj(call)
			if o == nil || o.FullName() != "(*sync.RWMutex).Lock" {
				continue
			}
			if _, isDefer := call.(*ssa.Defer); isDefer {
				continue
			}
			fr, _, ok := FieldOfAddr(call.Common().Args[0])
			if !ok || fr.Struct != sessN || fr.Index != lockIdx {
				continue
			}
			n++
			key := "session.lock taken in " + FnName(fn)
			missing := []string{}
			for _, name := range []string{"statusActiveClosing", "statusActiveClosed"} {
				k := st.val[name]
				// every path from the entry to the Lock crosses the != edge of a comparison getStatus() == k
				cut := map[[2]*ssa.BasicBlock]bool{}
				for _, e := range EqEdges(fn) {
					kv, isK := ConstIntOf(e.Y)
					if !isK || kv != k {
						continue
					}
					if cl, isCall := e.X.(*ssa.Call); !isCall || CalleeObj(cl) != getStatus {
						continue
					}
					cut[[2]*ssa.BasicBlock{e.If.Block(), e.Ne}] = true
				}
				// ... or the false edge of the membership test checkStatus(..., k, ...)
				for _, b := range fn.Blocks {
					ifi, isIf := b.Instrs[len(b.Instrs)-1].(*ssa.If)
					if !isIf {
						continue
					}
					cv, neg := stripNot(ifi.Cond)
					cl, isCall := cv.(*ssa.Call)
					if !isCall || CalleeObj(cl) != checkStatus {
						continue
					}
					args := CallArgs(cl)
					vals, okV := VariadicInts(args[len(args)-1])
					has := false
					for _, v := range vals {
						if v == k {
							has = true
						}
					}
					if !okV || !has {
						continue
					}
					notMember := b.Succs[1]
					if neg {
						notMember = b.Succs[0]
					}
					cut[[2]*ssa.BasicBlock{b, notMember}] = true
				}
				target := call.(ssa.Instruction)
				reach := p.ReachableFromBlock(fn.Blocks[0], func(i ssa.Instruction) bool { return i == target }, nil,
					func(b *ssa.BasicBlock, si int) bool { return !cut[[2]*ssa.BasicBlock{b, b.Succs[si]}] })
				if len(cut) == 0 || len(reach) > 0 {
					missing = append(missing, strings.TrimPrefix(name, "status"))
				}
			}
			c.fact("path-search")
			c.Check(len(missing) == 0, key, p.InstrPos(call), "reached only past getStatus() != ActiveClosing && != ActiveClosed",
				FnName(fn)+" queues on session.lock without first returning for "+strings.Join(missing, ", ")+": Close() holds that lock while it waits for the calls in flight - a call issued during that wait (AsyncCall has already counted it) blocks here, Close waits for it, both hang for ever")
		}
	}
	if n == 0 {
		c.Undec("session.lock acquisitions", "", "no acquisition of session.lock outside Close found (redialForClient is expected): idiom not recognised")
	}
}
