package main

import (
	"fmt"
	"go/token"
	"go/types"
	"sort"
	"strings"

	"golang.org/x/tools/go/ssa"
)

// Rules added in the fourth round (seeded changes G/H and the reading they forced).

func init() {
	t513 := "the writer's escape table covers the reader's: in the Pack of the two JSON-framed protocols the body (MarshalBody, through OnPack) and the service method reach the frame only through an escaper that distinguishes the quote (ends the literal for gjson), the backslash (starts an escape) and every control byte below 0x20 (gjson truncates an escaped string there); a Replace chain or strconv.Quote (\\x escapes gjson does not know) is not such an escaper"
	register(&Rule{ID: "C05.13", Prop: "C05", Min: 4, Text: t513, Run: runJSONEscaping})
	register(&Rule{ID: "C01.12", Prop: "C01", Min: 4, Text: "a handler sees exactly the body its sender supplied over the JSON-framed protocols (same obligations as C05.13): " + t513, Run: runJSONEscaping})
}

// ---------------------------------------------------------------------------------------------------------------
// C05.13  JSON string escaping of arbitrary-byte fields

type byteSet [256]bool

func (s *byteSet) addRange(lo, hi int64) { // [lo,hi)
	for i := lo; i < hi && i < 256; i++ {
		if i >= 0 {
			s[i] = true
		}
	}
}

func (s *byteSet) missing(req *byteSet) []string {
	var out []string
	for i := 0; i < 256; i++ {
		if req[i] && !s[i] {
			out = append(out, fmt.Sprintf("0x%02x", i))
		}
	}
	return out
}

func isByteTyped(v ssa.Value) bool {
	b, ok := v.Type().Underlying().(*types.Basic)
	return ok && (b.Kind() == types.Uint8 || b.Kind() == types.Int32 || b.Kind() == types.UntypedRune)
}

// distinguishedBytes: the byte values a function tells apart from the rest by comparing a byte-typed value with a
// constant (==, !=, switch cases, < <= > >= against a bound). tableDriven reports an index into a table by a byte.
func distinguishedBytes(fn *ssa.Function) (set byteSet, tableDriven bool) {
	for _, f := range WithAnon(fn) {
		Instrs(f, func(i ssa.Instruction) {
			switch x := i.(type) {
			case *ssa.BinOp:
				var k int64
				var other ssa.Value
				constLeft := false
				if kv, ok := ConstIntOf(x.Y); ok {
					k, other = kv, x.X
				} else if kv, ok := ConstIntOf(x.X); ok {
					k, other, constLeft = kv, x.Y, true
				} else {
					return
				}
				if !isByteTyped(other) {
					return
				}
				op := x.Op
				if constLeft { // K op v  ==  v op' K
					switch op {
					case token.LSS:
						op = token.GTR
					case token.LEQ:
						op = token.GEQ
					case token.GTR:
						op = token.LSS
					case token.GEQ:
						op = token.LEQ
					}
				}
				switch op {
				case token.EQL, token.NEQ:
					set.addRange(k, k+1)
				case token.LSS, token.GEQ: // v < K  /  v >= K split the bytes at K
					set.addRange(0, k)
				case token.LEQ, token.GTR:
					set.addRange(0, k+1)
				}
			case *ssa.IndexAddr:
				if isByteTyped(x.Index) || isConvOfByte(x.Index) {
					if _, isArr := x.X.Type().Underlying().(*types.Pointer); isArr {
						if g, isG := x.X.(*ssa.Global); isG && g != nil {
							tableDriven = true
						}
					}
				}
			case *ssa.Index:
				if isConvOfByte(x.Index) || isByteTyped(x.Index) {
					if _, isC := x.X.(*ssa.Const); !isC { // hex digit strings are constants
						tableDriven = true
					}
				}
			}
		})
	}
	return
}

func isConvOfByte(v ssa.Value) bool {
	if cv, ok := v.(*ssa.Convert); ok {
		return isByteTyped(cv.X)
	}
	return false
}

type escOutcome struct {
	via  string // how the value reached the frame
	pos  token.Pos
	ok   bool
	und  bool
	what string
}

// followToFrame follows a value forward inside fn until it is consumed by an escaper or by a raw sink.
func followToFrame(p *Prog, fn *ssa.Function, src ssa.Value, req *byteSet) []escOutcome {
	var out []escOutcome
	seen := map[ssa.Value]bool{}
	work := []ssa.Value{src}
	push := func(v ssa.Value) {
		if v != nil && !seen[v] {
			seen[v] = true
			work = append(work, v)
		}
	}
	seen[src] = true
	raw := func(pos token.Pos, what string) {
		out = append(out, escOutcome{via: what, pos: pos, ok: false, what: "written into the JSON string literal without an escaper (" + what + ")"})
	}
	checkEscaper := func(f *ssa.Function, pos token.Pos) {
		set, table := distinguishedBytes(f)
		miss := set.missing(req)
		name := FnName(f)
		switch {
		case len(miss) == 0:
			out = append(out, escOutcome{via: name, pos: pos, ok: true, what: "escaped by " + name + " (distinguishes the quote, the backslash and the control bytes)"})
		case table:
			out = append(out, escOutcome{via: name, pos: pos, und: true, what: "escaper " + name + " is table-driven: idiom not recognised"})
		default:
			out = append(out, escOutcome{via: name, pos: pos, ok: false, what: "escaper " + name + " does not distinguish " + summarizeBytes(miss)})
		}
	}
	for len(work) > 0 {
		v := work[len(work)-1]
		work = work[:len(work)-1]
		refs := v.Referrers()
		if refs == nil {
			continue
		}
		for _, r := range *refs {
			switch x := r.(type) {
			case *ssa.Extract, *ssa.Phi, *ssa.Slice, *ssa.ChangeType, *ssa.Convert, *ssa.MakeInterface, *ssa.ChangeInterface:
				push(x.(ssa.Value))
			case *ssa.UnOp:
				if x.Op == token.MUL {
					push(x)
				}
			case *ssa.Store:
				if x.Val != v {
					continue
				}
				switch a := x.Addr.(type) {
				case *ssa.IndexAddr:
					if al, ok := a.X.(*ssa.Alloc); ok {
						push(al)
					} else {
						raw(x.Pos(), "stored into "+a.X.Name())
					}
				case *ssa.Alloc:
					push(a)
				default:
					raw(x.Pos(), "stored through "+x.Addr.Name())
				}
			case *ssa.IndexAddr, *ssa.Index, *ssa.Range, *ssa.Lookup:
				// inline escaping loop over the bytes: the function itself is the escaper
				if isBytesOrString(v.Type()) {
					checkEscaper(fn, r.Pos())
				}
			case ssa.CallInstruction:
				isArg := false
				argIdx := -1
				for k, a := range x.Common().Args {
					if a == v {
						isArg, argIdx = true, k
					}
				}
				if !isArg {
					continue
				}
				if b, ok := x.Common().Value.(*ssa.Builtin); ok {
					switch b.Name() {
					case "len", "cap":
					default:
						raw(x.Pos(), "builtin "+b.Name())
					}
					continue
				}
				obj := CalleeObj(x)
				full := ""
				if obj != nil {
					full = obj.FullName()
				}
				switch {
				case obj != nil && (obj.Name() == "StringToBytes" || obj.Name() == "BytesToString"): // zero-copy views of the same bytes
					if val, ok := x.(ssa.Value); ok {
						push(val)
					}
				case obj != nil && obj.Name() == "OnPack" && strings.Contains(full, "/xfer.XferPipe"):
					if val, ok := x.(ssa.Value); ok {
						push(val)
					}
				case full == "bytes.Replace" || full == "bytes.ReplaceAll" || full == "strings.Replace" || full == "strings.ReplaceAll" || full == "(*strings.Replacer).Replace":
					if argIdx != 0 {
						continue
					}
					var set byteSet
					cur := x
					names := []string{}
					for cur != nil {
						if olds, ok := VariadicInts(cur.Common().Args[1]); ok && len(olds) == 1 {
							set.addRange(olds[0], olds[0]+1)
							names = append(names, fmt.Sprintf("0x%02x", olds[0]))
						}
						var next ssa.CallInstruction
						if val, ok := cur.(ssa.Value); ok && val.Referrers() != nil {
							for _, rr := range *val.Referrers() {
								if nc, ok := rr.(ssa.CallInstruction); ok {
									if o := CalleeObj(nc); o != nil && strings.HasSuffix(o.FullName(), ".Replace") && len(nc.Common().Args) > 0 && nc.Common().Args[0] == val {
										next = nc
									}
								}
							}
						}
						cur = next
					}
					out = append(out, escOutcome{via: full, pos: x.Pos(), ok: false, what: "escaped by a " + full + " chain over {" + strings.Join(names, ",") + "} only: does not distinguish " + summarizeBytes(set.missing(req))})
				case strings.HasPrefix(full, "strconv.Quote") || strings.HasPrefix(full, "strconv.AppendQuote"):
					out = append(out, escOutcome{via: full, pos: x.Pos(), ok: false, what: full + " renders non-printable and non-UTF-8 bytes as \\x.. / \\a / \\v escapes, which the gjson reader does not decode (the string is cut there)"})
				default:
					if f := StaticFn(x); f != nil && f.Pkg != nil && strings.HasPrefix(f.Pkg.Pkg.Path(), Root) && returnsBytes(f) {
						checkEscaper(f, x.Pos())
					} else {
						raw(x.Pos(), "handed to "+full)
					}
				}
			}
		}
	}
	return out
}

func returnsBytes(f *ssa.Function) bool {
	res := f.Signature.Results()
	if res.Len() == 0 {
		return false
	}
	return isBytesOrString(res.At(0).Type())
}

func isBytesOrString(typ types.Type) bool {
	switch t := typ.Underlying().(type) {
	case *types.Slice:
		b, ok := t.Elem().Underlying().(*types.Basic)
		return ok && b.Kind() == types.Uint8
	case *types.Basic:
		return t.Kind() == types.String
	}
	return false
}

func summarizeBytes(miss []string) string {
	if len(miss) > 4 {
		return fmt.Sprintf("%d byte values (%s .. %s)", len(miss), miss[0], miss[len(miss)-1])
	}
	return strings.Join(miss, ",")
}

func runJSONEscaping(c *Ctx) {
	p := c.P
	var req byteSet
	req.addRange(0, 0x20)
	req.addRange('"', '"'+1)
	req.addRange('\\', '\\'+1)
	fams := [][2]string{{Root + "/proto/jsonproto", "jsonproto"}, {Root + "/mixer/websocket/jsonSubProto", "jsonSubProto"}}
	for _, fam := range fams {
		fn := p.Fn(fam[0], fam[1], "Pack")
		for _, field := range []string{"MarshalBody", "ServiceMethod"} {
			var srcs []ssa.Value
			for _, call := range AllCalls(fn) {
				if o := CalleeObj(call); o != nil && o.Name() == field && o.Pkg() != nil && strings.HasSuffix(o.Pkg().Path(), "/socket") {
					if v, ok := call.(ssa.Value); ok {
						srcs = append(srcs, v)
					}
				}
			}
			key := fam[1] + ".Pack " + field
			if len(srcs) == 0 {
				c.Undec(key, p.Pos(fn.Pos()), "no call to Message."+field+" found in Pack: idiom not recognised")
				continue
			}
			var outs []escOutcome
			for _, s := range srcs {
				outs = append(outs, followToFrame(p, fn, s, &req)...)
			}
			c.fact("value-forward")
			c.fact("escape-table")
			if len(outs) == 0 {
				c.Undec(key, p.Pos(fn.Pos()), field+"() never reaches the frame: idiom not recognised")
				continue
			}
			sort.Slice(outs, func(i, j int) bool { return outs[i].pos < outs[j].pos })
			bad, und := "", ""
			var badPos, okPos token.Pos
			okMsg := ""
			for _, o := range outs {
				switch {
				case o.und:
					und = o.what
					badPos = o.pos
				case !o.ok:
					if bad == "" {
						bad = o.what
						badPos = o.pos
					}
				default:
					okMsg, okPos = o.what, o.pos
				}
			}
			switch {
			case bad != "":
				c.Viol(key, p.Pos(badPos), field+"() is "+bad+": a value holding such a byte does not come back from Unpack (gjson ends the literal at the quote, takes the backslash as an escape, cuts an escaped string at a control byte)")
			case und != "":
				c.Undec(key, p.Pos(badPos), und)
			default:
				c.Hold(key, p.Pos(okPos), okMsg)
			}
		}
	}
}

// ---------------------------------------------------------------------------------------------------------------
// C06.11  decompression on the receive path is bounded by the configured limit

func init() {
	register(&Rule{ID: "C06.11", Prop: "C06", Min: 2,
		Text: "a frame within the read limit does not inflate beyond it: every read-to-exhaustion (ReadAll / io.Copy / ReadFrom) of a compress/* reader in shipped code goes through io.LimitReader whose bound derives from the configured limit (xfer.UnpackSizeLimit() or socket.MessageSizeLimit()), and socket.SetMessageSizeLimit hands the limit it stored to xfer.SetUnpackSizeLimit on every path",
		Run: runC06_11})
}

func unboxIface(v ssa.Value) ssa.Value {
	for {
		switch x := v.(type) {
		case *ssa.MakeInterface:
			v = x.X
		case *ssa.ChangeInterface:
			v = x.X
		default:
			return v
		}
	}
}

func isDecompressor(v ssa.Value) bool {
	t := v.Type()
	if pt, ok := t.Underlying().(*types.Pointer); ok {
		t = pt.Elem()
	}
	n, ok := t.(*types.Named)
	if !ok || n.Obj().Pkg() == nil {
		return false
	}
	return strings.HasPrefix(n.Obj().Pkg().Path(), "compress/")
}

// derivesFromCall: v is computed (through conversions and +/- constants) from the result of a call to one of the named functions.
func derivesFromCall(v ssa.Value, names map[string]bool, depth int) bool {
	if depth > 6 {
		return false
	}
	switch x := v.(type) {
	case *ssa.Convert:
		return derivesFromCall(x.X, names, depth+1)
	case *ssa.ChangeType:
		return derivesFromCall(x.X, names, depth+1)
	case *ssa.BinOp:
		if x.Op == token.ADD || x.Op == token.SUB {
			if _, ok := ConstIntOf(x.Y); ok {
				return derivesFromCall(x.X, names, depth+1)
			}
			if _, ok := ConstIntOf(x.X); ok && x.Op == token.ADD {
				return derivesFromCall(x.Y, names, depth+1)
			}
		}
	case *ssa.Call:
		if o := CalleeObj(x); o != nil && names[o.FullName()] {
			return true
		}
	}
	return false
}

func runC06_11(c *Ctx) {
	p := c.P
	limitFns := map[string]bool{
		Root + "/xfer.UnpackSizeLimit":    true,
		Root + "/socket.MessageSizeLimit": true,
	}
	readerArg := map[string]int{
		"io/ioutil.ReadAll": 0, "io.ReadAll": 0, "io.Copy": 1, "io.CopyBuffer": 1,
		"(*bytes.Buffer).ReadFrom": 0, "(*" + Root + "/utils.ByteBuffer).ReadFrom": 0,
	}
	n := 0
	for _, fn := range p.ShippedFuncs() {
		for _, call := range AllCalls(fn) {
			o := CalleeObj(call)
			if o == nil {
				continue
			}
			idx, isRead := readerArg[o.FullName()]
			if !isRead {
				continue
			}
			args := CallArgs(call)
			if idx >= len(args) {
				continue
			}
			r := unboxIface(args[idx])
			key := "inflate in " + FnName(fn)
			if isDecompressor(r) {
				n++
				c.Viol(key, p.InstrPos(call), o.FullName()+" reads a "+r.Type().String()+" to exhaustion with no bound: a frame within the read limit (a few KB of compressed zeros) makes the receiver buffer gigabytes for one message")
				continue
			}
			lr, isCall := r.(*ssa.Call)
			if !isCall {
				continue
			}
			if lo := CalleeObj(lr); lo == nil || lo.FullName() != "io.LimitReader" {
				continue
			}
			inner := unboxIface(lr.Call.Args[0])
			if !isDecompressor(inner) {
				continue
			}
			n++
			c.fact("value-backward")
			c.Check(derivesFromCall(lr.Call.Args[1], limitFns, 0), key, p.InstrPos(call),
				"bounded by io.LimitReader(configured limit)",
				"the bound of io.LimitReader is not derived from the configured limit (xfer.UnpackSizeLimit / socket.MessageSizeLimit): the receiver buffers more (or refuses less) than the per-message read limit")
		}
	}
	if n == 0 {
		c.Undec("inflate sites", "", "no read of a compress/* reader found in shipped code (the gzip filter is expected): idiom not recognised")
	}
	// the limit configured on the socket package reaches the filters
	set := p.Fn(Root+"/socket", "", "SetMessageSizeLimit")
	fwd := p.FuncObj(Root+"/xfer", "SetUnpackSizeLimit")
	g := p.Global(Root+"/socket", "messageSizeLimit")
	okArg := true
	for _, call := range CallsTo(set, fwd) {
		if a := call.Common().Args[0]; !IsLoadOfGlobal(a, g) {
			okArg = false
		}
	}
	ok, exits := p.MustPassFromEntry(set, func(i ssa.Instruction) bool { return IsCallTo(i, fwd) }, nil)
	c.fact("must-pass")
	pos := p.Pos(set.Pos())
	if !ok && len(exits) > 0 {
		pos = p.InstrPos(exits[0])
	}
	c.Check(ok && okArg, "SetMessageSizeLimit forwards the limit", pos, "every path hands messageSizeLimit to xfer.SetUnpackSizeLimit",
		"socket.SetMessageSizeLimit returns without handing the stored limit to xfer.SetUnpackSizeLimit: the filters keep inflating up to the previous (default 1 GB) bound under a smaller read limit")
}
