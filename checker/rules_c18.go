package main

import (
	"fmt"
	"go/token"
	"sort"
	"strings"

	"golang.org/x/tools/go/ssa"
)

const olPkg = Root + "/plugin/overloader"

func init() {
	register(&Rule{ID: "C18.7", Prop: "C18", Min: 2,
		Text: "every refill clamps the bucket: each path of qpsLimiter.updateToken stores the token count, and the stored value is the limit, the per-tick amount (after an overdraw) or tokens+once on the edge where that sum does not exceed the limit - a tick that leaves the count untouched keeps tokens of an older, higher limit spendable",
		Run:  runC18_7})
	register(&Rule{ID: "C18.1", Prop: "C18", Min: 6,
		Text: "limiter counters are shared atomically: connLimiter.{lim,now,tmp} and qpsLimiter.{tokens,limit,once} are accessed only through sync/atomic (constructors exempt)",
		Run:  runC18_1})
	register(&Rule{ID: "C18.2", Prop: "C18", Min: 3,
		Text: "connection limiter path sums: every path of take() either admits (tmp +1, now +1, returns true, on the edge post-increment <= limit) or refuses with no net change (tmp +1 -1, returns false); release() is tmp -1, now -1",
		Run:  runC18_2})
	register(&Rule{ID: "C18.3", Prop: "C18", Min: 3,
		Text: "a slot is released exactly for sessions that took one: releaseConn is reachable only from PostDisconnect and only on the edge where per-session admission evidence is found (and cleared); PostAccept records that evidence on the admit edge only; the framework runs PostDisconnect for refused connections too (C07.11)",
		Run:  runC18_3})
	register(&Rule{ID: "C18.4", Prop: "C18", Min: 4,
		Text: "refusals are reported, not handled: the refusal edges of PostAccept and PostReadCallHeader return a freshly built non-OK status (C09.5: vetoed => not handled, error reply); qpsLimiter.take admits only when tokens > 0 and the post-decrement is non-negative",
		Run:  runC18_4})
}

func runC18_1(c *Ctx) {
	p := c.P
	want := map[string][]string{"connLimiter": {"lim", "now", "tmp"}, "qpsLimiter": {"tokens", "limit", "once"}}
	for _, typ := range []string{"connLimiter", "qpsLimiter"} {
		n := p.Named(olPkg, typ)
		accs := p.FieldAccesses(n)
		for _, f := range want[typ] {
			_, idx := p.FieldIndex(olPkg, typ, f)
			bad := ""
			cnt := 0
			for _, a := range accs {
				if a.Field.Index != idx {
					continue
				}
				cnt++
				if a.Kind == AccAtomic {
					continue
				}
				if fa, ok := fieldAddrOf(a.Instr); ok && structIsFresh(fa.X) {
					continue
				}
				bad = fmt.Sprintf("%s at %s in %s", a.Kind, p.InstrPos(a.Instr), FnName(a.Fn))
			}
			c.fact("field-access-set")
			c.Check(bad == "" && cnt > 0, typ+"."+f+" atomic-only", p.Pos(n.Obj().Pos()), fmt.Sprintf("%d accesses, all atomic (or in the constructor)", cnt), typ+"."+f+" is accessed non-atomically ("+bad+") while take/refill use sync/atomic: lost updates let more than the limit through")
		}
	}
}

// pathSums enumerates the acyclic paths of fn and, per path, the net atomic.AddInt32 delta per field and the returned constant.
func pathSums(p *Prog, fn *ssa.Function) []string {
	var out []string
	var walk func(b *ssa.BasicBlock, sums map[string]int64, seen map[*ssa.BasicBlock]bool)
	walk = func(b *ssa.BasicBlock, sums map[string]int64, seen map[*ssa.BasicBlock]bool) {
		if seen[b] {
			return
		}
		seen2 := map[*ssa.BasicBlock]bool{b: true}
		for k := range seen {
			seen2[k] = true
		}
		s2 := map[string]int64{}
		for k, v := range sums {
			s2[k] = v
		}
		for _, in := range b.Instrs {
			switch x := in.(type) {
			case *ssa.Call:
				if o := CalleeObj(x); o != nil && o.FullName() == "sync/atomic.AddInt32" {
					if fr, _, ok := FieldOfAddr(x.Call.Args[0]); ok {
						if k, okc := ConstIntOf(x.Call.Args[1]); okc {
							s2[fr.String()] += k
						} else {
							s2[fr.String()+"?"]++
						}
					}
				}
			case *ssa.Return:
				ret := "void"
				if len(x.Results) == 1 {
					if cst, ok := x.Results[0].(*ssa.Const); ok && cst.Value != nil {
						ret = cst.Value.String()
					} else {
						ret = "?"
					}
				}
				var parts []string
				for _, k := range sortedKeys(s2) {
					if s2[k] != 0 {
						parts = append(parts, fmt.Sprintf("%s%+d", k, s2[k]))
					}
				}
				out = append(out, ret+":"+strings.Join(parts, ","))
				return
			}
		}
		for _, s := range b.Succs {
			walk(s, s2, seen2)
		}
	}
	walk(fn.Blocks[0], map[string]int64{}, map[*ssa.BasicBlock]bool{})
	sort.Strings(out)
	return out
}

func runC18_2(c *Ctx) {
	p := c.P
	take := p.Fn(olPkg, "connLimiter", "take")
	release := p.Fn(olPkg, "connLimiter", "release")
	gotT := strings.Join(pathSums(p, take), " | ")
	wantT := "false: | true:connLimiter.now+1,connLimiter.tmp+1"
	c.fact("path-enumeration")
	c.Check(gotT == wantT, "connLimiter.take path sums", p.Pos(take.Pos()), gotT, "connLimiter.take paths are ["+gotT+"], expected ["+wantT+"]: a refused take leaves a residue or an admitted one is not counted - the number of admitted sessions drifts from the counter")
	gotR := strings.Join(pathSums(p, release), " | ")
	wantR := "void:connLimiter.now-1,connLimiter.tmp-1"
	c.Check(gotR == wantR, "connLimiter.release path sums", p.Pos(release.Pos()), gotR, "connLimiter.release paths are ["+gotR+"], expected ["+wantR+"]")
	// admission edge: x <= lim where x is the post-increment of tmp
	ok := false
	for _, b := range take.Blocks {
		ifi, isIf := b.Instrs[len(b.Instrs)-1].(*ssa.If)
		if !isIf {
			continue
		}
		bo, isB := ifi.Cond.(*ssa.BinOp)
		if !isB || bo.Op != token.LEQ {
			continue
		}
		x, okx := bo.X.(*ssa.Call)
		y, oky := bo.Y.(*ssa.Call)
		if !okx || !oky || CalleeObj(x) == nil || CalleeObj(x).FullName() != "sync/atomic.AddInt32" || CalleeObj(y) == nil || CalleeObj(y).FullName() != "sync/atomic.LoadInt32" {
			continue
		}
		fx, _, ok1 := FieldOfAddr(x.Call.Args[0])
		fy, _, ok2 := FieldOfAddr(y.Call.Args[0])
		if ok1 && ok2 && fx.String() == "connLimiter.tmp" && fy.String() == "connLimiter.lim" {
			// the true edge returns true
			w := &Walk{P: p}
			w.FromBlock(b.Succs[0])
			for _, r := range w.Exits {
				if cst, isC := r.(*ssa.Return).Results[0].(*ssa.Const); isC && cst.Value != nil && cst.Value.String() == "true" {
					ok = true
				}
			}
		}
	}
	c.Check(ok, "connLimiter.take admits iff post-increment <= limit", p.Pos(take.Pos()), "atomic.AddInt32(&tmp,1) <= atomic.LoadInt32(&lim)", "connLimiter.take does not admit exactly on `post-increment of tmp <= lim`: more than the limit (or fewer) sessions are admitted under concurrent takes")
}

func runC18_3(c *Ctx) {
	p := c.P
	releaseConn := p.MethodObj(olPkg, "Overloader", "releaseConn")
	takeConn := p.MethodObj(olPkg, "Overloader", "takeConn")
	pd := p.Fn(olPkg, "Overloader", "PostDisconnect")
	pa := p.Fn(olPkg, "Overloader", "PostAccept")
	// who releases
	okCallers := true
	for _, fn := range p.ShippedFuncs() {
		for _, call := range CallsTo(fn, releaseConn) {
			if fn != pd {
				okCallers = false
				c.Viol("releaseConn called from "+FnName(fn), p.InstrPos(call), "a connection slot is released outside PostDisconnect")
			}
		}
	}
	if okCallers {
		c.HoldTrivial("releaseConn callers", p.Pos(pd.Pos()), "only PostDisconnect")
	}
	// derived-from-session values
	derived := func(fn *ssa.Function) map[ssa.Value]bool {
		d := map[ssa.Value]bool{ssa.Value(fn.Params[1]): true}
		for changed := true; changed; {
			changed = false
			Instrs(fn, func(i ssa.Instruction) {
				v, ok := i.(ssa.Value)
				if !ok || d[v] {
					return
				}
				var ops []*ssa.Value
				ops = i.Operands(ops)
				for _, op := range ops {
					if op != nil && *op != nil && d[*op] {
						d[v] = true
						changed = true
						return
					}
				}
			})
		}
		return d
	}
	dpd := derived(pd)
	rel := CallsTo(pd, releaseConn)
	okRel := len(rel) == 1
	if okRel {
		guarded := false
		for _, b := range pd.Blocks {
			ifi, isIf := b.Instrs[len(b.Instrs)-1].(*ssa.If)
			if !isIf {
				continue
			}
			cv, _ := stripNot(ifi.Cond)
			if dpd[cv] && (BlockDominatesInstr(b.Succs[0], rel[0]) || BlockDominatesInstr(b.Succs[1], rel[0])) && !(b.Succs[0] == b.Succs[1]) {
				guarded = true
			}
		}
		okRel = guarded
	}
	c.fact("data-dependence+dominance")
	c.Check(okRel, "PostDisconnect releases only with admission evidence", p.Pos(pd.Pos()), "releaseConn dominated by a test that depends on the disconnected session",
		"Overloader.PostDisconnect releases a connection slot without checking that this session was admitted: the framework also disconnects (and runs PostDisconnect for) connections the overloader refused, so each refusal frees a slot it never held and more than MaxConn sessions get admitted")
	// PostAccept records the evidence on the admit edge only
	dpa := derived(pa)
	okMark := false
	for _, b := range pa.Blocks {
		ifi, isIf := b.Instrs[len(b.Instrs)-1].(*ssa.If)
		if !isIf {
			continue
		}
		cv, neg := stripNot(ifi.Cond)
		call, isC := cv.(*ssa.Call)
		if !isC || CalleeObj(call) != takeConn {
			continue
		}
		admit, refuse := b.Succs[0], b.Succs[1]
		if neg {
			admit, refuse = refuse, admit
		}
		usesSess := func(blk *ssa.BasicBlock) bool {
			hit := p.ReachableFromBlock(blk, func(i ssa.Instruction) bool {
				cc, ok := i.(ssa.CallInstruction)
				if !ok {
					return false
				}
				for _, a := range cc.Common().Args {
					if dpa[a] {
						return true
					}
				}
				return cc.Common().IsInvoke() && dpa[cc.Common().Value]
			}, nil, nil)
			return len(hit) > 0
		}
		okMark = usesSess(admit) && !usesSess(refuse)
	}
	c.Check(okMark, "PostAccept records admission on the admit edge only", p.Pos(pa.Pos()), "the session is recorded when takeConn succeeded, not when it was refused", "Overloader.PostAccept does not record which sessions it admitted (or records refused ones too): PostDisconnect cannot tell a refused connection from an admitted session")
}

func runC18_4(c *Ctx) {
	p := c.P
	newStatus := p.Global(Root, "NewStatus")
	for _, name := range []string{"PostAccept", "PostReadCallHeader"} {
		fn := p.Fn(olPkg, "Overloader", name)
		nilRet, freshRet, other := 0, 0, 0
		Instrs(fn, func(i ssa.Instruction) {
			ret, ok := i.(*ssa.Return)
			if !ok {
				return
			}
			v := ReturnVals(ret)[0]
			switch {
			case IsNilConst(v):
				nilRet++
			default:
				if call, ok := v.(*ssa.Call); ok && IsLoadOfGlobal(call.Call.Value, newStatus) {
					if k, okc := ConstIntOf(call.Call.Args[0]); okc && k != 0 {
						freshRet++
						return
					}
				}
				other++
			}
		})
		c.fact("return-shape")
		c.Check(nilRet >= 1 && freshRet >= 1 && other == 0, "Overloader."+name+" refusal is a fresh non-OK status", p.Pos(fn.Pos()), fmt.Sprintf("%d admit (nil) and %d refusal (NewStatus(non-zero code)) returns", nilRet, freshRet), "Overloader."+name+" does not report a refusal with a freshly built non-OK status")
	}
	// the admit return of PostAccept / PostReadCallHeader is on the take-success edge
	for _, s := range []struct{ fn, take string }{{"PostAccept", "takeConn"}, {"PostReadCallHeader", "takeTotalQPS"}} {
		fn := p.Fn(olPkg, "Overloader", s.fn)
		take := p.MethodObj(olPkg, "Overloader", s.take)
		ok := false
		for _, e := range CondCallEdges(fn, take) {
			// from the refuse edge no nil return is reachable
			w := &Walk{P: p}
			w.FromBlock(e.False)
			bad := false
			for _, r := range w.Exits {
				if IsNilConst(ReturnVals(r.(*ssa.Return))[0]) {
					bad = true
				}
			}
			ok = !bad && len(w.Exits) > 0
		}
		c.Check(ok, "Overloader."+s.fn+" never admits on the refuse edge of "+s.take, p.Pos(fn.Pos()), "refuse edge returns non-OK only", "Overloader."+s.fn+" can return OK although "+s.take+" refused")
	}
	// qps take
	qt := p.Fn(olPkg, "qpsLimiter", "take")
	got := strings.Join(pathSums(p, qt), " | ")
	okQ := false
	// shape: if Load(tokens) <= 0 return false; return Add(tokens,-1) >= 0
	for _, b := range qt.Blocks {
		ifi, isIf := b.Instrs[len(b.Instrs)-1].(*ssa.If)
		if !isIf {
			continue
		}
		bo, isB := ifi.Cond.(*ssa.BinOp)
		if isB && bo.Op == token.LEQ {
			if k, okc := ConstIntOf(bo.Y); okc && k == 0 {
				if call, isC := bo.X.(*ssa.Call); isC && CalleeObj(call) != nil && CalleeObj(call).FullName() == "sync/atomic.LoadInt32" {
					okQ = true
				}
			}
		}
	}
	retGE := false
	Instrs(qt, func(i ssa.Instruction) {
		if ret, ok := i.(*ssa.Return); ok {
			if bo, ok := ret.Results[0].(*ssa.BinOp); ok && bo.Op == token.GEQ {
				if k, okc := ConstIntOf(bo.Y); okc && k == 0 {
					if call, isC := bo.X.(*ssa.Call); isC && CalleeObj(call) != nil && CalleeObj(call).FullName() == "sync/atomic.AddInt32" {
						if d, okd := ConstIntOf(call.Call.Args[1]); okd && d == -1 {
							retGE = true
						}
					}
				}
			}
		}
	})
	c.Check(okQ && retGE, "qpsLimiter.take admits only with a token", p.Pos(qt.Pos()), "tokens <= 0 => refuse; admit iff post-decrement >= 0 ("+got+")", "qpsLimiter.take no longer admits only when a token is available (tokens > 0 and post-decrement >= 0): the bucket can be overdrawn")
}

func init() {
	register(&Rule{ID: "C18.5", Prop: "C18", Min: 2,
		Text: "limit updates keep the accounting: a limiter object is created only when none exists (newConnLimiter / newQPSLimiter stored only on the `== nil` edge); a changed limit is applied to the existing limiter (update), so live sessions and consumed tokens stay counted",
		Run:  runC18_5})
	register(&Rule{ID: "C18.6", Prop: "C18", Min: 1,
		Text: "one refill ticker per limiter: when the interval changes, qpsLimiter.update stops the old ticker before installing the new one and starts exactly one refill goroutine after installing it",
		Run:  runC18_6})
}

func runC18_5(c *Ctx) {
	p := c.P
	olN := p.Named(olPkg, "Overloader")
	for _, s := range []struct{ fn, field, ctor, upd string }{
		{"updateConnLimiter", "connLimiter", "newConnLimiter", "update"},
		{"updateTotalQPSLimiter", "totalQPSLimiter", "newQPSLimiter", "update"},
	} {
		fn := p.Fn(olPkg, "Overloader", s.fn)
		_, fIdx := p.FieldIndex(olPkg, "Overloader", s.field)
		ctor := p.FuncObj(olPkg, s.ctor)
		okAll, n := true, 0
		Instrs(fn, func(i ssa.Instruction) {
			st, ok := i.(*ssa.Store)
			if !ok || !isFieldAddr(st.Addr, olN, fIdx) {
				return
			}
			call, ok := st.Val.(*ssa.Call)
			if !ok || CalleeObj(call) != ctor {
				return
			}
			n++
			dom := false
			// the condition must be exactly `field == nil` (not a disjunction block that other conditions also reach)
			for _, e := range NilCmpEdges(fn, func(v ssa.Value) bool { return isFieldLoad(v, olN, fIdx) }) {
				if BlockDominatesInstr(e.Nil, st) {
					dom = true
				}
			}
			if !dom {
				okAll = false
			}
		})
		// a changed limit goes through the existing limiter's update()
		var updM = p.MethodObj(olPkg, map[string]string{"connLimiter": "connLimiter", "totalQPSLimiter": "qpsLimiter"}[s.field], s.upd)
		hasUpd := len(CallsTo(fn, updM)) > 0
		c.fact("dominance")
		c.Check(okAll && n >= 1 && hasUpd, "Overloader."+s.fn+" creates a limiter only when none exists", p.Pos(fn.Pos()), s.ctor+" only on the nil edge; changed limits use "+s.upd+"()", "Overloader."+s.fn+" replaces an existing limiter by a fresh one (or never updates the existing one) when the configuration changes: its counters restart from zero while sessions/tokens of the old one are still out - more than the limit is admitted, and later releases drive the new counters negative")
	}
}

func runC18_6(c *Ctx) {
	p := c.P
	upd := p.Fn(olPkg, "qpsLimiter", "update")
	qN, tIdx := p.FieldIndex(olPkg, "qpsLimiter", "ticker")
	stop := p.MethodObj(olPkg, "qpsLimiter", "stopTicker")
	start := p.MethodObj(olPkg, "qpsLimiter", "startTicker")
	// the swap is in update itself or in a same-package helper it calls (depth <= 2)
	var cands []*ssa.Function
	seen := map[*ssa.Function]bool{}
	var rec func(f *ssa.Function, d int)
	rec = func(f *ssa.Function, d int) {
		if f == nil || seen[f] || len(f.Blocks) == 0 || d > 2 || f.Pkg != upd.Pkg {
			return
		}
		seen[f] = true
		cands = append(cands, f)
		for _, call := range AllCalls(f) {
			if _, isGo := call.(*ssa.Go); isGo {
				continue
			}
			rec(call.Common().StaticCallee(), d+1)
		}
	}
	rec(upd, 0)
	nStores := 0
	ok := true
	why := ""
	for _, fn := range cands {
		var stores []ssa.Instruction
		Instrs(fn, func(i ssa.Instruction) {
			if st, isSt := i.(*ssa.Store); isSt && isFieldAddr(st.Addr, qN, tIdx) {
				stores = append(stores, i)
			}
		})
		if len(stores) == 0 {
			continue
		}
		nStores += len(stores)
		// the edge on which the limiter has no ticker yet needs no stop
		nilEdge := map[[2]*ssa.BasicBlock]bool{}
		for _, e := range NilCmpEdges(fn, func(v ssa.Value) bool { return isFieldLoad(v, qN, tIdx) }) {
			nilEdge[[2]*ssa.BasicBlock{e.If.Block(), e.Nil}] = true
		}
		for _, st := range stores {
			target := st
			reach := p.ReachableFromBlock(fn.Blocks[0], func(i ssa.Instruction) bool { return i == target }, func(i ssa.Instruction) bool { return IsCallTo(i, stop) },
				func(b *ssa.BasicBlock, si int) bool { return !nilEdge[[2]*ssa.BasicBlock{b, b.Succs[si]}] })
			if len(reach) > 0 {
				// the helper itself does not stop: then every call of it from update's side must come after a stop
				covered := fn != upd
				if covered {
					nSites := 0
					for _, caller := range cands {
						for _, hc := range AllCalls(caller) {
							if hc.Common().StaticCallee() != fn {
								continue
							}
							nSites++
							site := hc.(ssa.Instruction)
							r2 := p.ReachableFromBlock(caller.Blocks[0], func(i ssa.Instruction) bool { return i == site }, func(i ssa.Instruction) bool { return IsCallTo(i, stop) }, nil)
							if len(r2) > 0 {
								covered = false
							}
						}
					}
					if nSites == 0 {
						covered = false
					}
				}
				if !covered {
					ok, why = false, "the ticker field of "+FnName(fn)+" can be replaced without stopTicker() on a path where a ticker exists"
				}
			}
			passes, _ := p.MustPassBeforeExit(st, func(i ssa.Instruction) bool {
				g, isGo := i.(*ssa.Go)
				return isGo && CalleeObj(g) == start
			}, nil)
			if !passes {
				ok, why = false, "after the new ticker is installed in "+FnName(fn)+" a path returns without starting the refill goroutine"
			}
			// no refill goroutine between the stop and the store (it would read the old ticker's channel)
			for _, call := range AllCalls(fn) {
				if g, isGo := call.(*ssa.Go); isGo && CalleeObj(g) == start && Dominates(g, st) {
					ok, why = false, "the refill goroutine is started before the new ticker is installed"
				}
			}
		}
	}
	if nStores == 0 {
		ok, why = false, "update (and its helpers) never install a new ticker"
	}
	// stopTicker stops the limiter's current ticker
	st := p.Fn(olPkg, "qpsLimiter", "stopTicker")
	stopsOwn := false
	for _, call := range AllCalls(st) {
		if o := CalleeObj(call); o != nil && o.FullName() == "(*time.Ticker).Stop" && isFieldLoad(call.Common().Args[0], qN, tIdx) {
			stopsOwn = true
		}
	}
	if !stopsOwn {
		ok, why = false, "stopTicker does not stop the limiter's own ticker"
	}
	c.fact("path-search")
	c.Check(ok, "qpsLimiter.update swaps tickers in order", p.Pos(upd.Pos()), "stopTicker() -> q.ticker = NewTicker -> go startTicker() (in update or its helper)", "qpsLimiter.update does not stop the old ticker before installing the new one (or starts the refill goroutine before/without it) - "+why+": the old refill goroutine keeps adding tokens at the old interval - the bucket refills far faster than configured")
}

func runC18_7(c *Ctx) {
	p := c.P
	fn := p.Fn(olPkg, "qpsLimiter", "updateToken")
	qN, tokIdx := p.FieldIndex(olPkg, "qpsLimiter", "tokens")
	_, limIdx := p.FieldIndex(olPkg, "qpsLimiter", "limit")
	_, onceIdx := p.FieldIndex(olPkg, "qpsLimiter", "once")
	isAtomic := func(i ssa.Instruction, name string, idx int) (*ssa.Call, bool) {
		call, ok := i.(*ssa.Call)
		if !ok || CalleeObj(call) == nil || CalleeObj(call).FullName() != "sync/atomic."+name || len(call.Call.Args) == 0 {
			return nil, false
		}
		return call, isFieldAddr(call.Call.Args[0], qN, idx)
	}
	var store *ssa.Call
	all, exits := p.MustPassFromEntry(fn, func(i ssa.Instruction) bool {
		if call, ok := isAtomic(i, "StoreInt32", tokIdx); ok {
			store = call
			return true
		}
		return false
	}, nil)
	c.fact("must-pass")
	var path []string
	for _, e := range exits {
		path = append(path, "return without storing the token count: "+p.InstrPos(e))
	}
	c.Check(all && store != nil, "updateToken stores the token count on every path", p.Pos(fn.Pos()), "every path ends in atomic.StoreInt32(&q.tokens, v)",
		"a refill tick can return without rewriting the token count: after the limit was lowered the bucket keeps more tokens than the new limit for ever (more than the configured rate is admitted)", path...)
	if store == nil {
		return
	}
	isLoad := func(v ssa.Value, idx int) bool {
		call, ok := v.(*ssa.Call)
		if !ok {
			return false
		}
		_, is := isAtomic(call, "LoadInt32", idx)
		return is
	}
	okVals := true
	bad := ""
	for _, o := range valueOrigins(store.Call.Args[1]) {
		switch {
		case isLoad(o, limIdx), isLoad(o, onceIdx):
		default:
			bo, isB := o.(*ssa.BinOp)
			guarded := false
			if isB && bo.Op == token.ADD {
				// on the false edge of `sum > limit` (or the true edge of `sum <= limit`)
				for _, blk := range fn.Blocks {
					ifi, isIf := blk.Instrs[len(blk.Instrs)-1].(*ssa.If)
					if !isIf {
						continue
					}
					cv, neg := stripNot(ifi.Cond)
					cmp, isC := cv.(*ssa.BinOp)
					if !isC || !isLoad(cmp.Y, limIdx) {
						continue
					}
					// go/ssa does not share common sub-expressions: the compared sum is another ADD of the same operands
					cadd, isAdd := cmp.X.(*ssa.BinOp)
					if !isAdd || cadd.Op != token.ADD || !((cadd.X == bo.X && cadd.Y == bo.Y) || (cadd.X == bo.Y && cadd.Y == bo.X)) {
						continue
					}
					var within *ssa.BasicBlock
					switch cmp.Op {
					case token.GTR:
						within = blk.Succs[1]
					case token.LEQ:
						within = blk.Succs[0]
					}
					if neg && within != nil {
						if within == blk.Succs[0] {
							within = blk.Succs[1]
						} else {
							within = blk.Succs[0]
						}
					}
					if within != nil && BlockDominatesInstr(within, bo) {
						guarded = true
					}
				}
			}
			if !guarded {
				okVals = false
				bad = o.String()
			}
		}
	}
	c.fact("phi-provenance")
	c.Check(okVals, "updateToken stores a clamped value", p.InstrPos(store), "stored value is limit, once, or tokens+once on the `<= limit` edge", "updateToken can store "+bad+" into the token count without comparing it with the limit: the bucket grows beyond the configured rate")
}
