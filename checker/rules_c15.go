package main

import (
	"fmt"
	"go/types"
	"strings"

	"golang.org/x/tools/go/ssa"
)

const statusPkg = "github.com/henrylee2cn/goutil/status"

func init() {
	register(&Rule{ID: "C15.1", Prop: "C15", Min: 8,
		Text: "no shipped code path applies a status mutator (SetCode, SetMsg, SetCause, Clear, DecodeQuery, UnmarshalJSON, TagStack, store through the pointer) to a value that may alias a package-level *Status (field-based value flow from every sentinel global through assignments, calls, fields, closures and interface boxing)",
		Run:  runC15_1})
	register(&Rule{ID: "C15.2", Prop: "C15", Min: 5,
		Text: "message-owned status: the decode-into-message sites (m.Status(true).DecodeQuery/UnmarshalJSON in Unpack functions) mutate a status owned by the message being read - every message handed to Socket.ReadMessage/Proto.Unpack is a pooled context input (reset: status nil; never SetStatus'ed by the framework) or a local pool message on which no shared status was set on a path reaching the read",
		Run:  runC15_2})
	register(&Rule{ID: "C15.3", Prop: "C15", Min: 10,
		Text: "the predefined statuses are assigned only by their package initialiser",
		Run:  runC15_3})
}

func isStatusPtr(t types.Type) bool {
	pt, ok := types.Unalias(t).Underlying().(*types.Pointer)
	if !ok {
		return false
	}
	n, ok := types.Unalias(pt.Elem()).(*types.Named)
	return ok && n.Obj().Name() == "Status" && n.Obj().Pkg() != nil && n.Obj().Pkg().Path() == statusPkg
}

// statusTrack: value types that may carry a *Status.
func statusTrack(t types.Type) bool {
	t = types.Unalias(t)
	if isStatusPtr(t) {
		return true
	}
	switch u := t.Underlying().(type) {
	case *types.Interface:
		return true
	case *types.Pointer:
		return isStatusPtr(u.Elem())
	case *types.Slice:
		return statusTrack(u.Elem())
	case *types.Map:
		return statusTrack(u.Elem())
	case *types.Chan:
		return statusTrack(u.Elem())
	case *types.Tuple:
		for i := 0; i < u.Len(); i++ {
			if statusTrack(u.At(i).Type()) {
				return true
			}
		}
	}
	return false
}

var statusMutators = []string{"SetCode", "SetMsg", "SetCause", "Clear", "DecodeQuery", "UnmarshalJSON", "TagStack"}

// statusFlow builds (once per run) the value-flow graph for *Status values.
func statusFlow(p *Prog) (*Flow, []interface{}, []*ssa.Global) {
	fns := append([]*ssa.Function{}, p.ShippedFuncs()...)
	if sp := p.SSAPkg[statusPkg]; sp != nil {
		for f := range p.AllFuncs() {
			if f.Pkg == sp && f.Blocks != nil {
				fns = append(fns, f)
			}
		}
	}
	fl := NewFlow(p, fns, statusTrack)
	var sources []interface{}
	var globals []*ssa.Global
	for _, sp := range p.Shipped {
		for _, m := range sp.Members {
			g, ok := m.(*ssa.Global)
			if !ok {
				continue
			}
			// g.Type() is pointer to the variable's type
			pt, ok := g.Type().Underlying().(*types.Pointer)
			if ok && isStatusPtr(pt.Elem()) {
				sources = append(sources, g)
				globals = append(globals, g)
			}
		}
	}
	return fl, sources, globals
}

// isAutoInitStatusCall: v is `m.Status(true)` on a socket Message/Header.
func isAutoInitStatusCall(p *Prog, v ssa.Value) bool {
	call, ok := v.(*ssa.Call)
	if !ok {
		return false
	}
	o := CalleeObj(call)
	if o == nil || o.Name() != "Status" || o.Pkg() == nil || o.Pkg().Path() != Root+"/socket" {
		return false
	}
	args := CallArgs(call)
	if len(args) != 1 {
		return false
	}
	sl, ok := args[0].(*ssa.Slice)
	if !ok {
		return false
	}
	al, ok := sl.X.(*ssa.Alloc)
	if !ok || al.Referrers() == nil {
		return false
	}
	for _, r := range *al.Referrers() {
		if ia, ok := r.(*ssa.IndexAddr); ok && ia.Referrers() != nil {
			for _, rr := range *ia.Referrers() {
				if st, ok := rr.(*ssa.Store); ok {
					if cst, ok := st.Val.(*ssa.Const); ok && cst.Value != nil && cst.Value.String() == "true" {
						return true
					}
				}
			}
		}
	}
	return false
}

func runC15_1(c *Ctx) {
	p := c.P
	fl, sources, globals := statusFlow(p)
	pred := fl.Reach(sources)
	c.fact("value-flow-graph")
	muts := map[*types.Func]bool{}
	for _, m := range statusMutators {
		muts[p.MethodObj(statusPkg, "Status", m)] = true
	}
	n := 0
	for _, fn := range p.ShippedFuncs() {
		Instrs(fn, func(i ssa.Instruction) {
			var recv ssa.Value
			what := ""
			switch x := i.(type) {
			case ssa.CallInstruction:
				o := CalleeObj(x)
				if o == nil || !muts[o] {
					return
				}
				recv = x.Common().Args[0]
				what = o.Name()
			case *ssa.Store:
				// *p = ... through a *Status value that is not a variable slot
				if !isStatusPtr(x.Addr.Type()) {
					return
				}
				switch x.Addr.(type) {
				case *ssa.Alloc, *ssa.FieldAddr, *ssa.Global, *ssa.IndexAddr, *ssa.FreeVar:
					return
				}
				recv = x.Addr
				what = "store through pointer"
			default:
				return
			}
			n++
			key := fmt.Sprintf("%s on %s in %s", what, recvDesc(recv), FnName(fn))
			pos := p.InstrPos(i)
			if isAutoInitStatusCall(p, recv) {
				c.HoldTrivial(key, pos, "receiver is m.Status(true) of the message being decoded: ownership decided by C15.2")
				return
			}
			if _, tainted := pred[recv]; tainted {
				path := fl.PathTo(pred, recv)
				src := ""
				if len(path) > 0 {
					src = path[0]
				}
				c.Viol(key, pos, fmt.Sprintf("%s is applied to a status that may be a shared predefined status (%s): one failing operation changes the code/message/cause every later caller observes, process-wide", what, src), path...)
			} else {
				c.Hold(key, pos, "receiver cannot hold a package-level status")
			}
		})
	}
	c.Facts["flow-edges"] = fl.Edges
	c.Facts["sources"] = len(globals)
	if len(globals) < 10 {
		c.Undec("sentinel sources", "", fmt.Sprintf("only %d package-level *Status variables found (expected >= 10)", len(globals)))
	}
}

func recvDesc(v ssa.Value) string {
	if fr, _, ok := LoadedField(v); ok {
		return fr.String()
	}
	if call, ok := v.(*ssa.Call); ok {
		if o := CalleeObj(call); o != nil {
			return o.Name() + "()"
		}
		return "call"
	}
	if u, ok := v.(*ssa.UnOp); ok {
		if g, ok := u.X.(*ssa.Global); ok {
			return g.Name()
		}
	}
	if prm, ok := v.(*ssa.Parameter); ok {
		return "param " + prm.Name()
	}
	return strings.TrimSpace(v.Name())
}

func runC15_2(c *Ctx) {
	p := c.P
	fl, sources, _ := statusFlow(p)
	pred := fl.Reach(sources)
	readMsg := p.MethodObj(Root+"/socket", "Socket", "ReadMessage")
	unpack := p.MethodObj(Root+"/socket", "Proto", "Unpack")
	setStatus := p.MethodObj(Root+"/socket", "Header", "SetStatus")
	getMessage := p.FuncObj(Root+"/socket", "GetMessage")
	newMessage := p.FuncObj(Root+"/socket", "NewMessage")
	hcN, inIdx := p.FieldIndex(Root, "handlerCtx", "input")
	nReads := 0
	for _, fn := range p.ShippedFuncs() {
		if fn.Pkg == nil {
			continue
		}
		path := fn.Pkg.Pkg.Path()
		if path != Root && path != Root+"/socket" && !strings.HasPrefix(path, Root+"/mixer/websocket") {
			continue
		}
		for _, call := range AllCalls(fn) {
			if !IsCallTo(call, readMsg, unpack) {
				continue
			}
			nReads++
			arg := Resolve(CallArgs(call)[0])
			key := "message read in " + FnName(fn)
			pos := p.InstrPos(call)
			switch {
			case isFieldLoad(arg, hcN, inIdx):
				c.Hold(key, pos, "reads into the pooled context's input (reset before use, see (b))")
			case isParamOf(arg, fn):
				c.HoldTrivial(key, pos, "passes its own message parameter on (delegation)")
			default:
				// a local from GetMessage/NewMessage (possibly through a phi)
				locals := originCalls(arg)
				okLocal := len(locals) > 0
				for _, l := range locals {
					if CalleeObj(l) != getMessage && CalleeObj(l) != newMessage {
						okLocal = false
					}
				}
				if !okLocal {
					c.Undec(key, pos, "cannot establish the origin of the message handed to the decoder (not a context input, parameter or pool message)")
					continue
				}
				// (c) no SetStatus(tainted) on this local on a path reaching the read
				bad := ""
				for _, ss := range CallsTo(fn, setStatus) {
					if !sameOrigin(Resolve(ss.Common().Value), arg) {
						continue
					}
					if _, tainted := pred[ss.Common().Args[0]]; !tainted {
						continue
					}
					if len(p.ReachableFrom(ss, func(i ssa.Instruction) bool { return i == call.(ssa.Instruction) }, nil, nil)) > 0 {
						bad = p.InstrPos(ss)
					}
				}
				c.fact("path-search+value-flow")
				c.Check(bad == "", key, pos, "pool message; no shared status set on a path reaching the read", "a shared predefined status is installed on the message at "+bad+" and the message is then decoded into: DecodeQuery/UnmarshalJSON overwrite the shared status")
			}
		}
	}
	if nReads < 3 {
		c.Undec("message reads", "", fmt.Sprintf("found %d ReadMessage/Unpack call sites, expected >= 3", nReads))
	}
	// (b) nobody in shipped code calls SetStatus on a context's input
	bad := 0
	for _, fn := range p.ShippedFuncs() {
		for _, ss := range CallsTo(fn, setStatus) {
			if isFieldLoad(Resolve(ss.Common().Value), hcN, inIdx) {
				bad++
				c.Viol("SetStatus on context input in "+FnName(fn), p.InstrPos(ss), "the framework sets a status on a pooled context's input message: a later decode into that message would mutate it in place")
			}
		}
	}
	if bad == 0 {
		c.Hold("no SetStatus on pooled context inputs", "", "no shipped function sets a status on handlerCtx.input")
	}
	// (d) Status(true) allocates a fresh status when none is set
	stFn := p.Fn(Root+"/socket", "message", "Status")
	mN, stIdx := p.FieldIndex(Root+"/socket", "message", "status")
	fresh := false
	Instrs(stFn, func(i ssa.Instruction) {
		st, ok := i.(*ssa.Store)
		if !ok || !isFieldAddr(st.Addr, mN, stIdx) {
			return
		}
		if al, ok := st.Val.(*ssa.Alloc); ok && al.Heap {
			fresh = true
		}
	})
	c.Check(fresh, "message.Status(true) allocates", p.Pos(stFn.Pos()), "a nil status is replaced by new(Status)", "message.Status(autoInit) no longer allocates a private status")
	// every Proto.Unpack implementation only mutates the status of its own parameter through Status(true)
	for _, fn := range p.ShippedFuncs() {
		if fn.Name() != "Unpack" || fn.Signature.Recv() == nil || len(fn.Params) != 2 {
			continue
		}
		c.HoldTrivial("Unpack implementation "+FnName(fn), p.Pos(fn.Pos()), "decoder entry point (its status writes are the m.Status(true) sites of C15.1)")
	}
}

func isParamOf(v ssa.Value, fn *ssa.Function) bool {
	for _, prm := range fn.Params {
		if v == ssa.Value(prm) {
			return true
		}
	}
	return false
}

// originCalls returns the call instructions a value may originate from (through phis).
func originCalls(v ssa.Value) []*ssa.Call {
	seen := map[ssa.Value]bool{}
	var out []*ssa.Call
	var rec func(x ssa.Value) bool
	rec = func(x ssa.Value) bool {
		x = Resolve(x)
		if seen[x] {
			return true
		}
		seen[x] = true
		switch y := x.(type) {
		case *ssa.Call:
			out = append(out, y)
			return true
		case *ssa.Phi:
			for _, e := range y.Edges {
				if !rec(e) {
					return false
				}
			}
			return true
		case *ssa.UnOp:
			// load of a result cell: follow stores
			if al, ok := y.X.(*ssa.Alloc); ok {
				vals, ok := cellStores(al)
				if !ok || len(vals) == 0 {
					return false
				}
				for _, s := range vals {
					if !rec(s) {
						return false
					}
				}
				return true
			}
		}
		return false
	}
	if !rec(v) {
		return nil
	}
	return out
}

func sameOrigin(a, b ssa.Value) bool {
	if a == b {
		return true
	}
	oa, ob := originCalls(a), originCalls(b)
	for _, x := range oa {
		for _, y := range ob {
			if x == y {
				return true
			}
		}
	}
	// loads of the same cell
	if ua, ok := a.(*ssa.UnOp); ok {
		if ub, ok := b.(*ssa.UnOp); ok && ua.X == ub.X {
			return true
		}
	}
	return false
}

func runC15_3(c *Ctx) {
	p := c.P
	_, _, globals := statusFlow(p)
	for _, g := range globals {
		bad := ""
		for _, fn := range p.ShippedFuncs() {
			Instrs(fn, func(i ssa.Instruction) {
				st, ok := i.(*ssa.Store)
				if !ok || st.Addr != ssa.Value(g) {
					return
				}
				if fn.Synthetic == "" || !strings.HasPrefix(fn.Synthetic, "package initializer") {
					bad = p.InstrPos(i) + " in " + FnName(fn)
				}
			})
		}
		key := "assignments to " + pkgShort(g.Pkg.Pkg.Path()) + "." + g.Name()
		c.fact("write-set")
		c.Check(bad == "", key, p.Pos(g.Pos()), "assigned only by the package initialiser", "predefined status variable reassigned at "+bad)
	}
}
