package main

import (
	"fmt"
	"go/token"
	"go/types"
	"strings"

	"golang.org/x/tools/go/ssa"
)

func init() {
	register(&Rule{ID: "C03.1", Prop: "C03", Min: 2,
		Text: "single dispatch: (*handlerCtx).handle has exactly one caller - the closure handed to Go() by the read loop, once per iteration - and is never taken as a function value",
		Run:  runC03_1})
	register(&Rule{ID: "C03.2", Prop: "C03", Min: 6,
		Text: "exhaustive message-type dispatch: handle() sends exactly TypeReply/TypePush/TypeCall to handleReply/handlePush/handleCall and every other type (and CodeMtypeNotAllowed) to `go sess.Close()`; binding() maps the same three and stores the not-allowed status for anything else",
		Run:  runC03_2})
	register(&Rule{ID: "C03.3", Prop: "C03", Min: 5,
		Text: "a handler is invoked at most once per message and only on OK edges: in handleCall/handlePush the calls through Handler.handleFunc/unknownHandleFunc are mutually exclusive, not in a loop, dominated by the OK edge of c.stat and of the postRead{Call,Push}Body result; the two fields are read nowhere else",
		Run:  runC03_3})
	register(&Rule{ID: "C03.4", Prop: "C03", Min: 3,
		Text: "reply exactly once on normal paths: every entry-to-exit path of handleCall contains writeReply; a second writeReply only on the failed edge of the first (and Code != CodeConnClosed); `writed = true` only on the OK edge with no writeReply after it",
		Run:  runC03_4})
	register(&Rule{ID: "C03.5", Prop: "C03", Min: 3,
		Text: "panic path answers: handleCall's deferred closure recovers; when a panic happened and nothing was written it stores a copy of the 500 sentinel if the status is still OK and calls writeReply; when the reply was written it does not write again",
		Run:  runC03_5})
	register(&Rule{ID: "C03.6", Prop: "C03", Min: 2,
		Text: "reply correlation: in handleCall the reply's seq is the request's seq (output.SetSeq(input.Seq())) and its type the constant TypeReply",
		Run:  runC03_6})
	register(&Rule{ID: "C03.7", Prop: "C03", Min: 2,
		Text: "a PUSH never produces a reply: writeReply and (*session).write are not reachable from handlePush/bindPush through framework-internal (static) calls",
		Run:  runC03_7})
	register(&Rule{ID: "C03.8", Prop: "C03", Min: 3,
		Text: "error routes still reply: every `return nil` of bindCall leaves a non-OK status in c.stat (hook veto, bad message, not found), so handleCall answers with an error instead of dropping the call",
		Run:  runC03_8})
	register(&Rule{ID: "C03.10", Prop: "C03", Min: 3,
		Text: "an error reply is always encodable: on the non-OK edge writeReply sets the status and clears body and body codec on every path before session.write (otherwise the fallback reply after a marshalling failure fails too and the call is never answered)",
		Run:  runErrorReplyConstruction})
	register(&Rule{ID: "C03.11", Prop: "C03", Min: 5,
		Text: "a failed reply write has sent nothing: in every buffered protocol's Pack, once the frame has been handed to the connection the only error that can still be returned is that Write's own - handleCall answers a failed writeReply with a fallback error reply, so a Pack that fails after writing makes the caller see two replies",
		Run:  runC03_11})
	register(&Rule{ID: "C03.12", Prop: "C03", Min: 2,
		Text: "a call the read loop cannot dispatch is refused, not dropped: on the edge where Go() refuses the handler goroutine every path passes a call into a function that, for a CALL (Mtype() == TypeCall), reaches writeReply with a non-OK status on every path - the caller gets an error reply instead of waiting for ever on a live connection",
		Run:  runC03_12})
	register(&Rule{ID: "C03.9", Prop: "C03", Min: 2,
		Text: "read-error classification in the read loop: a read error with a nil body codec, or a session that left the readable states, ends the loop (disconnect); any other read error is stored in ctx.stat before the message is dispatched",
		Run:  runC03_9})
}

// funcValueUses lists instructions that use fn as a value other than as the callee of a call.
func (p *Prog) funcValueUses(fn *ssa.Function) []ssa.Instruction {
	var out []ssa.Instruction
	for _, f := range p.ShippedFuncs() {
		Instrs(f, func(i ssa.Instruction) {
			var ops []*ssa.Value
			ops = i.Operands(ops)
			for k, op := range ops {
				if op == nil || *op == nil {
					continue
				}
				if *op == ssa.Value(fn) {
					if call, ok := i.(ssa.CallInstruction); ok && k == 0 && call.Common().Value == ssa.Value(fn) {
						continue
					}
					out = append(out, i)
				}
				// bound method closure
				if mc, ok := (*op).(*ssa.MakeClosure); ok {
					if bf, ok := mc.Fn.(*ssa.Function); ok && bf.Synthetic != "" && bf.Object() == fn.Object() && fn.Object() != nil {
						out = append(out, i)
					}
				}
			}
		})
	}
	return out
}

func runC03_1(c *Ctx) {
	p := c.P
	handle := p.Fn(Root, "handlerCtx", "handle")
	handleM := p.MethodObj(Root, "handlerCtx", "handle")
	loop := p.Fn(Root, "session", "startReadAndHandle")
	goF := p.FuncObj(Root, "Go")
	var dispatched *ssa.Function
	nGo := 0
	for _, call := range CallsTo(loop, goF) {
		nGo++
		dispatched = closureArg(call, 0)
	}
	n := 0
	for _, fn := range p.ShippedFuncs() {
		for _, call := range CallsTo(fn, handleM) {
			n++
			key := "handle() called from " + FnName(fn)
			c.Check(fn == dispatched && nGo == 1, key, p.InstrPos(call), "the dispatched closure of the read loop", "handle() is called from somewhere other than the read loop's dispatched closure: a message can be handled twice")
		}
	}
	if dispatched != nil {
		calls := CallsTo(dispatched, handleM)
		once := len(calls) == 1 && len(p.ReachableFrom(calls[0], func(i ssa.Instruction) bool { return IsCallTo(i, handleM) }, nil, nil)) == 0
		c.fact("path-search")
		c.Check(once, "dispatched closure calls handle() once", p.Pos(dispatched.Pos()), "one call, not in a loop", "the dispatched closure may call handle() more than once")
	}
	uses := p.funcValueUses(handle)
	c.fact("callers")
	c.Check(len(uses) == 0, "handle never escapes as a value", p.Pos(handle.Pos()), "no method value / function value of handle", fmt.Sprintf("handle is taken as a function value at %d site(s): callers cannot be enumerated", len(uses)))
	if n == 0 {
		c.Undec("handle callers", "", "no call to handle() found")
	}
}

const otherBit = 31

func mtypeConsts(p *Prog) map[int64]uint {
	return map[int64]uint{p.ConstInt(Root, "TypeCall"): 0, p.ConstInt(Root, "TypeReply"): 1, p.ConstInt(Root, "TypePush"): 2}
}

// runMtypeDispatch explores fn tracking the value of the (single) Mtype() call and reports, per
// target call, the set of message types with which it is reachable.
func runMtypeDispatch(c *Ctx, fn *ssa.Function, targets map[*types.Func]uint32, defaultPass func(ssa.Instruction) bool, keyPrefix, defaultWhat string) {
	p := c.P
	mtype := p.MethodObj(Root+"/socket", "Header", "Mtype")
	var calls []ssa.CallInstruction
	for _, call := range CallsTo(fn, mtype) {
		// the dispatching Mtype() is the one whose result is compared with constants
		if refs := call.(ssa.Value).Referrers(); refs != nil {
			for _, r := range *refs {
				if _, isB := r.(*ssa.BinOp); isB {
					calls = append(calls, call)
					break
				}
			}
		}
	}
	if len(calls) != 1 {
		c.Undec(keyPrefix+" Mtype() anchor", p.Pos(fn.Pos()), fmt.Sprintf("expected one Mtype() call, found %d", len(calls)))
		return
	}
	consts := mtypeConsts(p)
	names := map[uint]string{0: "TypeCall", 1: "TypeReply", 2: "TypePush", otherBit: "<other>"}
	seen := map[*types.Func]uint32{}
	const passedDefault = 1
	okDefault := true
	vt := &ValTrack{P: p, Tracked: calls[0].(ssa.Value), Consts: consts}
	// universe must include "other"
	vt.Consts = map[int64]uint{}
	for k, v := range consts {
		vt.Consts[k] = v
	}
	vt.Consts[-999] = otherBit
	started := false
	vt.Visit = func(i ssa.Instruction, mask, fl uint32) (uint32, bool) {
		if i == calls[0].(ssa.Instruction) {
			started = true
		}
		if call, ok := i.(ssa.CallInstruction); ok {
			if o := CalleeObj(call); o != nil {
				if _, isT := targets[o]; isT {
					if _, isGo := i.(*ssa.Go); !isGo {
						seen[o] |= mask
					}
				}
			}
		}
		if defaultPass(i) {
			fl |= passedDefault
		}
		return fl, false
	}
	vt.OnExit = func(r *ssa.Return, mask, fl uint32) {
		if mask&(1<<otherBit) != 0 && fl&passedDefault == 0 {
			okDefault = false
		}
	}
	vt.Run(fn, 0)
	_ = started
	c.fact("value-tracking")
	for o, want := range targets {
		key := keyPrefix + " -> " + o.Name()
		got := seen[o]
		c.Check(got == want, key, p.Pos(fn.Pos()), fmt.Sprintf("reached exactly for %v", maskNames(want, names)),
			fmt.Sprintf("%s is reached for message types %v, expected exactly %v", o.Name(), maskNames(got, names), maskNames(want, names)))
	}
	c.Check(okDefault, keyPrefix+" default", p.Pos(fn.Pos()), "every path for an unsupported type "+defaultWhat, "a message of an unsupported type can fall through "+fn.Name()+" without: "+defaultWhat)
}

func runC03_2(c *Ctx) {
	p := c.P
	handle := p.Fn(Root, "handlerCtx", "handle")
	closeM := p.MethodObj(Root, "session", "Close")
	runMtypeDispatch(c, handle, map[*types.Func]uint32{
		p.MethodObj(Root, "handlerCtx", "handleCall"):  1 << 0,
		p.MethodObj(Root, "handlerCtx", "handleReply"): 1 << 1,
		p.MethodObj(Root, "handlerCtx", "handlePush"):  1 << 2,
	}, func(i ssa.Instruction) bool {
		g, ok := i.(*ssa.Go)
		return ok && CalleeObj(g) == closeM
	}, "handle()", "disconnects (go sess.Close())")
	// the CodeMtypeNotAllowed short-cut also disconnects: from the true edge of Code()==CodeMtypeNotAllowed no handler is reachable
	codeM := p.MethodObj("github.com/henrylee2cn/goutil/status", "Status", "Code")
	notAllowed := p.ConstInt(Root, "CodeMtypeNotAllowed")
	found := false
	for _, ee := range EqEdges(handle) {
		call, ok := ee.X.(*ssa.Call)
		k, okc := ConstIntOf(ee.Y)
		if !ok || !okc || CalleeObj(call) != codeM || k != notAllowed {
			continue
		}
		t := ee.Eq
		ifi := ee.If
		found = true
		hs := p.ReachableFromBlock(t, func(i ssa.Instruction) bool {
			return IsCallTo(i, p.MethodObj(Root, "handlerCtx", "handleCall"), p.MethodObj(Root, "handlerCtx", "handleReply"), p.MethodObj(Root, "handlerCtx", "handlePush"))
		}, nil, nil)
		w := &Walk{P: p, Stop: func(i ssa.Instruction) bool { g, ok := i.(*ssa.Go); return ok && CalleeObj(g) == closeM }}
		w.FromBlock(t)
		c.fact("path-search")
		c.Check(len(hs) == 0 && len(w.Exits) == 0, "handle() not-allowed status short-cut", p.InstrPos(ifi), "goes straight to the disconnect", "a message whose binding status is CodeMtypeNotAllowed can still reach a handler or return without disconnecting")
	}
	if !found {
		c.Viol("handle() not-allowed status short-cut", p.Pos(handle.Pos()), "handle() no longer tests c.stat.Code() == CodeMtypeNotAllowed")
	}
	// binding
	binding := p.Fn(Root, "handlerCtx", "binding")
	_, statIdx := p.FieldIndex(Root, "handlerCtx", "stat")
	na := p.Global(Root, "statCodeMtypeNotAllowed")
	runMtypeDispatch(c, binding, map[*types.Func]uint32{
		p.MethodObj(Root, "handlerCtx", "bindCall"):  1 << 0,
		p.MethodObj(Root, "handlerCtx", "bindReply"): 1 << 1,
		p.MethodObj(Root, "handlerCtx", "bindPush"):  1 << 2,
	}, func(i ssa.Instruction) bool {
		st, ok := i.(*ssa.Store)
		if !ok {
			return false
		}
		fa, ok := st.Addr.(*ssa.FieldAddr)
		return ok && fa.Field == statIdx && IsLoadOfGlobal(st.Val, na)
	}, "binding()", "stores statCodeMtypeNotAllowed in c.stat")
}

// handlerCalls lists the indirect calls through Handler.handleFunc / unknownHandleFunc in fn.
func handlerCalls(p *Prog, fn *ssa.Function) []ssa.CallInstruction {
	hN, hfIdx := p.FieldIndex(Root, "Handler", "handleFunc")
	_, ufIdx := p.FieldIndex(Root, "Handler", "unknownHandleFunc")
	var out []ssa.CallInstruction
	for _, call := range AllCalls(fn) {
		v := call.Common().Value
		if call.Common().IsInvoke() || v == nil {
			continue
		}
		if isFieldLoad(v, hN, hfIdx) || isFieldLoad(v, hN, ufIdx) {
			out = append(out, call)
		}
	}
	return out
}

// okEdgeAfterHook finds the `if c.stat.OK()` that tests the status stored from hook's result:
// Store(&c.stat, call hook) followed in the same block by load c.stat; OK(); If.
func okEdgeAfterHook(p *Prog, fn *ssa.Function, hook *types.Func) *CondEdge {
	okM := p.MethodObj("github.com/henrylee2cn/goutil/status", "Status", "OK")
	hcN, statIdx := p.FieldIndex(Root, "handlerCtx", "stat")
	for _, e := range CondCallEdges(fn, okM) {
		e := e
		// direct: OK(hookcall)
		if call, ok := e.Recv.(*ssa.Call); ok && CalleeObj(call) == hook {
			return &e
		}
		if !isFieldLoad(e.Recv, hcN, statIdx) {
			continue
		}
		b := e.If.Block()
		// last store to c.stat in this block before the load
		var lastStore *ssa.Store
		for _, in := range b.Instrs {
			if in == e.Recv.(ssa.Instruction) {
				break
			}
			if st, ok := in.(*ssa.Store); ok && isFieldAddr(st.Addr, hcN, statIdx) {
				lastStore = st
			} else if _, isCall := in.(ssa.CallInstruction); isCall && lastStore != nil {
				lastStore = nil // a call between store and load may change c.stat
			}
		}
		if lastStore == nil {
			continue
		}
		if call, ok := lastStore.Val.(*ssa.Call); ok && CalleeObj(call) == hook {
			return &e
		}
	}
	return nil
}

func runC03_3(c *Ctx) {
	p := c.P
	okM := p.MethodObj("github.com/henrylee2cn/goutil/status", "Status", "OK")
	hcN, statIdx := p.FieldIndex(Root, "handlerCtx", "stat")
	for _, s := range []struct {
		fn   string
		hook string
	}{{"handleCall", "postReadCallBody"}, {"handlePush", "postReadPushBody"}} {
		fn := p.Fn(Root, "handlerCtx", s.fn)
		hook := p.MethodObj(Root, "pluginSingleContainer", s.hook)
		hcs := handlerCalls(p, fn)
		if len(hcs) != 2 {
			c.Undec(s.fn+" handler call sites", p.Pos(fn.Pos()), fmt.Sprintf("expected 2 indirect handler calls (handleFunc / unknownHandleFunc), found %d", len(hcs)))
			continue
		}
		isH := func(i ssa.Instruction) bool {
			for _, h := range hcs {
				if i == h.(ssa.Instruction) {
					return true
				}
			}
			return false
		}
		// at most once per path
		once := true
		for _, h := range hcs {
			if len(p.ReachableFrom(h, isH, nil, nil)) > 0 {
				once = false
			}
		}
		c.fact("path-search")
		c.Check(once, s.fn+" handler at most once", p.InstrPos(hcs[0]), "no path runs two handler calls", "a path through "+s.fn+" invokes a handler twice")
		// OK edges
		var hookEdge *CondEdge
		if s.fn == "handlePush" {
			// `if hook(c) == nil` form
			hcalls := CallsTo(fn, hook)
			for _, e := range NilCmpEdges(fn, func(v ssa.Value) bool {
				call, ok := v.(*ssa.Call)
				return ok && CalleeObj(call) == hook
			}) {
				hookEdge = &CondEdge{If: e.If, True: e.Nil, False: e.NonNil}
			}
			_ = hcalls
		}
		if hookEdge == nil {
			hookEdge = okEdgeAfterHook(p, fn, hook)
		}
		if hookEdge == nil {
			c.Viol(s.fn+" handler after "+s.hook+" OK", p.Pos(fn.Pos()), "cannot find the OK test of "+s.hook+"'s result: a vetoed message may reach the handler")
			continue
		}
		allDom := true
		for _, h := range hcs {
			if !BlockDominatesInstr(hookEdge.True, h) {
				allDom = false
			}
		}
		c.fact("dominance")
		c.Check(allDom, s.fn+" handler after "+s.hook+" OK", p.InstrPos(hookEdge.If), "both handler calls dominated by the hook's OK edge", "a handler call in "+s.fn+" is not dominated by the OK edge of "+s.hook+": a plugin veto does not stop the handler")
		// the hook itself only when c.stat is OK
		hookOK := false
		for _, hc := range CallsTo(fn, hook) {
			for _, e := range CondCallEdges(fn, okM) {
				if isFieldLoad(e.Recv, hcN, statIdx) && BlockDominatesInstr(e.True, hc) {
					hookOK = true
				}
			}
		}
		c.Check(hookOK, s.fn+" body stage only when c.stat is OK", p.Pos(fn.Pos()), s.hook+" (and the handler) run only on the OK edge of c.stat", s.hook+"/handler in "+s.fn+" not guarded by c.stat.OK(): a message that failed binding (unknown route, bad body, veto) still reaches the handler")
	}
	// the two fields are read only in handleCall / handlePush (and written only by constructors)
	hN, hfIdx := p.FieldIndex(Root, "Handler", "handleFunc")
	_, ufIdx := p.FieldIndex(Root, "Handler", "unknownHandleFunc")
	allowed := map[*ssa.Function]bool{p.Fn(Root, "handlerCtx", "handleCall"): true, p.Fn(Root, "handlerCtx", "handlePush"): true}
	nRead := 0
	for _, a := range p.FieldAccesses(hN) {
		if a.Field.Index != hfIdx && a.Field.Index != ufIdx {
			continue
		}
		if a.Kind == AccWrite {
			continue
		}
		nRead++
		key := "Handler." + a.Field.String() + " " + a.Kind.String() + " in " + FnName(a.Fn)
		c.Check(allowed[a.Fn] && a.Kind == AccRead, key, p.InstrPos(a.Instr), "read by the dispatch function", "a handler function field is read/escapes outside handleCall/handlePush: handlers can be invoked outside the once-per-message dispatch")
	}
	c.fact("field-access-set")
	if nRead < 4 {
		c.Undec("handler field reads", "", fmt.Sprintf("found %d reads of Handler.handleFunc/unknownHandleFunc, expected 4", nRead))
	}
}

func runC03_4(c *Ctx) {
	p := c.P
	fn := p.Fn(Root, "handlerCtx", "handleCall")
	writeReply := p.MethodObj(Root, "handlerCtx", "writeReply")
	okM := p.MethodObj("github.com/henrylee2cn/goutil/status", "Status", "OK")
	codeM := p.MethodObj("github.com/henrylee2cn/goutil/status", "Status", "Code")
	connClosed := p.ConstInt(Root, "CodeConnClosed")
	isWR := func(i ssa.Instruction) bool { return IsCallTo(i, writeReply) }
	ok, exits := p.MustPassFromEntry(fn, isWR, nil)
	c.fact("must-pass")
	var path []string
	for _, e := range exits {
		path = append(path, "return without writeReply: "+p.InstrPos(e))
	}
	c.Check(ok, "handleCall replies on every normal path", p.Pos(fn.Pos()), "every entry-to-exit path passes writeReply", "a path through handleCall returns without writing a reply: the call is silently dropped", path...)
	wrs := CallsTo(fn, writeReply)
	// first = those not reachable from another
	for _, w2 := range wrs {
		var pred ssa.CallInstruction
		for _, w1 := range wrs {
			if w1 == w2 {
				continue
			}
			if len(p.ReachableFrom(w1, func(i ssa.Instruction) bool { return i == w2.(ssa.Instruction) }, nil, nil)) > 0 {
				pred = w1
			}
		}
		if pred == nil {
			continue
		}
		// w2 is a second write: must be on !OK(pred) and Code(pred) != CodeConnClosed
		g1, g2 := false, false
		for _, e := range CondCallEdges(fn, okM) {
			if e.Recv == pred.(ssa.Value) && BlockDominatesInstr(e.False, w2) {
				g1 = true
			}
		}
		for _, b := range fn.Blocks {
			ifi, isIf := b.Instrs[len(b.Instrs)-1].(*ssa.If)
			if !isIf {
				continue
			}
			cv, neg := stripNot(ifi.Cond)
			bo, isB := cv.(*ssa.BinOp)
			if !isB || (bo.Op != token.NEQ && bo.Op != token.EQL) {
				continue
			}
			call, isC := bo.X.(*ssa.Call)
			k, okc := ConstIntOf(bo.Y)
			if !isC || !okc || CalleeObj(call) != codeM || k != connClosed || CallRecv(call) != pred.(ssa.Value) {
				continue
			}
			ne := bo.Op == token.NEQ
			if neg {
				ne = !ne
			}
			t := b.Succs[0]
			if !ne {
				t = b.Succs[1]
			}
			if BlockDominatesInstr(t, w2) {
				g2 = true
			}
		}
		c.fact("dominance")
		c.Check(g1 && g2, "second writeReply only after a failed first one", p.InstrPos(w2), "on the !OK edge of the first write and Code != CodeConnClosed", "a second writeReply is reachable although the first one succeeded (or the connection is closed): the call is answered twice")
		// and no third
		if len(p.ReachableFrom(w2, isWR, nil, nil)) > 0 {
			c.Viol("no third writeReply", p.InstrPos(w2), "more than two writeReply on one path")
		}
	}
	// writed = true
	var writedStores []*ssa.Store
	Instrs(fn, func(i ssa.Instruction) {
		st, isSt := i.(*ssa.Store)
		if !isSt {
			return
		}
		if al, isAl := st.Addr.(*ssa.Alloc); isAl && al.Comment == "writed" {
			writedStores = append(writedStores, st)
		}
	})
	if len(writedStores) == 0 {
		// fall back: stores of constant true to a captured bool cell
		Instrs(fn, func(i ssa.Instruction) {
			st, isSt := i.(*ssa.Store)
			if !isSt {
				return
			}
			if cst, isC := st.Val.(*ssa.Const); isC && cst.Value != nil && cst.Value.String() == "true" {
				if _, isAl := st.Addr.(*ssa.Alloc); isAl {
					writedStores = append(writedStores, st)
				}
			}
		})
	}
	if len(writedStores) == 0 {
		c.Undec("written flag", p.Pos(fn.Pos()), "cannot find the `writed = true` store shared with the deferred closure")
		return
	}
	for _, st := range writedStores {
		onOK := false
		for _, e := range CondCallEdges(fn, okM) {
			if call, isC := e.Recv.(*ssa.Call); isC && CalleeObj(call) == writeReply && BlockDominatesInstr(e.True, st) {
				onOK = true
			}
		}
		after := p.ReachableFrom(st, isWR, nil, nil)
		// nothing that can panic may run between the successful write and the flag: a panic there
		// (e.g. in a PostWriteReply plugin) would make the deferred closure answer a second time
		for _, e := range CondCallEdges(fn, okM) {
			call, isC := e.Recv.(*ssa.Call)
			if !isC || CalleeObj(call) != writeReply || !BlockDominatesInstr(e.True, st) {
				continue
			}
			var between []ssa.Instruction
			w := &Walk{P: p, Stop: func(i ssa.Instruction) bool {
				if i == ssa.Instruction(st) {
					return true
				}
				if _, isCall := i.(ssa.CallInstruction); isCall {
					between = append(between, i)
				}
				return false
			}}
			w.FromBlock(e.True)
			c.Check(len(between) == 0, "written flag set before anything else can panic", p.InstrPos(st), "no call between the successful writeReply and `writed = true`",
				fmt.Sprintf("%d call(s) run between the successful reply write and `writed = true` (first: %s): a panic there makes the recover path write a second reply for the same call", len(between), firstDesc(p, between)))
		}
		c.fact("dominance+path-search")
		c.Check(onOK && len(after) == 0, "written flag set only after a successful write", p.InstrPos(st), "on writeReply's OK edge; no write follows", "`writed = true` is set on a path where the reply was not successfully written, or a write follows it: the panic path would then skip/duplicate the reply")
	}
}

func runC03_5(c *Ctx) {
	p := c.P
	fn := p.Fn(Root, "handlerCtx", "handleCall")
	writeReply := p.MethodObj(Root, "handlerCtx", "writeReply")
	copyM := p.MethodObj("github.com/henrylee2cn/goutil/status", "Status", "Copy")
	okM := p.MethodObj("github.com/henrylee2cn/goutil/status", "Status", "OK")
	hcN, statIdx := p.FieldIndex(Root, "handlerCtx", "stat")
	ise := p.Global(Root, "statInternalServerError")
	ds := deferredClosures(fn)
	if len(ds) != 1 {
		c.Undec("handleCall deferred closure", p.Pos(fn.Pos()), fmt.Sprintf("expected one deferred closure, found %d", len(ds)))
		return
	}
	d := ds[0]
	isWR := func(i ssa.Instruction) bool { return IsCallTo(i, writeReply) }
	var recEdge *struct {
		If          *ssa.If
		Nil, NonNil *ssa.BasicBlock
	}
	for _, e := range NilCmpEdges(d, func(v ssa.Value) bool {
		call, ok := v.(*ssa.Call)
		if !ok {
			return false
		}
		b, ok := call.Call.Value.(*ssa.Builtin)
		return ok && b.Name() == "recover"
	}) {
		e := e
		recEdge = &e
	}
	if recEdge == nil {
		c.Viol("panic barrier in handleCall", p.Pos(d.Pos()), "handleCall's deferred closure does not test recover(): a handler panic kills the process / leaves the call unanswered")
		return
	}
	c.Hold("panic barrier in handleCall", p.InstrPos(recEdge.If), "deferred closure recovers")
	// the `writed` test: If on load of a free variable of bool type
	var wTrue, wFalse *ssa.BasicBlock
	for _, b := range d.Blocks {
		ifi, ok := b.Instrs[len(b.Instrs)-1].(*ssa.If)
		if !ok {
			continue
		}
		cv, neg := stripNot(ifi.Cond)
		u, ok := cv.(*ssa.UnOp)
		if !ok || u.Op != token.MUL {
			continue
		}
		// the flag: a captured variable, or a *bool parameter of the extracted deferred method
		_, isFV := u.X.(*ssa.FreeVar)
		_, isPrm := u.X.(*ssa.Parameter)
		if !isFV && !isPrm {
			continue
		}
		if bt, isB := u.Type().Underlying().(*types.Basic); !isB || bt.Kind() != types.Bool {
			continue
		}
		wTrue, wFalse = b.Succs[0], b.Succs[1]
		if neg {
			wTrue, wFalse = wFalse, wTrue
		}
	}
	if wFalse == nil {
		c.Viol("panic path replies when nothing was written", p.Pos(d.Pos()), "the deferred closure does not test the written flag")
		return
	}
	w := &Walk{P: p, Stop: isWR}
	w.FromBlock(wFalse)
	notAgain := len(p.ReachableFromBlock(wTrue, isWR, nil, nil)) == 0 || wTrue == wFalse
	onPanicOnly := true
	for _, call := range CallsTo(d, writeReply) {
		if !BlockDominatesInstr(recEdge.NonNil, call) {
			onPanicOnly = false
		}
	}
	c.fact("must-pass")
	c.Check(len(w.Exits) == 0 && len(w.Hits) > 0 && notAgain && onPanicOnly, "panic path replies when nothing was written", p.Pos(d.Pos()),
		"recover()!=nil && !writed => writeReply on every path; written => no second reply; no reply without a panic",
		"after a handler panic the deferred closure does not answer exactly when nothing was written (call dropped or answered twice)")
	// stores a copy of the 500 sentinel when status is OK
	ok500 := false
	Instrs(d, func(i ssa.Instruction) {
		st, isSt := i.(*ssa.Store)
		if !isSt || !isFieldAddr(st.Addr, hcN, statIdx) {
			return
		}
		call, isC := st.Val.(*ssa.Call)
		if !isC || CalleeObj(call) != copyM || !IsLoadOfGlobal(call.Call.Args[0], ise) {
			return
		}
		for _, e := range CondCallEdges(d, okM) {
			if isFieldLoad(e.Recv, hcN, statIdx) && BlockDominatesInstr(e.True, st) {
				ok500 = true
			}
		}
	})
	// writeReply's argument is c.stat
	argOK := true
	for _, call := range CallsTo(d, writeReply) {
		if !isFieldLoad(CallArgs(call)[0], hcN, statIdx) {
			argOK = false
		}
	}
	c.fact("dominance")
	c.Check(ok500 && argOK, "panic becomes an Internal Server Error reply", p.Pos(d.Pos()), "c.stat = statInternalServerError.Copy(p) when still OK; writeReply(c.stat)", "the panic path does not turn an OK status into a copy of the 500 sentinel before replying: the caller would see OK (or the shared sentinel is handed out)")
}

func runC03_6(c *Ctx) {
	p := c.P
	fn := p.Fn(Root, "handlerCtx", "handleCall")
	setSeq := p.MethodObj(Root+"/socket", "Header", "SetSeq")
	seq := p.MethodObj(Root+"/socket", "Header", "Seq")
	setMtype := p.MethodObj(Root+"/socket", "Header", "SetMtype")
	hcN, inIdx := p.FieldIndex(Root, "handlerCtx", "input")
	_, outIdx := p.FieldIndex(Root, "handlerCtx", "output")
	typeReply := p.ConstInt(Root, "TypeReply")
	writeReply := p.MethodObj(Root, "handlerCtx", "writeReply")
	wrs := CallsTo(fn, writeReply)
	okSeq, okType := false, false
	var pos1, pos2 string
	for _, call := range CallsTo(fn, setSeq) {
		if !isFieldLoad(call.Common().Value, hcN, outIdx) {
			continue
		}
		arg, ok := call.Common().Args[0].(*ssa.Call)
		if ok && CalleeObj(arg) == seq && isFieldLoad(arg.Call.Value, hcN, inIdx) {
			okSeq = true
			pos1 = p.InstrPos(call)
			for _, w := range wrs {
				if !Dominates(call, w) {
					okSeq = false
				}
			}
		}
	}
	for _, call := range CallsTo(fn, setMtype) {
		if !isFieldLoad(call.Common().Value, hcN, outIdx) {
			continue
		}
		if k, ok := ConstIntOf(call.Common().Args[0]); ok && k == typeReply {
			okType = true
			pos2 = p.InstrPos(call)
			for _, w := range wrs {
				if !Dominates(call, w) {
					okType = false
				}
			}
		}
	}
	c.fact("value-identity+dominance")
	c.Check(okSeq, "reply seq = request seq", pos1, "output.SetSeq(input.Seq()) dominates every writeReply", "the reply's sequence number is not set from the request's before every writeReply: the caller cannot match (or mismatches) the reply")
	c.Check(okType, "reply type = TypeReply", pos2, "output.SetMtype(TypeReply) dominates every writeReply", "the reply frame's type is not the constant TypeReply before every writeReply")
}

// staticReach: can fn reach target through statically resolved calls inside shipped code
// (no interface dispatch, no function values)?
func (p *Prog) staticReach(fn, target *ssa.Function, depth int, seen map[*ssa.Function]bool) bool {
	if fn == target {
		return true
	}
	if depth == 0 || seen[fn] || fn.Blocks == nil {
		return false
	}
	seen[fn] = true
	for _, f := range WithAnon(fn) {
		for _, call := range AllCalls(f) {
			if sf := StaticFn(call); sf != nil && sf.Pkg != nil && p.IsShippedPkg(sf.Pkg.Pkg) {
				if p.staticReach(sf, target, depth-1, seen) {
					return true
				}
			}
		}
	}
	return false
}

func runC03_7(c *Ctx) {
	p := c.P
	writeReply := p.Fn(Root, "handlerCtx", "writeReply")
	write := p.Fn(Root, "session", "write")
	for _, name := range []string{"handlePush", "bindPush"} {
		fn := p.Fn(Root, "handlerCtx", name)
		r1 := p.staticReach(fn, writeReply, 8, map[*ssa.Function]bool{})
		r2 := p.staticReach(fn, write, 8, map[*ssa.Function]bool{})
		c.fact("static-reach")
		c.Check(!r1 && !r2, name+" never writes", p.Pos(fn.Pos()), "writeReply / session.write unreachable through framework-internal calls", name+" can reach writeReply/session.write: a PUSH would be answered with a frame")
	}
}

func runC03_8(c *Ctx) {
	p := c.P
	fn := p.Fn(Root, "handlerCtx", "bindCall")
	okM := p.MethodObj("github.com/henrylee2cn/goutil/status", "Status", "OK")
	copyM := p.MethodObj("github.com/henrylee2cn/goutil/status", "Status", "Copy")
	hcN, statIdx := p.FieldIndex(Root, "handlerCtx", "stat")
	n := 0
	Instrs(fn, func(i ssa.Instruction) {
		ret, ok := i.(*ssa.Return)
		if !ok || !IsNilConst(ReturnVals(ret)[0]) {
			return
		}
		n++
		b := ret.Block()
		good := false
		why := ""
		// (a) on the !OK edge of a c.stat test
		for _, e := range CondCallEdges(fn, okM) {
			if isFieldLoad(e.Recv, hcN, statIdx) && BlockDominatesInstr(e.False, ret) {
				good = true
				why = "on the non-OK edge of c.stat"
			}
		}
		// (b) store of a sentinel / copy of a sentinel to c.stat in the same block
		for _, in := range b.Instrs {
			st, isSt := in.(*ssa.Store)
			if !isSt || !isFieldAddr(st.Addr, hcN, statIdx) {
				continue
			}
			if u, isU := st.Val.(*ssa.UnOp); isU {
				if g, isG := u.X.(*ssa.Global); isG && g.Pkg.Pkg.Path() == Root && len(g.Name()) > 4 && g.Name()[:4] == "stat" {
					good = true
					why = "stores " + g.Name()
				}
			}
			if call, isC := st.Val.(*ssa.Call); isC && CalleeObj(call) == copyM {
				if u, isU := call.Call.Args[0].(*ssa.UnOp); isU {
					if g, isG := u.X.(*ssa.Global); isG {
						good = true
						why = "stores " + g.Name() + ".Copy(...)"
					}
				}
			}
		}
		c.fact("dominance")
		c.Check(good, "bindCall `return nil` leaves a non-OK status", p.InstrPos(ret), why, "bindCall returns nil (no body to decode) without a non-OK c.stat: handleCall would treat the call as fine and invoke a nil handler / reply OK")
	})
	if n < 3 {
		c.Undec("bindCall nil returns", p.Pos(fn.Pos()), fmt.Sprintf("found %d nil returns, expected >= 3 (hook veto, empty method, not found, body hook veto)", n))
	}
}

func runC03_9(c *Ctx) {
	p := c.P
	loop := p.Fn(Root, "session", "startReadAndHandle")
	readMsg := p.MethodObj(Root+"/socket", "Socket", "ReadMessage")
	goF := p.FuncObj(Root, "Go")
	copyM := p.MethodObj("github.com/henrylee2cn/goutil/status", "Status", "Copy")
	hcN, statIdx := p.FieldIndex(Root, "handlerCtx", "stat")
	badMsg := p.Global(Root, "statBadMessage")
	var readCall ssa.Instruction
	if rs := CallsTo(loop, readMsg); len(rs) == 1 {
		readCall = rs[0]
	} else {
		for _, call := range AllCalls(loop) {
			if sf := StaticFn(call); sf != nil && sf.Pkg == loop.Pkg && len(CallsTo(sf, readMsg)) == 1 {
				if _, isCall := call.(*ssa.Call); isCall {
					readCall = call
				}
			}
		}
	}
	if readCall == nil {
		c.Undec("read loop anchor", p.Pos(loop.Pos()), "cannot find the read call")
		return
	}
	// err value: the read call result or loads of the cell it is stored into
	var errCell ssa.Value
	if refs := readCall.(ssa.Value).Referrers(); refs != nil {
		for _, r := range *refs {
			if st, ok := r.(*ssa.Store); ok && st.Val == readCall.(ssa.Value) {
				errCell = st.Addr
			}
		}
	}
	isErr := func(v ssa.Value) bool {
		if v == readCall.(ssa.Value) {
			return true
		}
		if u, ok := v.(*ssa.UnOp); ok && u.Op == token.MUL && errCell != nil && u.X == errCell {
			return true
		}
		return false
	}
	edges := NilCmpEdges(loop, isErr)
	if len(edges) == 0 {
		c.Undec("read error test", p.InstrPos(readCall), "no nil test of the read error found")
		return
	}
	type st struct {
		b     *ssa.BasicBlock
		known int // 0 unknown, 1 nil, 2 nonnil
		store bool
	}
	nilIdx := map[*ssa.BasicBlock][2]int{} // block -> (succ index for nil, succ index for nonnil) +1
	for _, e := range edges {
		b := e.If.Block()
		nilIdx[b] = [2]int{EdgeIndex(b, e.Nil) + 1, EdgeIndex(b, e.NonNil) + 1}
	}
	isStatStore := func(i ssa.Instruction) bool {
		s, ok := i.(*ssa.Store)
		if !ok || !isFieldAddr(s.Addr, hcN, statIdx) {
			return false
		}
		call, ok := s.Val.(*ssa.Call)
		return ok && CalleeObj(call) == copyM && IsLoadOfGlobal(call.Call.Args[0], badMsg)
	}
	seen := map[st]bool{}
	bad := ""
	dispatches := 0
	var visit func(s st, start int)
	visit = func(s st, start int) {
		if start == 0 {
			if seen[s] {
				return
			}
			seen[s] = true
		}
		for k := start; k < len(s.b.Instrs); k++ {
			in := s.b.Instrs[k]
			if isStatStore(in) {
				s.store = true
			}
			if IsCallTo(in, goF) {
				dispatches++
				if s.known == 2 && !s.store {
					bad = "dispatch at " + p.InstrPos(in) + " reachable with a read error that was not stored in ctx.stat"
				}
				return
			}
			switch in.(type) {
			case *ssa.Return, *ssa.Panic:
				return
			}
		}
		for k, succ := range s.b.Succs {
			ns := st{succ, s.known, s.store}
			if idx, ok := nilIdx[s.b]; ok {
				if idx[0] == k+1 {
					if s.known == 2 {
						continue
					}
					ns.known = 1
				} else if idx[1] == k+1 {
					if s.known == 1 {
						continue
					}
					ns.known = 2
				}
			}
			visit(ns, 0)
		}
	}
	visit(st{readCall.Block(), 0, false}, idxIn(readCall)+1)
	c.fact("path-search(err tri-state)")
	c.Check(bad == "" && dispatches > 0, "read error stored before dispatch", p.InstrPos(readCall), "every dispatch reached with err != nil passed ctx.stat = statBadMessage.Copy(err)", "a message that could not be decoded is dispatched with an OK ctx.stat: the handler runs on a partially decoded argument / the caller sees OK: "+bad)
	// disconnect classification: the return reached from the read (without dispatch) exists on the (err!=nil && codec==Nil) || !goonRead() edges
	getCodec := p.MethodObj(Root, "handlerCtx", "GetBodyCodec")
	goon := p.MethodObj(Root, "session", "goonRead")
	hasCodecTest := len(CallsTo(loop, getCodec)) > 0
	postGate := false
	for _, e := range CondCallEdges(loop, goon) {
		if Dominates(readCall, e.Call) {
			w := &Walk{P: p, Stop: func(i ssa.Instruction) bool { return IsCallTo(i, goF) }}
			w.FromBlock(e.False)
			if len(w.Hits) == 0 && len(w.Exits) > 0 {
				postGate = true
			}
		}
	}
	c.Check(hasCodecTest && postGate, "undecodable-frame / closed-session ends the loop", p.InstrPos(readCall), "nil-codec read errors and a failed goonRead() lead to return (disconnect), never to dispatch", "the loop no longer disconnects on an unframeable message or on a session that left the readable states")
}

func firstDesc(p *Prog, is []ssa.Instruction) string {
	if len(is) == 0 {
		return ""
	}
	return describeCall(is[0]) + " at " + p.InstrPos(is[0])
}

// runErrorReplyConstruction (C03.10 / C04.2): on the non-OK edge writeReply sets the status, clears
// the body and the body codec before the frame is written, so an error reply is always encodable.
func runErrorReplyConstruction(c *Ctx) {
	p := c.P
	fn := p.Fn(Root, "handlerCtx", "writeReply")
	okM := p.MethodObj("github.com/henrylee2cn/goutil/status", "Status", "OK")
	write := p.MethodObj(Root, "session", "write")
	setStatus := p.MethodObj(Root+"/socket", "Header", "SetStatus")
	setBody := p.MethodObj(Root+"/socket", "Body", "SetBody")
	setCodec := p.MethodObj(Root+"/socket", "Body", "SetBodyCodec")
	hcN, outIdx := p.FieldIndex(Root, "handlerCtx", "output")
	statParam := fn.Params[1]
	var edge *CondEdge
	for _, e := range CondCallEdges(fn, okM) {
		if Resolve(e.Recv) == ssa.Value(statParam) || e.Recv == ssa.Value(statParam) {
			e := e
			edge = &e
		}
	}
	// the write and the three setters are performed by the instruction itself or by a same-package helper that
	// performs them on every path (Prog.performs): `c.setFailedReply(stat)`, `c.writeOutput...()`
	isStatusParam := func(v ssa.Value) bool {
		prm, isPrm := Resolve(v).(*ssa.Parameter)
		if !isPrm {
			prm, isPrm = v.(*ssa.Parameter)
		}
		return isPrm && strings.HasSuffix(prm.Type().String(), ".Status")
	}
	writeEf := effect{"session.write", func(i ssa.Instruction) bool { _, isCall := i.(*ssa.Call); return isCall && IsCallTo(i, write) }}
	writes := p.performs(fn, writeEf, 0)
	if edge == nil || len(writes) != 1 {
		c.Undec("writeReply error-reply construction", p.Pos(fn.Pos()), "cannot find the stat.OK() test / the single write in writeReply")
		return
	}
	need := map[string]func(ssa.Instruction) bool{
		"SetStatus(stat)": func(i ssa.Instruction) bool {
			call, ok := i.(*ssa.Call)
			return ok && CalleeObj(call) == setStatus && isFieldLoad(call.Call.Value, hcN, outIdx) && isStatusParam(call.Call.Args[0])
		},
		"SetBody(nil)": func(i ssa.Instruction) bool {
			call, ok := i.(*ssa.Call)
			return ok && CalleeObj(call) == setBody && isFieldLoad(call.Call.Value, hcN, outIdx) && IsNilConst(call.Call.Args[0])
		},
		"SetBodyCodec(NilCodecID)": func(i ssa.Instruction) bool {
			call, ok := i.(*ssa.Call)
			if !ok || CalleeObj(call) != setCodec || !isFieldLoad(call.Call.Value, hcN, outIdx) {
				return false
			}
			k, okc := ConstIntOf(call.Call.Args[0])
			return okc && k == 0
		},
	}
	for _, name := range []string{"SetStatus(stat)", "SetBody(nil)", "SetBodyCodec(NilCodecID)"} {
		perf := map[ssa.Instruction]bool{}
		for _, in := range p.performs(fn, effect{name, need[name]}, 0) {
			// a helper that sets the status must be handed writeReply's own status parameter
			if call, isCall := in.(*ssa.Call); isCall && name == "SetStatus(stat)" && !need[name](in) {
				has := false
				for _, a := range call.Call.Args {
					if a == ssa.Value(statParam) || Resolve(a) == ssa.Value(statParam) {
						has = true
					}
				}
				if !has {
					continue
				}
			}
			perf[in] = true
		}
		// every path from the non-OK edge to the write passes it
		w := &Walk{P: p, Stop: func(i ssa.Instruction) bool { return perf[i] || i == writes[0] }}
		w.FromBlock(edge.False)
		ok := len(w.Hits) > 0
		for _, h := range w.Hits {
			if h == writes[0] {
				ok = false
			}
		}
		c.fact("must-pass")
		c.Check(ok, "error reply: "+name+" before the write", p.InstrPos(edge.If), "on every path from the non-OK edge to session.write",
			"an error reply can be written without "+name+": the caller does not see the error status, or the reply still carries the (possibly un-encodable) body / codec and the fallback reply fails too - the call is never answered")
	}
}

func runC03_11(c *Ctx) {
	p := c.P
	n := 0
	for _, im := range protoImpls(p) {
		if im.pack == nil || strings.HasSuffix(im.name, "wsProto") {
			continue
		}
		if strings.Contains(im.name, "thriftproto") {
			// streamed through the thrift library (the size is known only after the flush): a failed Pack
			// must tear the transport down, so that no fallback reply can follow the frame already sent
			closed := false
			for _, e := range NilCmpEdges(im.pack, func(v ssa.Value) bool {
				call, ok := v.(*ssa.Call)
				return ok && call.Call.StaticCallee() != nil && call.Call.StaticCallee().Pkg == im.pack.Pkg
			}) {
				for _, call := range AllCalls(im.pack) {
					if o := CalleeObj(call); o != nil && o.Name() == "Close" && BlockDominatesInstr(e.NonNil, call) {
						closed = true
					}
				}
			}
			n++
			c.fact("dominance")
			c.Check(closed, "proto "+im.name+" failed Pack closes the transport", p.Pos(im.pack.Pos()), "on the error edge of the inner pack the transport is closed (disconnect instead of a second reply)",
				im.name+".Pack no longer closes the transport when packing fails after bytes may have been flushed: the fallback error reply follows a frame that was already sent")
			continue
		}
		for _, fn := range recvReach(p, im.pack) {
			for _, call := range AllCalls(fn) {
				o := CalleeObj(call)
				if o == nil || o.Name() != "Write" || !call.Common().IsInvoke() {
					continue
				}
				fr, _, ok := LoadedField(call.Common().Value)
				if !ok || !isConnField(fr) || fr.Struct.Obj().Pkg() != im.pack.Pkg.Pkg {
					continue
				}
				n++
				key := "proto " + im.name + " no failure after the write"
				res := fn.Signature.Results()
				errIdx := -1
				for r := 0; r < res.Len(); r++ {
					if types.Identical(res.At(r).Type(), types.Universe.Lookup("error").Type()) {
						errIdx = r
					}
				}
				if errIdx < 0 {
					c.Undec(key, p.InstrPos(call), "the writing function returns no error")
					continue
				}
				wv, _ := call.(ssa.Value)
				var fromWrite func(v ssa.Value, seen map[ssa.Value]bool) bool
				fromWrite = func(v ssa.Value, seen map[ssa.Value]bool) bool {
					if IsNilConst(v) {
						return true
					}
					if ex, isEx := v.(*ssa.Extract); isEx && ex.Tuple == wv {
						return true
					}
					if wv != nil && sameViaCell(v, wv) {
						return true
					}
					if phi, isPhi := v.(*ssa.Phi); isPhi {
						if seen[phi] {
							return true
						}
						seen[phi] = true
						for _, e := range phi.Edges {
							if !fromWrite(e, seen) {
								return false
							}
						}
						return true
					}
					if u, isLoad := v.(*ssa.UnOp); isLoad && u.Op == token.MUL {
						if seen[u.X] {
							return true
						}
						seen[u.X] = true
						// a result cell: every store reaching here after the write must be the write's error
						if al, isAl := u.X.(*ssa.Alloc); isAl && al.Referrers() != nil {
							okAll := true
							for _, r := range *al.Referrers() {
								st, isSt := r.(*ssa.Store)
								if !isSt || st.Addr != ssa.Value(al) {
									continue
								}
								after := st == nil
								if len(p.ReachableFrom(call, func(i ssa.Instruction) bool { return i == ssa.Instruction(st) }, nil, nil)) > 0 {
									after = true
								}
								if after && !fromWrite(st.Val, seen) {
									okAll = false
								}
							}
							return okAll
						}
					}
					return false
				}
				bad := ""
				w := &Walk{P: p}
				w.From(call)
				for _, e := range w.Exits {
					ret, isRet := e.(*ssa.Return)
					if !isRet {
						continue
					}
					if !fromWrite(ReturnVals(ret)[errIdx], map[ssa.Value]bool{}) {
						bad = p.InstrPos(ret)
					}
				}
				c.fact("path-search")
				c.Check(bad == "", key, p.InstrPos(call), "after Write only its own error (or nil) is returned", "Pack can return an error at "+bad+" after the frame was already written: the sender treats the message as unsent (handleCall sends a second, fallback reply with the same sequence number)")
			}
		}
	}
	if n < 5 {
		c.Undec("buffered protocol writes", "", fmt.Sprintf("found %d, expected >= 5", n))
	}
}

func runC03_12(c *Ctx) {
	p := c.P
	loop := p.Fn(Root, "session", "startReadAndHandle")
	goF := p.FuncObj(Root, "Go")
	writeReply := p.MethodObj(Root, "handlerCtx", "writeReply")
	mtype := p.MethodObj(Root+"/socket", "Header", "Mtype")
	typeCall := p.ConstInt(Root, "TypeCall")
	edges := CondCallEdges(loop, goF)
	if len(edges) != 1 {
		c.Undec("dispatch refusal edge", p.Pos(loop.Pos()), fmt.Sprintf("expected one `if !Go(...)`, found %d", len(edges)))
		return
	}
	// refusers: functions of the root package that answer a CALL
	answers := func(fn *ssa.Function) (bool, string) {
		if fn == nil || len(fn.Blocks) == 0 {
			return false, ""
		}
		wr := p.callsReaching(fn, writeReply)
		if len(wr) == 0 {
			return false, ""
		}
		// from the edge Mtype() == TypeCall every path passes such a call, with a non-OK argument when it is writeReply itself
		for _, ee := range EqEdges(fn) {
			call, isC := ee.X.(*ssa.Call)
			k, okc := ConstIntOf(ee.Y)
			if !isC || !okc || CalleeObj(call) != mtype || k != typeCall {
				continue
			}
			w := &Walk{P: p, Stop: func(i ssa.Instruction) bool {
				for _, x := range wr {
					if i == ssa.Instruction(x) {
						if _, isCall := i.(*ssa.Call); isCall {
							return true
						}
					}
				}
				return false
			}}
			w.FromBlock(ee.Eq)
			if len(w.Exits) == 0 && len(w.Hits) > 0 {
				// the status handed to writeReply is not nil
				for _, h := range w.Hits {
					if hc, ok := h.(*ssa.Call); ok && CalleeObj(hc) == writeReply && IsNilConst(CallArgs(hc)[0]) {
						return false, "writeReply(nil)"
					}
				}
				return true, FnName(fn)
			}
		}
		return false, ""
	}
	var refuser string
	w := &Walk{P: p, Stop: func(i ssa.Instruction) bool {
		call, ok := i.(*ssa.Call)
		if !ok {
			return false
		}
		if ok, name := answers(call.Call.StaticCallee()); ok {
			refuser = name
			return true
		}
		return false
	}}
	w.FromBlock(edges[0].False)
	c.fact("must-pass")
	var path []string
	for _, e := range w.Exits {
		path = append(path, "leaves the refusal edge without answering: "+p.InstrPos(e))
	}
	c.Check(len(w.Exits) == 0 && len(w.Hits) > 0, "Go() refused: a CALL is answered", p.InstrPos(edges[0].If), "every path of the refusal edge passes "+refuser, "when the goroutine pool refuses the handler the read loop drops the message: a CALL is never answered although the connection stays up (the caller hangs until its own timeout, if any)", path...)
	c.Check(refuser != "", "the refuser answers exactly CALLs with an error", p.Pos(loop.Pos()), refuser+": on Mtype() == TypeCall every path reaches writeReply with a status", "no function on the refusal edge answers a CALL with an error reply")
}
