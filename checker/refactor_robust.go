package main

import (
	"go/types"

	"golang.org/x/tools/go/ssa"
)

// This file holds the helper-aware forms of facts that were first written against one function body.
// They follow static calls into unexported helpers of the same package (bounded depth), so that an
// extract-method refactoring keeps the verdict while a behavioural change does not.

// edgeCovers: does taking the conditional edge (from -> to) precede every arrival at block `at`
// (or, for a phi operand, is it exactly the edge pred -> phiBlock)?
func edgeCovers(from, to, at, phiBlock *ssa.BasicBlock) bool {
	if phiBlock != nil && from == at && to == phiBlock {
		return true
	}
	if len(to.Preds) > 1 {
		return false
	}
	return to == at || to.Dominates(at)
}

// cbErr decides "the error result is nil only after the callback succeeded" for fn:
// every return of fn delivers, as result errRes, a value that is
//   - the callback's own result, or the result of a helper with the same property that was handed the callback,
//   - nil, on the nil edge of a test of one of those (or of `callback == nil`),
//   - any value on the non-nil edge of a nil test of that value (a failure is reported as failure).
type cbErr struct {
	p     *Prog
	memo  map[*ssa.Function]bool
	depth int
	Succ  int // success returns seen (nil constants on success edges + callback results returned directly)
}

func (c *cbErr) holds(fn *ssa.Function, cbParam, errRes int) bool {
	if v, ok := c.memo[fn]; ok {
		return v
	}
	if c.depth > 3 || len(fn.Blocks) == 0 || cbParam >= len(fn.Params) {
		return false
	}
	c.memo[fn] = true // coinductive for recursion
	c.depth++
	defer func() { c.depth-- }()
	cb := ssa.Value(fn.Params[cbParam])
	// values that are "the callback's verdict"
	verdict := func(v ssa.Value) bool {
		switch x := v.(type) {
		case *ssa.Call:
			if x.Call.Value == cb {
				return true
			}
			return c.helperCall(x, cb) >= 0 && x.Type() != nil && !isTuple(x.Type())
		case *ssa.Extract:
			call, ok := x.Tuple.(*ssa.Call)
			return ok && c.helperCall(call, cb) == x.Index
		}
		return false
	}
	success := NilCmpEdges(fn, func(v ssa.Value) bool { return v == cb || verdict(v) })
	var okVal func(v ssa.Value, at, phiBlock *ssa.BasicBlock, seen map[ssa.Value]bool) bool
	okVal = func(v ssa.Value, at, phiBlock *ssa.BasicBlock, seen map[ssa.Value]bool) bool {
		if IsNilConst(v) {
			for _, e := range success {
				if edgeCovers(e.If.Block(), e.Nil, at, phiBlock) {
					c.Succ++
					return true
				}
			}
			return false
		}
		if verdict(v) {
			c.Succ++
			return true
		}
		for _, e := range NilCmpEdges(fn, func(x ssa.Value) bool { return x == v }) {
			if edgeCovers(e.If.Block(), e.NonNil, at, phiBlock) {
				return true
			}
		}
		if phi, ok := v.(*ssa.Phi); ok {
			if seen[phi] {
				return true
			}
			seen[phi] = true
			for i, e := range phi.Edges {
				if !okVal(e, phi.Block().Preds[i], phi.Block(), seen) {
					return false
				}
			}
			return true
		}
		return false
	}
	ok := true
	Instrs(fn, func(i ssa.Instruction) {
		ret, isRet := i.(*ssa.Return)
		if !isRet {
			return
		}
		vals := ReturnVals(ret)
		if errRes >= len(vals) || !okVal(vals[errRes], ret.Block(), nil, map[ssa.Value]bool{}) {
			ok = false
		}
	})
	c.memo[fn] = ok
	return ok
}

func isTuple(t types.Type) bool { _, ok := t.(*types.Tuple); return ok }

// helperCall: call is a static call to a shipped function that receives cb as an argument and has the
// callback-verdict property for that parameter; returns the index of its error result (or -1).
func (c *cbErr) helperCall(call *ssa.Call, cb ssa.Value) int {
	callee := call.Call.StaticCallee()
	if callee == nil || len(callee.Blocks) == 0 {
		return -1
	}
	for k, a := range call.Call.Args {
		if a != cb {
			continue
		}
		res := callee.Signature.Results()
		for r := 0; r < res.Len(); r++ {
			if types.Identical(res.At(r).Type(), types.Universe.Lookup("error").Type()) {
				if c.holds(callee, k, r) {
					return r
				}
			}
		}
	}
	return -1
}

// callsReaching lists the call instructions of fn whose static callee is target or reaches target through
// static calls inside the same package (depth <= 3).
func (p *Prog) callsReaching(fn *ssa.Function, target *types.Func) []ssa.CallInstruction {
	memo := map[*ssa.Function]bool{}
	var reach func(f *ssa.Function, d int) bool
	reach = func(f *ssa.Function, d int) bool {
		if v, ok := memo[f]; ok {
			return v
		}
		memo[f] = false
		if d > 3 || f.Pkg == nil || fn.Pkg == nil || f.Pkg != fn.Pkg {
			return false
		}
		for _, call := range AllCalls(f) {
			if CalleeObj(call) == target {
				memo[f] = true
				return true
			}
			if sc := call.Common().StaticCallee(); sc != nil && sc != f && reach(sc, d+1) {
				memo[f] = true
				return true
			}
		}
		return false
	}
	var out []ssa.CallInstruction
	for _, call := range AllCalls(fn) {
		if CalleeObj(call) == target {
			out = append(out, call)
			continue
		}
		if sc := call.Common().StaticCallee(); sc != nil && sc != fn && reach(sc, 1) {
			out = append(out, call)
		}
	}
	return out
}

// drain describes the cancellation of the pending calls at disconnect: the Range over the pending-call
// table whose callback cancels, and the instruction(s) of readDisconnected that perform it (the Range
// itself, or a call to a helper that passes the Range on every path from its entry).
type drain struct {
	Cb    *ssa.Function
	Range ssa.CallInstruction
	InRd  []ssa.Instruction
}

func (p *Prog) findDrain() *drain {
	rd := p.Fn(Root, "session", "readDisconnected")
	mapRange := p.MethodObj("github.com/henrylee2cn/goutil", "Map", "Range")
	cancelM := p.MethodObj(Root, "callCmd", "cancel")
	find := func(fn *ssa.Function) (ssa.CallInstruction, *ssa.Function) {
		for _, call := range CallsTo(fn, mapRange) {
			if f := closureArg(call, 0); f != nil && len(CallsTo(f, cancelM)) > 0 {
				return call, f
			}
		}
		return nil, nil
	}
	if rng, cb := find(rd); rng != nil {
		return &drain{Cb: cb, Range: rng, InRd: []ssa.Instruction{rng}}
	}
	var d *drain
	var via func(fn *ssa.Function, depth int) bool // fn passes a drain Range on every path from entry
	seen := map[*ssa.Function]bool{}
	via = func(fn *ssa.Function, depth int) bool {
		if depth > 2 || seen[fn] || len(fn.Blocks) == 0 || fn.Pkg != rd.Pkg {
			return false
		}
		seen[fn] = true
		rng, cb := find(fn)
		if rng != nil {
			if ok, _ := p.MustPassFromEntry(fn, func(i ssa.Instruction) bool { return i == ssa.Instruction(rng) }, nil); ok {
				if d == nil {
					d = &drain{Cb: cb, Range: rng}
				}
				return true
			}
			return false
		}
		for _, call := range AllCalls(fn) {
			if _, isCall := call.(*ssa.Call); !isCall {
				continue
			}
			sc := call.Common().StaticCallee()
			if sc == nil || !via(sc, depth+1) {
				continue
			}
			if ok, _ := p.MustPassFromEntry(fn, func(i ssa.Instruction) bool { return i == ssa.Instruction(call) }, nil); ok {
				return true
			}
		}
		return false
	}
	var inRd []ssa.Instruction
	for _, call := range AllCalls(rd) {
		if _, isCall := call.(*ssa.Call); !isCall {
			continue
		}
		sc := call.Common().StaticCallee()
		if sc == nil || sc == rd {
			continue
		}
		delete(seen, sc)
		if via(sc, 1) {
			inRd = append(inRd, call)
		}
	}
	if d == nil {
		return nil
	}
	d.InRd = inRd
	return d
}

// ---------------------------------------------------------------- effects performed through helpers

// effect is a recognisable instruction (a status store, an index insert, the start of the read loop ...).
type effect struct {
	name string
	is   func(ssa.Instruction) bool
}

// performs lists the instructions of fn that perform the effect: the effect itself, or a static call to a
// named helper of the same package that performs it on every path from its entry (depth <= 2).
func (p *Prog) performs(fn *ssa.Function, ef effect, depth int) []ssa.Instruction {
	var out []ssa.Instruction
	Instrs(fn, func(i ssa.Instruction) {
		if ef.is(i) {
			out = append(out, i)
			return
		}
		call, ok := i.(*ssa.Call)
		if !ok || depth >= 2 {
			return
		}
		h := call.Call.StaticCallee()
		if h == nil || h == fn || h.Pkg != fn.Pkg || h.Parent() != nil || len(h.Blocks) == 0 {
			return
		}
		if p.helperPerforms(h, ef, depth+1) {
			out = append(out, i)
		}
	})
	return out
}

func (p *Prog) helperPerforms(h *ssa.Function, ef effect, depth int) bool {
	perf := p.performs(h, ef, depth)
	if len(perf) == 0 {
		return false
	}
	ok, _ := p.MustPassFromEntry(h, func(i ssa.Instruction) bool {
		for _, x := range perf {
			if x == i {
				return true
			}
		}
		return false
	}, nil)
	return ok
}

type callSite struct {
	fn *ssa.Function
	in ssa.Instruction
}

// callSitesOf lists the static call sites of h in the shipped program; ok is false when h also escapes as a value.
func (p *Prog) callSitesOf(h *ssa.Function) (sites []callSite, ok bool) {
	for _, fn := range p.ShippedFuncs() {
		for _, call := range AllCalls(fn) {
			if call.Common().StaticCallee() == h {
				sites = append(sites, callSite{fn, call})
			}
		}
	}
	return sites, len(p.funcValueUses(h)) == 0
}

// guardedBySites: instruction `in` of fn runs only after hook success: fn is an establishment site and `in` is
// dominated by one of its success edges, or fn is a helper whose every call site is guarded (depth <= 2).
func (p *Prog) guardedBySites(sites []establishmentSite, fn *ssa.Function, in ssa.Instruction, depth int) bool {
	for _, s := range sites {
		if s.fn == fn {
			for _, b := range s.okBlocks {
				if BlockDominatesInstr(b, in) {
					return true
				}
			}
			return false
		}
	}
	if depth >= 2 || fn.Parent() != nil {
		return false
	}
	cs, noEscape := p.callSitesOf(fn)
	if !noEscape || len(cs) == 0 {
		return false
	}
	for _, c := range cs {
		if !p.guardedBySites(sites, c.fn, c.in, depth+1) {
			return false
		}
	}
	return true
}
