package main

import (
	"go/constant"
	"go/token"
	"go/types"
	"strings"

	"golang.org/x/tools/go/ssa"
)

// A small symbolic engine for integer quantities inside one function: a value is a linear form over
// atoms (opaque SSA values) plus a constant, every atom has an interval, and intervals are refined by the
// comparisons against constants whose edge dominates the point of use. Arithmetic or a conversion that
// may wrap in its type makes the result an opaque atom - this is what lets the engine tell
// `check(size); alloc(size-4)` from `check(size+4 /* wraps */); alloc(size)`.
//
// Assumption (stated in DESIGN.md): `int`/`int64`/`uint64` quantities do not reach 2^62; the engine is about
// 32-bit wire quantities and byte counts.

const satV = int64(1) << 62

func satAdd(a, b int64) int64 {
	s := a + b
	if a > 0 && b > 0 && (s < 0 || s > satV) {
		return satV
	}
	if a < 0 && b < 0 && (s > 0 || s < -satV) {
		return -satV
	}
	if s > satV {
		return satV
	}
	if s < -satV {
		return -satV
	}
	return s
}

func satMul(c, x int64) int64 {
	if c == 0 || x == 0 {
		return 0
	}
	r := c * x
	if r/c != x || r > satV || r < -satV {
		if (c > 0) == (x > 0) {
			return satV
		}
		return -satV
	}
	return r
}

type ival struct{ lo, hi int64 }

func (a ival) within(b ival) bool { return a.lo >= b.lo && a.hi <= b.hi }

func typeIval(t types.Type) ival {
	b, ok := t.Underlying().(*types.Basic)
	if !ok {
		return ival{-satV, satV}
	}
	switch b.Kind() {
	case types.Int8:
		return ival{-128, 127}
	case types.Int16:
		return ival{-32768, 32767}
	case types.Int32:
		return ival{-2147483648, 2147483647}
	case types.Uint8:
		return ival{0, 255}
	case types.Uint16:
		return ival{0, 65535}
	case types.Uint32:
		return ival{0, 4294967295}
	case types.Uint, types.Uint64, types.Uintptr:
		return ival{0, satV}
	}
	return ival{-satV, satV}
}

type linForm struct {
	atoms map[ssa.Value]int64
	k     int64
}

func newLin() linForm { return linForm{atoms: map[ssa.Value]int64{}} }

func (l linForm) add(o linForm, sign int64) linForm {
	r := newLin()
	r.k = satAdd(l.k, satMul(sign, o.k))
	for a, c := range l.atoms {
		r.atoms[a] += c
	}
	for a, c := range o.atoms {
		r.atoms[a] += sign * c
	}
	for a, c := range r.atoms {
		if c == 0 {
			delete(r.atoms, a)
		}
	}
	return r
}

type linEngine struct {
	p  *Prog
	fn *ssa.Function
	at *ssa.BasicBlock // point of use: guards whose edge dominates this block apply
	// slack atoms: fresh non-negative unknowns (what a verified `minus(a, b)` subtracted)
	slack map[ssa.Value]bool
	// sizeOf: calls that return the value last accepted by the limit check (Message.Size())
	sizeOf  func(ssa.Value) bool
	SizeKey ssa.Value // representative atom for "the checked size"
	minusFn *ssa.Function
	busy    map[ssa.Value]bool
}

func constI64(v ssa.Value) (int64, bool) {
	c, ok := v.(*ssa.Const)
	if !ok || c.Value == nil || c.Value.Kind() != constant.Int {
		return 0, false
	}
	if i, exact := constant.Int64Val(c.Value); exact {
		return i, true
	}
	if constant.Sign(c.Value) > 0 {
		return satV, true
	}
	return -satV, true
}

// guards refines iv by the constant comparisons on exactly v whose edge dominates e.at.
func (e *linEngine) guards(v ssa.Value, iv ival) ival {
	for _, b := range e.fn.Blocks {
		if len(b.Instrs) == 0 {
			continue
		}
		ifi, ok := b.Instrs[len(b.Instrs)-1].(*ssa.If)
		if !ok {
			continue
		}
		cv, neg := stripNot(ifi.Cond)
		bo, ok := cv.(*ssa.BinOp)
		if !ok {
			continue
		}
		op := bo.Op
		var k int64
		if sameQuantity(bo.X, v) {
			kk, isC := constI64(bo.Y)
			if !isC {
				continue
			}
			k = kk
		} else if sameQuantity(bo.Y, v) {
			kk, isC := constI64(bo.X)
			if !isC {
				continue
			}
			k = kk
			switch op { // k OP v  ==  v OP' k
			case token.LSS:
				op = token.GTR
			case token.LEQ:
				op = token.GEQ
			case token.GTR:
				op = token.LSS
			case token.GEQ:
				op = token.LEQ
			}
		} else {
			continue
		}
		for si, t := range b.Succs {
			if len(t.Preds) > 1 || !(t == e.at || t.Dominates(e.at)) {
				continue
			}
			holds := si == 0
			if neg {
				holds = !holds
			}
			o := op
			if !holds {
				switch op {
				case token.LSS:
					o = token.GEQ
				case token.LEQ:
					o = token.GTR
				case token.GTR:
					o = token.LEQ
				case token.GEQ:
					o = token.LSS
				case token.EQL:
					o = token.NEQ
				case token.NEQ:
					o = token.EQL
				}
			}
			switch o {
			case token.LSS:
				if k-1 < iv.hi {
					iv.hi = k - 1
				}
			case token.LEQ:
				if k < iv.hi {
					iv.hi = k
				}
			case token.GTR:
				if k+1 > iv.lo {
					iv.lo = k + 1
				}
			case token.GEQ:
				if k > iv.lo {
					iv.lo = k
				}
			case token.EQL:
				iv = ival{k, k}
			case token.NEQ:
				if iv.lo == k {
					iv.lo = k + 1
				}
				if iv.hi == k {
					iv.hi = k - 1
				}
			}
		}
	}
	return iv
}

// sameQuantity: the same SSA value, or two len()/cap() calls on the same operand (go/ssa shares no sub-expressions;
// a slice header is immutable between the two reads because SSA values are).
func sameQuantity(a, b ssa.Value) bool {
	if a == b {
		return true
	}
	ca, ok1 := a.(*ssa.Call)
	cb, ok2 := b.(*ssa.Call)
	if !ok1 || !ok2 {
		return false
	}
	ba, ok1 := ca.Call.Value.(*ssa.Builtin)
	bb, ok2 := cb.Call.Value.(*ssa.Builtin)
	return ok1 && ok2 && ba.Name() == bb.Name() && (ba.Name() == "len" || ba.Name() == "cap") && len(ca.Call.Args) == 1 && len(cb.Call.Args) == 1 && ca.Call.Args[0] == cb.Call.Args[0]
}

func isLenLike(v ssa.Value) bool {
	call, ok := v.(*ssa.Call)
	if !ok {
		return false
	}
	if b, isB := call.Call.Value.(*ssa.Builtin); isB {
		return b.Name() == "len" || b.Name() == "cap"
	}
	if o := CalleeObj(call); o != nil {
		switch o.Name() {
		case "Len", "Cap":
			return true
		}
	}
	return false
}

// interval of v at e.at.
func (e *linEngine) interval(v ssa.Value) ival {
	if k, ok := constI64(v); ok {
		return ival{k, k}
	}
	if e.slack[v] {
		return ival{0, satV}
	}
	t := typeIval(v.Type())
	if e.busy[v] {
		return t
	}
	e.busy[v] = true
	defer delete(e.busy, v)
	iv := t
	switch x := v.(type) {
	case *ssa.Convert:
		in := e.interval(x.X)
		if in.within(t) {
			iv = in
		}
	case *ssa.ChangeType:
		iv = e.interval(x.X)
	case *ssa.BinOp:
		a, b := e.interval(x.X), e.interval(x.Y)
		var r ival
		switch x.Op {
		case token.ADD:
			r = ival{satAdd(a.lo, b.lo), satAdd(a.hi, b.hi)}
		case token.SUB:
			r = ival{satAdd(a.lo, -b.hi), satAdd(a.hi, -b.lo)}
		default:
			r = t
		}
		if r.within(t) {
			iv = r
		}
	case *ssa.Phi:
		// a counter: phi(c0, phi + d) with d >= 0 is bounded below by the non-cyclic entries
		lo, hi := satV, -satV
		for _, ed := range x.Edges {
			if bo, ok := ed.(*ssa.BinOp); ok && bo.Op == token.ADD && (bo.X == ssa.Value(x) || bo.Y == ssa.Value(x)) {
				d := bo.Y
				if bo.Y == ssa.Value(x) {
					d = bo.X
				}
				if e.interval(d).lo >= 0 {
					hi = t.hi // grows without a bound we know
					continue
				}
			}
			r := e.interval(ed)
			if r.lo < lo {
				lo = r.lo
			}
			if r.hi > hi {
				hi = r.hi
			}
		}
		if lo <= hi {
			iv = ival{lo, hi}
			if iv.lo < t.lo {
				iv.lo = t.lo
			}
			if iv.hi > t.hi {
				iv.hi = t.hi
			}
		}
	case *ssa.Call:
		if isLenLike(v) {
			iv = ival{0, satV}
			if !iv.within(t) {
				iv = ival{0, t.hi}
			}
		}
	case *ssa.Extract:
		if call, ok := x.Tuple.(*ssa.Call); ok && x.Index == 1 {
			// the width reported by the utf8 decoders is 0..4
			if o := CalleeObj(call); o != nil && o.Pkg() != nil && o.Pkg().Path() == "unicode/utf8" && strings.HasPrefix(o.Name(), "Decode") {
				iv = ival{0, 4}
			}
		}
		if call, ok := x.Tuple.(*ssa.Call); ok && x.Index == 0 && e.minusFn != nil && call.Call.StaticCallee() == e.minusFn {
			a := e.interval(call.Call.Args[0])
			// result is a-b with b >= 0 and result >= 0, or a itself
			iv = ival{a.lo, a.hi}
			if iv.lo < 0 && a.lo >= 0 {
				iv.lo = 0
			}
		}
	}
	return e.guards(v, iv)
}

func (e *linEngine) atom(v ssa.Value) linForm {
	l := newLin()
	l.atoms[v] = 1
	return l
}

// lin returns v as a linear form; sub-expressions that may wrap stay opaque.
func (e *linEngine) lin(v ssa.Value) linForm {
	if k, ok := constI64(v); ok {
		l := newLin()
		l.k = k
		return l
	}
	if e.sizeOf != nil && e.sizeOf(v) {
		return e.atom(e.SizeKey)
	}
	switch x := v.(type) {
	case *ssa.Convert:
		if e.interval(x.X).within(typeIval(x.Type())) {
			return e.lin(x.X)
		}
	case *ssa.ChangeType:
		return e.lin(x.X)
	case *ssa.BinOp:
		if x.Op != token.ADD && x.Op != token.SUB {
			break
		}
		a, b := e.interval(x.X), e.interval(x.Y)
		t := typeIval(x.Type())
		var r ival
		sign := int64(1)
		if x.Op == token.ADD {
			r = ival{satAdd(a.lo, b.lo), satAdd(a.hi, b.hi)}
		} else {
			r = ival{satAdd(a.lo, -b.hi), satAdd(a.hi, -b.lo)}
			sign = -1
		}
		if r.within(t) {
			return e.lin(x.X).add(e.lin(x.Y), sign)
		}
	case *ssa.UnOp:
		// a variable whose address was handed to the reader (binary.Read(&size)): all loads name the same quantity
		// as long as the function itself never stores into it
		if al, ok := x.X.(*ssa.Alloc); ok && x.Op == token.MUL && al.Referrers() != nil {
			stored := false
			for _, r := range *al.Referrers() {
				if st, isSt := r.(*ssa.Store); isSt && st.Addr == ssa.Value(al) {
					stored = true
				}
			}
			if !stored {
				return e.atom(al)
			}
		}
	case *ssa.Extract:
		if call, ok := x.Tuple.(*ssa.Call); ok && x.Index == 0 && e.minusFn != nil && call.Call.StaticCallee() == e.minusFn {
			// a - b with b >= 0 (on failure: a): a minus a non-negative unknown
			e.slack[v] = true
			l := e.lin(call.Call.Args[0])
			s := newLin()
			s.atoms[v] = 1
			return l.add(s, -1)
		}
	}
	return e.atom(v)
}

// lower bound of a linear form at e.at
func (e *linEngine) lower(l linForm) int64 {
	lo := l.k
	for a, c := range l.atoms {
		var iv ival
		if al, ok := a.(*ssa.Alloc); ok {
			iv = typeIval(al.Type().(*types.Pointer).Elem())
		} else if a == e.SizeKey && e.SizeKey != nil {
			iv = ival{0, 4294967295}
		} else {
			iv = e.interval(a)
		}
		if c > 0 {
			lo = satAdd(lo, satMul(c, iv.lo))
		} else {
			lo = satAdd(lo, satMul(c, iv.hi))
		}
	}
	return lo
}

// verifyMinus: fn(a, b) returns (a-b, nil) only when b >= 0 and a-b >= 0, and (a, err) otherwise.
func verifyMinus(fn *ssa.Function) bool {
	if fn == nil || len(fn.Params) != 2 || fn.Signature.Results().Len() != 2 {
		return false
	}
	a, b := ssa.Value(fn.Params[0]), ssa.Value(fn.Params[1])
	ok := true
	n := 0
	Instrs(fn, func(i ssa.Instruction) {
		ret, isRet := i.(*ssa.Return)
		if !isRet {
			return
		}
		vals := ReturnVals(ret)
		if vals[0] == a {
			return // unchanged
		}
		sub, isSub := vals[0].(*ssa.BinOp)
		if !isSub || sub.Op != token.SUB || sub.X != a || sub.Y != b {
			ok = false
			return
		}
		n++
		e := &linEngine{fn: fn, at: ret.Block(), slack: map[ssa.Value]bool{}, busy: map[ssa.Value]bool{}}
		if e.guards(b, typeIval(b.Type())).lo < 0 || e.guards(sub, typeIval(sub.Type())).lo < 0 {
			ok = false
		}
	})
	return ok && n > 0
}
