package main

import (
	"fmt"
	"go/constant"
	"go/token"
	"go/types"

	"golang.org/x/tools/go/ssa"
)

const securePkg = Root + "/plugin/secure"

func init() {
	register(&Rule{ID: "C17.1", Prop: "C17", Min: 9,
		Text: "the secure plugin takes part in all nine body stages: *securePlugin implements PreWrite{Call,Push,Reply}, PreRead{Call,Reply,Push}Body and PostRead{Call,Reply,Push}Body, and the push/reply variants delegate to the call variant",
		Run:  runC17_1})
	register(&Rule{ID: "C17.2", Prop: "C17", Min: 3,
		Text: "only ciphertext is written for a secure message: in PreWriteCall every path that marshals the body replaces it (Output().SetBody) by a fresh Encrypt envelope whose Ciphertext derives from AESEncrypt(e.cipherkey, MarshalBody()) and whose Cipherversion is e.version; no other body is installed",
		Run:  runC17_2})
	register(&Rule{ID: "C17.3", Prop: "C17", Min: 3,
		Text: "reply encryption decision: PreReadCallBody records accept_encrypt in the context swap iff (secure and accept != \"false\") or (not secure and accept == \"true\"); PreWriteCall encrypts an unmarked outgoing message iff that same key is present, marking it secure",
		Run:  runC17_3})
	register(&Rule{ID: "C17.4", Prop: "C17", Min: 4,
		Text: "decrypt discipline: in PostReadCallBody AESDecrypt runs only on the edge where the received cipher version equals the plugin's; the version-mismatch and decrypt-failure edges return a fresh non-OK status with the plugin's code (C09.5: the handler is then not invoked); the raw body is restored and decoded only after",
		Run:  runC17_4})
	register(&Rule{ID: "C17.5", Prop: "C17", Min: 2,
		Text: "unmarked messages pass unchanged: without the secure mark and without a recorded accept, PreWriteCall returns nil before touching the body; PreReadCallBody leaves the body binder alone when the message is not marked secure",
		Run:  runC17_5})
}

func runC17_1(c *Ctx) {
	p := c.P
	sp := p.Named(securePkg, "securePlugin")
	ms := types.NewMethodSet(types.NewPointer(sp))
	stages := []string{"PreWriteCall", "PreWritePush", "PreWriteReply", "PreReadCallBody", "PostReadCallBody", "PreReadReplyBody", "PostReadReplyBody", "PreReadPushBody", "PostReadPushBody"}
	for _, s := range stages {
		iface := p.Named(Root, s+"Plugin").Underlying().(*types.Interface)
		ok := types.Implements(types.NewPointer(sp), iface) && ms.Lookup(nil, s) != nil
		c.fact("method-set")
		c.Check(ok, "securePlugin implements "+s, p.Pos(sp.Obj().Pos()), "in the method set", "*securePlugin does not implement "+s+"Plugin: messages of that kind bypass encryption/decryption")
	}
	// delegation
	for _, d := range []struct{ typ, from, to string }{
		{"encryptPlugin", "PreWritePush", "PreWriteCall"}, {"encryptPlugin", "PreWriteReply", "PreWriteCall"},
		{"decryptPlugin", "PreReadReplyBody", "PreReadCallBody"}, {"decryptPlugin", "PreReadPushBody", "PreReadCallBody"},
		{"decryptPlugin", "PostReadReplyBody", "PostReadCallBody"}, {"decryptPlugin", "PostReadPushBody", "PostReadCallBody"},
	} {
		fn := p.Fn(securePkg, d.typ, d.from)
		to := p.MethodObj(securePkg, d.typ, d.to)
		ok := false
		Instrs(fn, func(i ssa.Instruction) {
			if ret, isR := i.(*ssa.Return); isR {
				if call, isC := ret.Results[0].(*ssa.Call); isC && CalleeObj(call) == to {
					ok = true
				}
			}
		})
		c.Check(ok, d.typ+"."+d.from+" delegates to "+d.to, p.Pos(fn.Pos()), "returns "+d.to+"(ctx)", d.typ+"."+d.from+" no longer delegates to "+d.to+": pushes/replies are treated differently from calls")
	}
}

func runC17_2(c *Ctx) {
	p := c.P
	fn := p.Fn(securePkg, "encryptPlugin", "PreWriteCall")
	setBody := p.MethodObj(Root+"/socket", "Body", "SetBody")
	marshal := p.MethodObj(Root+"/socket", "Body", "MarshalBody")
	aesEnc := p.FuncObj("github.com/henrylee2cn/goutil", "AESEncrypt")
	encN, cvIdx := p.FieldIndex(securePkg, "Encrypt", "Cipherversion")
	_, ctIdx := p.FieldIndex(securePkg, "Encrypt", "Ciphertext")
	epN, keyIdx := p.FieldIndex(securePkg, "encryptPlugin", "cipherkey")
	_, verIdx := p.FieldIndex(securePkg, "encryptPlugin", "version")
	sbs := CallsTo(fn, setBody)
	mbs := CallsTo(fn, marshal)
	encs := CallsTo(fn, aesEnc)
	if len(sbs) != 1 || len(mbs) != 1 || len(encs) != 1 {
		c.Viol("PreWriteCall envelope", p.Pos(fn.Pos()), fmt.Sprintf("expected exactly one SetBody, MarshalBody and AESEncrypt; found %d/%d/%d: a plaintext body may be (re)installed", len(sbs), len(mbs), len(encs)))
		return
	}
	// AESEncrypt(e.cipherkey, <MarshalBody result>)
	enc := encs[0].(*ssa.Call)
	keyOK := isFieldLoad(enc.Call.Args[0], epN, keyIdx)
	plain := enc.Call.Args[1]
	plainOK := false
	if ex, ok := plain.(*ssa.Extract); ok && ex.Tuple == mbs[0].(ssa.Value) && ex.Index == 0 {
		plainOK = true
	}
	c.fact("value-identity")
	c.Check(keyOK && plainOK, "ciphertext = AESEncrypt(key, marshalled body)", p.InstrPos(enc), "key is e.cipherkey, plaintext is the message's own marshalled body", "the encryption call does not use the plugin's key on the message's marshalled body")
	// the envelope
	env, isAl := stripIface(sbs[0].Common().Args[0]).(*ssa.Alloc)
	envOK := isAl && env.Heap && derefNamed(env.Type()) == encN
	ctOK, cvOK := false, false
	if envOK {
		Instrs(fn, func(i ssa.Instruction) {
			st, ok := i.(*ssa.Store)
			if !ok {
				return
			}
			fa, ok := st.Addr.(*ssa.FieldAddr)
			if !ok || fa.X != ssa.Value(env) {
				return
			}
			switch fa.Field {
			case ctIdx:
				// BytesToString(AESEncrypt(...)) or string(...)
				v := st.Val
				for k := 0; k < 3; k++ {
					switch x := v.(type) {
					case *ssa.Call:
						if len(x.Call.Args) == 1 {
							v = x.Call.Args[0]
						}
					case *ssa.Convert:
						v = x.X
					}
				}
				ctOK = v == ssa.Value(enc)
			case cvIdx:
				cvOK = isFieldLoad(st.Val, epN, verIdx)
			}
		})
	}
	c.Check(envOK && ctOK && cvOK, "the installed body is the envelope of that ciphertext", p.InstrPos(sbs[0]), "SetBody(&Encrypt{Cipherversion: e.version, Ciphertext: <AESEncrypt result>})", "the body installed by PreWriteCall is not a fresh Encrypt envelope carrying the AESEncrypt result and the plugin's version: plaintext (or a stale envelope) goes on the wire")
	// every path from the marshal to a nil return passes SetBody
	w := &Walk{P: p, Stop: func(i ssa.Instruction) bool { return i == sbs[0].(ssa.Instruction) }}
	w.From(mbs[0])
	okAll := true
	for _, e := range w.Exits {
		if IsNilConst(ReturnVals(e.(*ssa.Return))[0]) {
			okAll = false
		}
	}
	c.fact("must-pass")
	c.Check(okAll, "every OK path after marshalling installs the envelope", p.InstrPos(mbs[0]), "nil is returned only after SetBody(envelope)", "PreWriteCall can return OK after marshalling the body without replacing it by the envelope: a message marked secure leaves in clear")
}

func runC17_3(c *Ctx) {
	p := c.P
	pre := p.Fn(securePkg, "decryptPlugin", "PreReadCallBody")
	enc := p.Fn(securePkg, "encryptPlugin", "PreWriteCall")
	isSecure := p.FuncObj(securePkg, "isSecure")
	enforce := p.FuncObj(securePkg, "EnforceSecure")
	mapStore := p.MethodObj("github.com/henrylee2cn/goutil", "Map", "Store")
	mapLoad := p.MethodObj("github.com/henrylee2cn/goutil", "Map", "Load")
	acceptKey := constant.StringVal(p.ConstVal(securePkg, "accept_encrypt"))
	isAcceptKey := func(v ssa.Value) bool {
		cst, ok := stripIface(v).(*ssa.Const)
		return ok && cst.Value != nil && cst.Value.Kind() == constant.String && constant.StringVal(cst.Value) == acceptKey && cst.Type().String() == securePkg+".swapKey"
	}
	// stores of accept_encrypt in PreReadCallBody: one on each side of the isSecure test, guarded by the string comparisons
	var secT, secF *ssa.BasicBlock
	for _, e := range CondCallEdges(pre, isSecure) {
		secT, secF = e.True, e.False
	}
	// isSecure result may be stored in a variable first: find If on the call value
	if secT == nil {
		for _, b := range pre.Blocks {
			ifi, ok := b.Instrs[len(b.Instrs)-1].(*ssa.If)
			if !ok {
				continue
			}
			cv, neg := stripNot(ifi.Cond)
			if call, ok := cv.(*ssa.Call); ok && CalleeObj(call) == isSecure {
				secT, secF = b.Succs[0], b.Succs[1]
				if neg {
					secT, secF = secF, secT
				}
			}
		}
	}
	if secT == nil {
		c.Undec("accept decision", p.Pos(pre.Pos()), "cannot find the isSecure test in PreReadCallBody")
		return
	}
	cmpEdge := func(call ssa.Instruction, lit string, wantEq bool) bool {
		// is `call` dominated by the edge accept ==/!= lit ?
		for _, b := range pre.Blocks {
			ifi, ok := b.Instrs[len(b.Instrs)-1].(*ssa.If)
			if !ok {
				continue
			}
			bo, ok := ifi.Cond.(*ssa.BinOp)
			if !ok || (bo.Op != token.EQL && bo.Op != token.NEQ) {
				continue
			}
			cst, ok := bo.Y.(*ssa.Const)
			if !ok || cst.Value == nil || cst.Value.Kind() != constant.String || constant.StringVal(cst.Value) != lit {
				continue
			}
			eq := bo.Op == token.EQL
			t := b.Succs[0]
			if eq != wantEq {
				t = b.Succs[1]
			}
			if BlockDominatesInstr(t, call) {
				return true
			}
		}
		return false
	}
	nSec, nUnsec := 0, 0
	okSec, okUnsec := false, false
	for _, st := range CallsTo(pre, mapStore) {
		if !isAcceptKey(st.Common().Args[0]) {
			continue
		}
		if BlockDominatesInstr(secT, st) {
			nSec++
			okSec = cmpEdge(st, "false", false)
		} else if BlockDominatesInstr(secF, st) {
			nUnsec++
			okUnsec = cmpEdge(st, "true", true)
		}
	}
	c.fact("dominance")
	c.Check(nSec == 1 && okSec, "secure request: reply encrypted unless accept == \"false\"", p.Pos(pre.Pos()), "accept_encrypt stored on secure && accept != \"false\"", "for a secure request the accept_encrypt mark is not recorded exactly when accept != \"false\": the reply to an encrypted request may leave in clear")
	c.Check(nUnsec == 1 && okUnsec, "plain request: reply encrypted iff accept == \"true\"", p.Pos(pre.Pos()), "accept_encrypt stored on !secure && accept == \"true\"", "for an unmarked request the accept_encrypt mark is not recorded exactly when accept == \"true\"")
	// encrypt side: on the not-secure edge, Load(accept_encrypt); absent => return nil; present => EnforceSecure
	okEnc := false
	for _, ld := range CallsTo(enc, mapLoad) {
		if !isAcceptKey(ld.Common().Args[0]) {
			continue
		}
		enf := CallsTo(enc, enforce)
		if len(enf) == 1 && Dominates(ld, enf[0]) {
			okEnc = true
		}
	}
	c.Check(okEnc, "PreWriteCall honours the recorded accept", p.Pos(enc.Pos()), "Load(accept_encrypt) then EnforceSecure", "PreWriteCall does not consult the accept_encrypt mark recorded by PreReadCallBody (same swap key) before deciding to encrypt an unmarked reply")
}

func runC17_4(c *Ctx) {
	p := c.P
	fn := p.Fn(securePkg, "decryptPlugin", "PostReadCallBody")
	aesDec := p.FuncObj("github.com/henrylee2cn/goutil", "AESDecrypt")
	newStatus := p.Global(Root, "NewStatus")
	dpN, verIdx := p.FieldIndex(securePkg, "decryptPlugin", "version")
	_, keyIdx := p.FieldIndex(securePkg, "decryptPlugin", "cipherkey")
	_, codeIdx := p.FieldIndex(securePkg, "decryptPlugin", "statCode")
	unmarshal := p.MethodObj(Root+"/socket", "Body", "UnmarshalBody")
	setBody := p.MethodObj(Root+"/socket", "Body", "SetBody")
	// the function that decrypts: the hook itself, or a helper of the package it calls (extract-method tolerant)
	top := fn
	var dcall *ssa.Call
	decs := CallsTo(fn, aesDec)
	if len(decs) == 0 {
		for _, call := range AllCalls(top) {
			sc := call.Common().StaticCallee()
			cc, isCall := call.(*ssa.Call)
			if isCall && sc != nil && sc.Pkg == top.Pkg && len(CallsTo(sc, aesDec)) > 0 {
				fn, dcall = sc, cc
			}
		}
		decs = CallsTo(fn, aesDec)
	}
	if len(decs) != 1 {
		c.Viol("decrypt call", p.Pos(top.Pos()), fmt.Sprintf("expected one AESDecrypt, found %d", len(decs)))
		return
	}
	statRes := fn.Signature.Results().Len() - 1
	dec := decs[0].(*ssa.Call)
	// version test
	var mismatch, match *ssa.BasicBlock
	for _, ee := range EqEdges(fn) {
		if isFieldLoad(ee.X, dpN, verIdx) {
			mismatch, match = ee.Ne, ee.Eq
		}
	}
	okVer := match != nil && BlockDominatesInstr(match, dec) && isFieldLoad(dec.Call.Args[0], dpN, keyIdx)
	c.fact("dominance")
	c.Check(okVer, "decrypt only on the version-match edge with the plugin's key", p.InstrPos(dec), "AESDecrypt(e.cipherkey, ...) dominated by version == e.version", "AESDecrypt is not confined to the edge where the received cipher version equals the plugin's (or uses another key): a message encrypted with a different key is not refused up front")
	freshFail := func(blk *ssa.BasicBlock) bool {
		w := &Walk{P: p}
		w.FromBlock(blk)
		if len(w.Exits) == 0 {
			return false
		}
		for _, e := range w.Exits {
			v := ReturnVals(e.(*ssa.Return))[statRes]
			call, ok := v.(*ssa.Call)
			if !ok || !IsLoadOfGlobal(call.Call.Value, newStatus) || !isFieldLoad(call.Call.Args[0], dpN, codeIdx) {
				return false
			}
		}
		return true
	}
	c.Check(mismatch != nil && freshFail(mismatch), "version mismatch is refused", p.Pos(fn.Pos()), "returns NewStatus(e.statCode, ...)", "a cipher-version mismatch does not end in a fresh non-OK status with the plugin's code: the handler would still be invoked")
	// decrypt failure edge
	okDecFail := false
	for _, e := range NilCmpEdges(fn, func(v ssa.Value) bool {
		ex, ok := v.(*ssa.Extract)
		return (ok && ex.Tuple == ssa.Value(dec) && ex.Index == 1) || sameViaCellExtract(v, dec)
	}) {
		okDecFail = freshFail(e.NonNil)
	}
	c.Check(okDecFail, "decrypt failure is refused", p.InstrPos(dec), "err != nil => NewStatus(e.statCode, ...)", "a failed AESDecrypt does not end in a fresh non-OK status with the plugin's code")
	// restore + decode only after: every UnmarshalBody / SetBody is unreachable from the failure edges and follows the version test
	okAfter := true
	if dcall != nil {
		// helper form: the hook returns the helper's refusal unchanged and restores/decodes only on its nil edge
		okAfter = false
		isStat := func(v ssa.Value) bool {
			ex, ok := v.(*ssa.Extract)
			return ok && ex.Tuple == ssa.Value(dcall) && ex.Index == statRes
		}
		for _, e := range NilCmpEdges(top, isStat) {
			w := &Walk{P: p}
			w.FromBlock(e.NonNil)
			prop := len(w.Exits) > 0
			for _, x := range w.Exits {
				if !isStat(ReturnVals(x.(*ssa.Return))[0]) {
					prop = false
				}
			}
			guarded := true
			for _, call := range AllCalls(top) {
				if IsCallTo(call, unmarshal, setBody) && !BlockDominatesInstr(e.Nil, call) {
					guarded = false
				}
			}
			if prop && guarded {
				okAfter = true
			}
		}
		for _, call := range AllCalls(fn) {
			if IsCallTo(call, unmarshal, setBody) {
				okAfter = false
			}
		}
	} else {
		for _, call := range AllCalls(fn) {
			if !IsCallTo(call, unmarshal, setBody) {
				continue
			}
			if mismatch != nil && len(p.ReachableFromBlock(mismatch, func(i ssa.Instruction) bool { return i == call.(ssa.Instruction) }, nil, nil)) > 0 {
				okAfter = false
			}
			if len(p.ReachableFrom(call, func(i ssa.Instruction) bool { return i == ssa.Instruction(dec) }, nil, nil)) > 0 {
				okAfter = false
			}
		}
	}
	c.Check(okAfter, "raw body restored and decoded only after decryption", p.Pos(top.Pos()), "SetBody(rawbody)/UnmarshalBody follow the decrypt and are unreachable from the refusal edges", "the raw body is restored or decoded on a refusal path or before decryption")
}

// sameViaCellExtract: v is a load of a cell into which extract #1 of call is stored.
func sameViaCellExtract(v ssa.Value, call *ssa.Call) bool {
	u, ok := v.(*ssa.UnOp)
	if !ok || u.Op != token.MUL {
		return false
	}
	al, ok := u.X.(*ssa.Alloc)
	if !ok || al.Referrers() == nil {
		return false
	}
	for _, r := range *al.Referrers() {
		if st, ok := r.(*ssa.Store); ok {
			if ex, ok := st.Val.(*ssa.Extract); ok && ex.Tuple == ssa.Value(call) && ex.Index == 1 {
				return true
			}
		}
	}
	return false
}

func runC17_5(c *Ctx) {
	p := c.P
	enc := p.Fn(securePkg, "encryptPlugin", "PreWriteCall")
	pre := p.Fn(securePkg, "decryptPlugin", "PreReadCallBody")
	setBody := p.MethodObj(Root+"/socket", "Body", "SetBody")
	marshal := p.MethodObj(Root+"/socket", "Body", "MarshalBody")
	isSecure := p.FuncObj(securePkg, "isSecure")
	// encrypt side: from the !isSecure && !acceptSecure edge a nil return is reached without SetBody/MarshalBody
	ok := false
	for _, b := range enc.Blocks {
		ifi, isIf := b.Instrs[len(b.Instrs)-1].(*ssa.If)
		if !isIf {
			continue
		}
		// acceptSecure flag: extract #1 of Map.Load
		cv, neg := stripNot(ifi.Cond)
		ex, isEx := cv.(*ssa.Extract)
		if !isEx || ex.Index != 1 {
			continue
		}
		absent := b.Succs[1]
		if neg {
			absent = b.Succs[0]
		}
		touched := p.ReachableFromBlock(absent, func(i ssa.Instruction) bool { return IsCallTo(i, setBody, marshal) }, nil, nil)
		w := &Walk{P: p}
		w.FromBlock(absent)
		nilRet := len(w.Exits) > 0
		for _, e := range w.Exits {
			if !IsNilConst(ReturnVals(e.(*ssa.Return))[0]) {
				nilRet = false
			}
		}
		ok = len(touched) == 0 && nilRet
	}
	c.fact("path-search")
	c.Check(ok, "unmarked outgoing message untouched", p.Pos(enc.Pos()), "not secure and no recorded accept => return nil before marshalling", "PreWriteCall touches the body of a message that is neither marked secure nor answering an accept-secure request")
	// decrypt side: on the !isSecure edge no SetBody
	ok2 := false
	for _, b := range pre.Blocks {
		ifi, isIf := b.Instrs[len(b.Instrs)-1].(*ssa.If)
		if !isIf {
			continue
		}
		cv, neg := stripNot(ifi.Cond)
		call, isC := cv.(*ssa.Call)
		if !isC || CalleeObj(call) != isSecure {
			continue
		}
		plain := b.Succs[1]
		if neg {
			plain = b.Succs[0]
		}
		ok2 = len(p.ReachableFromBlock(plain, func(i ssa.Instruction) bool { return IsCallTo(i, setBody) }, nil, nil)) == 0
	}
	c.Check(ok2, "unmarked incoming message keeps its body binder", p.Pos(pre.Pos()), "no SetBody on the not-secure edge", "PreReadCallBody replaces the body binder of a message that is not marked secure: plain messages are decoded as envelopes")
}

func init() {
	register(&Rule{ID: "C17.7", Prop: "C17", Min: 8,
		Text: "the context status seen by the pre-write hooks is nil unless the handler failed: the call-handler closures store the handler's status into ctx.stat only on its non-OK edge (same obligations as C04.3) - the secure plugin skips encryption when ctx.Status() != nil, so a recorded non-nil OK status sends the reply to a secure call in clear",
		Run:  runC04_3})
	register(&Rule{ID: "C17.6", Prop: "C17", Min: 2,
		Text: "the encrypting pre-write stage runs once per outgoing message: in AsyncCall and Push no path leads from session.write (e.g. the retry after a redial) back to the pre-write plugin stage - the secure hook is not idempotent, a second pass would encrypt the envelope again and the receiver would decode garbage",
		Run:  runC17_6})
}

func runC17_6(c *Ctx) {
	p := c.P
	write := p.MethodObj(Root, "session", "write")
	for _, s := range []struct{ fn, stage string }{{"AsyncCall", "preWriteCall"}, {"Push", "preWritePush"}} {
		fn := p.Fn(Root, "session", s.fn)
		stage := p.MethodObj(Root, "pluginSingleContainer", s.stage)
		bad := ""
		for _, w := range CallsTo(fn, write) {
			if hits := p.ReachableFrom(w, func(i ssa.Instruction) bool { return IsCallTo(i, stage) }, nil, nil); len(hits) > 0 {
				bad = p.InstrPos(hits[0])
			}
		}
		n := len(CallsTo(fn, stage))
		c.fact("path-search")
		c.Check(bad == "" && n == 1, s.fn+": pre-write stage once per message", p.Pos(fn.Pos()), "no path from session.write back to "+s.stage, s.fn+" can run "+s.stage+" again after a write attempt (at "+bad+"): with the secure plugin the already encrypted body is encrypted a second time")
	}
}
