package main

import (
	"fmt"
	"go/token"
	"go/types"

	"golang.org/x/tools/go/ssa"
)

const proxyPkg = Root + "/plugin/proxy"

func init() {
	register(&Rule{ID: "C19.1", Prop: "C19", Min: 2,
		Text: "forwarded exactly once: proxy.call performs exactly one forwarder.Call and proxy.push exactly one forwarder.Push on every path, outside any loop",
		Run:  runC19_1})
	register(&Rule{ID: "C19.2", Prop: "C19", Min: 4,
		Text: "raw pass-through: the forwarded argument is ctx.InputBodyBytes(), the backend's reply body is received into a local []byte owned by this invocation and returned as the reply body; for unknown routes the framework binds a raw []byte body",
		Run:  runC19_2})
	register(&Rule{ID: "C19.3", Prop: "C19", Min: 3,
		Text: "metadata both ways: every request metadata pair is forwarded (VisitMeta -> WithAddMeta setting passed to the forwarder) and every reply metadata pair is copied back (InputMeta().VisitAll -> ctx.SetMeta), the latter only when a reply exists",
		Run:  runC19_3})
	register(&Rule{ID: "C19.4", Prop: "C19", Min: 2,
		Text: "real IP added exactly when absent: the WithAddMeta(MetaRealIP, ...) setting is appended only on the len(PeekMeta(MetaRealIP)) == 0 edge, in call and push",
		Run:  runC19_4})
	register(&Rule{ID: "C19.5", Prop: "C19", Min: 4,
		Text: "backend connection failures surface as Bad Gateway on that call only: every non-OK status with code in (99,200) is replaced by a NEW status NewStatus(CodeBadGateway, CodeText(CodeBadGateway), cause) (never mutated in place: C15.1), other statuses are returned unchanged",
		Run:  runC19_5})
	register(&Rule{ID: "C19.6", Prop: "C19", Min: 2,
		Text: "the proxy is installed as the unknown-call / unknown-push handler in PostNewPeer, each iff its forwarder is configured",
		Run:  runC19_6})
	register(&Rule{ID: "C19.7", Prop: "C19", Min: 1,
		Text: "no pooled object outlives its Put: a function that returns an object to a sync.Pool (directly or by defer) does not return data that still lives in that object",
		Run:  runSyncPoolEscape})
	register(&Rule{ID: "C20.5", Prop: "C20", Min: 1,
		Text: "no pooled object outlives its Put: a function that returns an object to a sync.Pool (directly or by defer) does not return data that still lives in that object",
		Run:  runSyncPoolEscape})
}

func proxyFns(p *Prog) (call, push *ssa.Function) {
	return p.Fn(proxyPkg, "proxy", "call"), p.Fn(proxyPkg, "proxy", "push")
}

func runC19_1(c *Ctx) {
	p := c.P
	callFn, pushFn := proxyFns(p)
	for _, s := range []struct {
		fn     *ssa.Function
		iface  string
		method string
	}{{callFn, "CallForwarder", "Call"}, {pushFn, "PushForwarder", "Push"}} {
		m := p.MethodObj(proxyPkg, s.iface, s.method)
		calls := CallsTo(s.fn, m)
		ok := len(calls) == 1
		if ok {
			is := func(i ssa.Instruction) bool { return i == calls[0].(ssa.Instruction) }
			all, _ := p.MustPassFromEntry(s.fn, is, nil)
			again := p.ReachableFrom(calls[0], is, nil, nil)
			ok = all && len(again) == 0
		}
		c.fact("must-pass+path-search")
		c.Check(ok, "proxy."+s.fn.Name()+" forwards exactly once", p.Pos(s.fn.Pos()), "one "+s.iface+"."+s.method+" on every path, not in a loop", "proxy."+s.fn.Name()+" does not forward the message exactly once on every path")
	}
}

func runC19_2(c *Ctx) {
	p := c.P
	callFn, pushFn := proxyFns(p)
	inputBody := p.MethodObj(Root, "UnknownCallCtx", "InputBodyBytes")
	inputBodyP := p.MethodObj(Root, "UnknownPushCtx", "InputBodyBytes")
	fwdCall := p.MethodObj(proxyPkg, "CallForwarder", "Call")
	fwdPush := p.MethodObj(proxyPkg, "PushForwarder", "Push")
	// call: arg #1 (after method) is ctx.InputBodyBytes() boxed; arg #2 is &result (a local)
	for _, fc := range CallsTo(callFn, fwdCall) {
		args := fc.Common().Args
		a1 := stripIface(args[1])
		call, ok := a1.(*ssa.Call)
		c.Check(ok && CalleeObj(call) == inputBody, "proxy.call forwards the raw input body", p.InstrPos(fc), "arg = ctx.InputBodyBytes()", "proxy.call does not forward ctx.InputBodyBytes() as the argument: the backend sees a different body than the caller sent")
		res := stripIface(args[2])
		al, isLocal := res.(*ssa.Alloc)
		okLocal := isLocal && al.Parent() == callFn
		if okLocal {
			pt, _ := al.Type().Underlying().(*types.Pointer)
			sl, isSl := pt.Elem().Underlying().(*types.Slice)
			okLocal = isSl && types.Identical(sl.Elem(), types.Typ[types.Byte])
		}
		// returned body is a load of that local
		retOK := true
		Instrs(callFn, func(i ssa.Instruction) {
			ret, isR := i.(*ssa.Return)
			if !isR {
				return
			}
			v := stripIface(ReturnVals(ret)[0])
			u, isU := v.(*ssa.UnOp)
			if !isU || u.Op != token.MUL || u.X != res {
				retOK = false
			}
		})
		c.fact("value-identity")
		c.Check(okLocal && retOK, "proxy.call returns the backend's body bytes from its own local", p.InstrPos(fc), "result received into a function-local []byte and returned as the reply body", "proxy.call receives the backend reply into storage that is not private to this invocation (or returns something else): concurrent proxied calls can see each other's reply body")
	}
	for _, fp := range CallsTo(pushFn, fwdPush) {
		a1 := stripIface(fp.Common().Args[1])
		call, ok := a1.(*ssa.Call)
		c.Check(ok && CalleeObj(call) == inputBodyP, "proxy.push forwards the raw input body", p.InstrPos(fp), "arg = ctx.InputBodyBytes()", "proxy.push does not forward ctx.InputBodyBytes()")
	}
	// framework side: bindCall binds new([]byte) on the unknown-handler edge
	bc := p.Fn(Root, "handlerCtx", "bindCall")
	setBody := p.MethodObj(Root+"/socket", "Body", "SetBody")
	ok := false
	for _, sb := range CallsTo(bc, setBody) {
		v := stripIface(sb.Common().Args[0])
		if al, isAl := v.(*ssa.Alloc); isAl && al.Heap {
			if pt, isP := al.Type().Underlying().(*types.Pointer); isP {
				if sl, isSl := pt.Elem().Underlying().(*types.Slice); isSl && types.Identical(sl.Elem(), types.Typ[types.Byte]) {
					// on the isUnknown edge
					for _, b := range bc.Blocks {
						ifi, isIf := b.Instrs[len(b.Instrs)-1].(*ssa.If)
						if !isIf {
							continue
						}
						if fr, _, okf := LoadedField(ifi.Cond); okf && fr.String() == "Handler.isUnknown" && BlockDominatesInstr(b.Succs[0], sb) {
							ok = true
						}
					}
				}
			}
		}
	}
	c.Check(ok, "unknown routes receive the raw body", p.Pos(bc.Pos()), "bindCall binds new([]byte) when the handler is the unknown handler", "bindCall no longer binds a raw []byte body for unknown routes: the proxy cannot pass the bytes through unchanged")
}

// proxyHost: the function that prepares the forwarded request for fn - fn itself, or the helper of the package
// that every path of fn calls and that builds the WithAddMeta settings (extract-method tolerant).
func proxyHost(p *Prog, fn *ssa.Function, withAddMeta *ssa.Global) *ssa.Function {
	uses := func(f *ssa.Function) bool {
		found := false
		for _, g := range WithAnon(f) {
			Instrs(g, func(i ssa.Instruction) {
				if call, isC := i.(*ssa.Call); isC && IsLoadOfGlobal(call.Call.Value, withAddMeta) {
					found = true
				}
			})
		}
		return found
	}
	if uses(fn) {
		return fn
	}
	for _, call := range AllCalls(fn) {
		h := call.Common().StaticCallee()
		if _, isCall := call.(*ssa.Call); !isCall || h == nil || h.Pkg != fn.Pkg || len(h.Blocks) == 0 || !uses(h) {
			continue
		}
		if all, _ := p.MustPassFromEntry(fn, func(i ssa.Instruction) bool { return i == ssa.Instruction(call) }, nil); all {
			return h
		}
	}
	return fn
}

func runC19_3(c *Ctx) {
	p := c.P
	callFn, pushFn := proxyFns(p)
	withAddMeta := p.Global(Root, "WithAddMeta")
	for _, fn := range []*ssa.Function{callFn, pushFn} {
		ok := false
		for _, a := range proxyHost(p, fn, withAddMeta).AnonFuncs {
			// the VisitMeta callback appends WithAddMeta(string(key), string(value)) to the captured settings
			Instrs(a, func(i ssa.Instruction) {
				if call, isC := i.(*ssa.Call); isC && IsLoadOfGlobal(call.Call.Value, withAddMeta) {
					k, ok1 := call.Call.Args[0].(*ssa.Convert)
					v, ok2 := call.Call.Args[1].(*ssa.Convert)
					if ok1 && ok2 && k.X == ssa.Value(a.Params[0]) && v.X == ssa.Value(a.Params[1]) {
						ok = true
					}
				}
			})
		}
		c.fact("closure-shape")
		c.Check(ok, "proxy."+fn.Name()+" forwards every request metadata pair", p.Pos(fn.Pos()), "VisitMeta callback appends WithAddMeta(key, value)", "proxy."+fn.Name()+" does not forward each request metadata pair unchanged")
	}
	// reply metadata copied back under a non-nil guard
	inputMeta := p.MethodObj(Root, "CallCmd", "InputMeta")
	visitAll := p.MethodObj(Root+"/utils", "Args", "VisitAll")
	setMeta := p.MethodObj(Root, "UnknownCallCtx", "SetMeta")
	ok := false
	for _, va := range CallsTo(callFn, visitAll) {
		im, isC := va.Common().Args[0].(*ssa.Call)
		if !isC || CalleeObj(im) != inputMeta {
			continue
		}
		guarded := false
		for _, e := range NilCmpEdges(callFn, func(v ssa.Value) bool { return v == ssa.Value(im) }) {
			if BlockDominatesInstr(e.NonNil, va) {
				guarded = true
			}
		}
		cb := closureArg(va, 0)
		copies := cb != nil && len(CallsTo(cb, setMeta)) == 1
		ok = guarded && copies
	}
	c.Check(ok, "proxy.call copies the reply metadata back", p.Pos(callFn.Pos()), "InputMeta() != nil => VisitAll(ctx.SetMeta)", "proxy.call does not copy the backend's reply metadata to the caller's reply (or dereferences the nil metadata of a call that got no reply)")
}

func runC19_4(c *Ctx) {
	p := c.P
	callFn, pushFn := proxyFns(p)
	withAddMeta := p.Global(Root, "WithAddMeta")
	realIP := constStr(p, Root, "MetaRealIP")
	for _, top := range []*ssa.Function{callFn, pushFn} {
		fn := proxyHost(p, top, withAddMeta)
		var adds []ssa.Instruction
		Instrs(fn, func(i ssa.Instruction) {
			if call, isC := i.(*ssa.Call); isC && IsLoadOfGlobal(call.Call.Value, withAddMeta) {
				if cst, ok := call.Call.Args[0].(*ssa.Const); ok && cst.Value != nil && cst.Value.Kind().String() == "String" && cst.Value.ExactString() == fmt.Sprintf("%q", realIP) {
					adds = append(adds, i)
				}
			}
		})
		ok := len(adds) == 1
		if ok {
			ok = false
			for _, ee := range EqEdges(fn) {
				k, okc := ConstIntOf(ee.Y)
				ln, isL := ee.X.(*ssa.Call)
				if !okc || k != 0 || !isL {
					continue
				}
				if bi, isBi := ln.Call.Value.(*ssa.Builtin); !isBi || bi.Name() != "len" {
					continue
				}
				pk, isPk := ln.Call.Args[0].(*ssa.Call)
				if !isPk || CalleeObj(pk) == nil || CalleeObj(pk).Name() != "PeekMeta" {
					continue
				}
				if BlockDominatesInstr(ee.Eq, adds[0]) {
					ok = true
				}
			}
		}
		c.fact("dominance")
		c.Check(ok, "proxy."+top.Name()+" adds the real IP iff absent", p.Pos(top.Pos()), "WithAddMeta(MetaRealIP, ...) only on the len(PeekMeta(MetaRealIP)) == 0 edge", "proxy."+top.Name()+" adds real-IP metadata although the request already carries it (or never adds it): the backend sees a wrong or duplicated client address")
	}
}

func constStr(p *Prog, pkg, name string) string {
	v := p.ConstVal(pkg, name)
	s := v.ExactString()
	if len(s) >= 2 && s[0] == '"' {
		return s[1 : len(s)-1]
	}
	return s
}

func runC19_5(c *Ctx) {
	p := c.P
	callFn, pushFn := proxyFns(p)
	codeM := p.MethodObj(statusPkg, "Status", "Code")
	newStatus := p.Global(Root, "NewStatus")
	badGateway := p.ConstInt(Root, "CodeBadGateway")
	for _, fn := range []*ssa.Function{callFn, pushFn} {
		// the function that builds the replacement: the handler itself or a helper of the package it calls
		host := fn
		var fresh *ssa.Call
		find := func(f *ssa.Function) *ssa.Call {
			var out *ssa.Call
			Instrs(f, func(i ssa.Instruction) {
				call, isC := i.(*ssa.Call)
				if !isC || !IsLoadOfGlobal(call.Call.Value, newStatus) {
					return
				}
				if k, okc := ConstIntOf(call.Call.Args[0]); okc && k == badGateway {
					out = call
				}
			})
			return out
		}
		if fresh = find(fn); fresh == nil {
			for _, call := range AllCalls(fn) {
				if sc := call.Common().StaticCallee(); sc != nil && sc.Pkg == fn.Pkg && len(sc.Blocks) > 0 {
					if b := find(sc); b != nil {
						host, fresh = sc, b
					}
				}
			}
		}
		// the codes for which the replacement is built: all comparisons of Code() with constants whose edge dominates it
		rng := ival{-satV, satV}
		if fresh != nil {
			eng := &linEngine{p: p, fn: host, at: fresh.Block(), slack: map[ssa.Value]bool{}, busy: map[ssa.Value]bool{}}
			for _, cc := range CallsTo(host, codeM) {
				iv := eng.guards(cc.(ssa.Value), ival{-satV, satV})
				if iv.lo > rng.lo {
					rng.lo = iv.lo
				}
				if iv.hi < rng.hi {
					rng.hi = iv.hi
				}
			}
		}
		c.fact("intervals")
		c.Check(fresh != nil && rng.lo == 100 && rng.hi == 199, "proxy."+fn.Name()+" maps the whole 1xx class", p.Pos(fn.Pos()), "99 < code < 200 => Bad Gateway", fmt.Sprintf("proxy.%s no longer maps exactly the connection-class statuses (codes 100..199: wrong conn, closed, write failed, dial failed) to Bad Gateway (mapped range [%d,%d]): some backend connection failures reach the caller with the backend-side code", fn.Name(), rng.lo, rng.hi))
		c.Check(fresh != nil, "proxy."+fn.Name()+" builds a new Bad Gateway status", p.Pos(fn.Pos()), "NewStatus(CodeBadGateway, ...)", "proxy."+fn.Name()+" does not build a new 502 status for the rewritten class")
	}
}

func runC19_6(c *Ctx) {
	p := c.P
	fn := p.Fn(proxyPkg, "proxy", "PostNewPeer")
	prN, cfIdx := p.FieldIndex(proxyPkg, "proxy", "callForwarder")
	_, pfIdx := p.FieldIndex(proxyPkg, "proxy", "pushForwarder")
	for _, s := range []struct {
		set, handler string
		idx          int
	}{{"SetUnknownCall", "call", cfIdx}, {"SetUnknownPush", "push", pfIdx}} {
		m := p.MethodObj(Root, "EarlyPeer", s.set)
		ok := false
		for _, call := range CallsTo(fn, m) {
			// argument: bound method value of proxy.<handler>
			arg := call.Common().Args[0]
			if mc, isMC := arg.(*ssa.MakeClosure); isMC {
				if bf, isF := mc.Fn.(*ssa.Function); isF && bf.Object() != nil && bf.Object().Name() == s.handler {
					for _, e := range NilCmpEdges(fn, func(v ssa.Value) bool { return isFieldLoad(v, prN, s.idx) }) {
						if BlockDominatesInstr(e.NonNil, call) {
							ok = true
						}
					}
				}
			}
		}
		c.fact("dominance")
		c.Check(ok, "proxy installs "+s.handler+" via "+s.set, p.Pos(fn.Pos()), s.set+"(p."+s.handler+") iff the forwarder is configured", "PostNewPeer does not install proxy."+s.handler+" as the unknown handler when its forwarder is configured")
	}
}

// runSyncPoolEscape: objects obtained from a sync.Pool and Put back by the same activation (directly, by a
// deferred Put, or by a deferred closure that puts the captured variable) must not leak into the results.
func runSyncPoolEscape(c *Ctx) {
	p := c.P
	poolGet := p.MethodObj("sync", "Pool", "Get")
	poolPut := p.MethodObj("sync", "Pool", "Put")
	fromGet := func(v ssa.Value) bool {
		v = stripIface(v)
		if ta, ok := v.(*ssa.TypeAssert); ok {
			v = stripIface(ta.X)
		}
		gc, ok := v.(*ssa.Call)
		return ok && CalleeObj(gc) == poolGet
	}
	n := 0
	for _, fn := range p.ShippedFuncs() {
		// pooled objects of this activation: values from Get, and the variables (cells) they are stored in
		cells := map[*ssa.Alloc]bool{}
		Instrs(fn, func(i ssa.Instruction) {
			if st, ok := i.(*ssa.Store); ok && fromGet(st.Val) {
				if al, isAl := st.Addr.(*ssa.Alloc); isAl {
					cells[al] = true
				}
			}
		})
		isPooled := func(v ssa.Value) bool {
			v = stripIface(v)
			if fromGet(v) {
				return true
			}
			if u, ok := v.(*ssa.UnOp); ok && u.Op == token.MUL {
				if al, isAl := u.X.(*ssa.Alloc); isAl && cells[al] {
					return true
				}
			}
			return false
		}
		type putEv struct {
			in       ssa.Instruction
			obj      ssa.Value // pooled value (direct) or nil when put through a cell
			cell     *ssa.Alloc
			deferred bool
		}
		var puts []putEv
		for _, pc := range AllCalls(fn) {
			if CalleeObj(pc) == poolPut {
				obj := stripIface(pc.Common().Args[1])
				if !isPooled(obj) {
					continue
				}
				ev := putEv{in: pc, obj: obj}
				_, ev.deferred = pc.(*ssa.Defer)
				if u, ok := obj.(*ssa.UnOp); ok {
					ev.cell, _ = u.X.(*ssa.Alloc)
				}
				puts = append(puts, ev)
				continue
			}
			d, isDefer := pc.(*ssa.Defer)
			if !isDefer {
				continue
			}
			mc, isMC := d.Call.Value.(*ssa.MakeClosure)
			if !isMC {
				continue
			}
			cl, _ := mc.Fn.(*ssa.Function)
			if cl == nil {
				continue
			}
			for _, inner := range AllCalls(cl) {
				if CalleeObj(inner) != poolPut {
					continue
				}
				arg := stripIface(inner.Common().Args[1])
				u, ok := arg.(*ssa.UnOp)
				if !ok || u.Op != token.MUL {
					continue
				}
				fv, ok := u.X.(*ssa.FreeVar)
				if !ok {
					continue
				}
				for k, f := range cl.FreeVars {
					if f == fv {
						if al, isAl := mc.Bindings[k].(*ssa.Alloc); isAl && cells[al] {
							puts = append(puts, putEv{in: d, cell: al, deferred: true})
						}
					}
				}
			}
		}
		for _, ev := range puts {
			n++
			// values living in the object: the object itself, loads of its variable, what is reached through it
			d := map[ssa.Value]bool{}
			if ev.obj != nil {
				d[ev.obj] = true
			}
			for changed := true; changed; {
				changed = false
				Instrs(fn, func(i ssa.Instruction) {
					v, isV := i.(ssa.Value)
					if !isV || d[v] {
						return
					}
					add := false
					switch x := i.(type) {
					case *ssa.UnOp:
						if x.Op != token.MUL {
							break
						}
						if al, isAl := x.X.(*ssa.Alloc); isAl && ev.cell != nil && al == ev.cell {
							add = true
						} else if d[x.X] {
							switch x.Type().Underlying().(type) {
							case *types.Pointer, *types.Slice, *types.Struct, *types.Interface, *types.Map:
								add = true
							default:
								add = bufTrack(x.Type())
							}
						}
					case *ssa.FieldAddr:
						add = d[x.X]
					case *ssa.Field:
						add = d[x.X]
					case *ssa.IndexAddr:
						add = d[x.X]
					case *ssa.Slice:
						add = d[x.X]
					case *ssa.MakeInterface:
						add = d[x.X]
					case *ssa.TypeAssert:
						add = d[x.X]
					case *ssa.ChangeType:
						add = d[x.X]
					case *ssa.Phi:
						for _, e := range x.Edges {
							if d[e] {
								add = true
							}
						}
					case *ssa.Call:
						// a method of the pooled object handing out its storage ([]byte results: Bytes(), B ...)
						if rv := CallRecv(x); rv != nil && d[rv] {
							if sl, isSl := x.Type().Underlying().(*types.Slice); isSl {
								if b, isB := sl.Elem().Underlying().(*types.Basic); isB && b.Kind() == types.Uint8 {
									add = true
								}
							}
						}
					}
					if add {
						d[v] = true
						changed = true
					}
				})
			}
			bad := ""
			checkRet := func(ret *ssa.Return) {
				for _, rv := range ReturnVals(ret) {
					if d[rv] || d[stripIface(rv)] {
						bad = p.InstrPos(ret)
					}
				}
			}
			if ev.deferred {
				Instrs(fn, func(i ssa.Instruction) {
					if ret, ok := i.(*ssa.Return); ok {
						checkRet(ret)
					}
				})
			} else {
				w := &Walk{P: p}
				w.From(ev.in)
				for _, e := range w.Exits {
					checkRet(e.(*ssa.Return))
				}
			}
			c.fact("local-derivation")
			c.Check(bad == "", "pooled object in "+FnName(fn), p.InstrPos(ev.in), "nothing that lives in the pooled object is returned after Put", "data living in a sync.Pool object is returned at "+bad+" although the object goes back to the pool: the next Get (a concurrent invocation) overwrites what the caller of this function still uses")
		}
	}
	if n < 1 {
		c.Undec("pool Get/Put pairs", "", "no function with a Get/Put pair found")
	}
}
