package main

import (
	"go/token"

	"golang.org/x/tools/go/ssa"
)

// ValTrack is a small path-sensitive exploration of one function: it tracks the set of
// constants one chosen SSA value (e.g. the session status loaded at function entry) may
// hold on the current path - refined at every `if v == K` / `if v != K` - plus a
// rule-defined bitset of flags ("passed the delete", "took the CAS success edge").
// States are (block, mask, flags); the space is finite (<= blocks * 2^|consts| * 2^|flags|)
// and explored exhaustively.
type ValTrack struct {
	P *Prog
	// Tracked is the SSA value whose constant set is tracked (may be nil: flags only).
	Tracked ssa.Value
	// Consts maps constant value -> bit index (universe of the tracked value).
	Consts map[int64]uint
	// Visit is called for every instruction on every explored state, in order. It
	// returns the new flags and whether the path is cut after this instruction.
	Visit func(i ssa.Instruction, mask uint32, flags uint32) (newFlags uint32, cut bool)
	// Edge (optional) lets the rule refine flags / veto an edge b -> b.Succs[k].
	Edge func(b *ssa.BasicBlock, k int, mask uint32, flags uint32) (newFlags uint32, ok bool)
	// OnExit is called at each Return reached.
	OnExit func(r *ssa.Return, mask uint32, flags uint32)

	States int
}

type vtState struct {
	b     *ssa.BasicBlock
	mask  uint32
	flags uint32
}

func (vt *ValTrack) universe() uint32 {
	var m uint32
	for _, bit := range vt.Consts {
		m |= 1 << bit
	}
	return m
}

// Run explores fn from its entry block with the full universe and the given flags.
func (vt *ValTrack) Run(fn *ssa.Function, flags uint32) {
	seen := map[vtState]bool{}
	var work []vtState
	push := func(s vtState) {
		if !seen[s] {
			seen[s] = true
			work = append(work, s)
		}
	}
	push(vtState{fn.Blocks[0], vt.universe(), flags})
	for len(work) > 0 {
		s := work[len(work)-1]
		work = work[:len(work)-1]
		vt.States++
		mask, fl := s.mask, s.flags
		cut := false
		for _, in := range s.b.Instrs {
			if v, ok := in.(ssa.Value); ok && v == vt.Tracked {
				if _, isPhi := v.(*ssa.Phi); !isPhi { // a phi takes its value on the incoming edge (below)
					mask = vt.universe()
				}
			}
			if vt.Visit != nil {
				var c bool
				fl, c = vt.Visit(in, mask, fl)
				if c {
					cut = true
					break
				}
			}
			if vt.P != nil && vt.P.NoReturnCall(in) {
				cut = true
				break
			}
			switch x := in.(type) {
			case *ssa.Return:
				if vt.OnExit != nil {
					vt.OnExit(x, mask, fl)
				}
				cut = true
			case *ssa.Panic:
				cut = true
			}
			if cut {
				break
			}
		}
		if cut {
			continue
		}
		for k, succ := range s.b.Succs {
			m2, f2 := mask, fl
			if ifi, ok := s.b.Instrs[len(s.b.Instrs)-1].(*ssa.If); ok && vt.Tracked != nil {
				if bit, eq, ok := vt.cmpTracked(ifi.Cond); ok {
					// eq: cond is (v == K); !eq: cond is (v != K)
					isTrueEdge := k == 0
					if eq == isTrueEdge {
						m2 &= 1 << bit
					} else {
						m2 &^= 1 << bit
					}
					if m2 == 0 {
						continue // infeasible
					}
				}
			}
			if vt.Edge != nil {
				var ok bool
				f2, ok = vt.Edge(s.b, k, m2, f2)
				if !ok {
					continue
				}
			}
			// the tracked value is a phi of succ: its value on this edge is the incoming operand
			if phi, isPhi := vt.Tracked.(*ssa.Phi); isPhi && phi.Block() == succ {
				for pi, pred := range succ.Preds {
					if pred != s.b {
						continue
					}
					in := phi.Edges[pi]
					if in == ssa.Value(phi) {
						break // unchanged
					}
					if c, ok := constBoolOrInt(in); ok {
						if bit, known := vt.Consts[c]; known {
							m2 = 1 << bit
							break
						}
					}
					m2 = vt.universe()
					break
				}
			}
			push(vtState{succ, m2, f2})
		}
	}
}

// cmpTracked recognises `tracked == K` / `tracked != K` (either operand order).
func (vt *ValTrack) cmpTracked(cond ssa.Value) (bit uint, eq bool, ok bool) {
	v, neg := stripNot(cond)
	if vt.Tracked != nil && v == vt.Tracked {
		// a boolean tracked value used directly as the condition: `if v` means v == true (1)
		if b, known := vt.Consts[1]; known {
			return b, !neg, true
		}
	}
	bo, isB := v.(*ssa.BinOp)
	if !isB || (bo.Op != token.EQL && bo.Op != token.NEQ) {
		return 0, false, false
	}
	var other ssa.Value
	switch {
	case bo.X == vt.Tracked:
		other = bo.Y
	case bo.Y == vt.Tracked:
		other = bo.X
	default:
		return 0, false, false
	}
	k, isC := ConstIntOf(other)
	if !isC {
		return 0, false, false
	}
	b, known := vt.Consts[k]
	if !known {
		return 0, false, false
	}
	eq = bo.Op == token.EQL
	if neg {
		eq = !eq
	}
	return b, eq, true
}

// maskNames renders a mask with the given names.
func maskNames(mask uint32, names map[uint]string) []string {
	var out []string
	for b := uint(0); b < 32; b++ {
		if mask&(1<<b) != 0 {
			if n, ok := names[b]; ok {
				out = append(out, n)
			}
		}
	}
	return out
}

// constBoolOrInt: the value of a bool (false=0,true=1) or integer constant.
func constBoolOrInt(v ssa.Value) (int64, bool) {
	if c, ok := v.(*ssa.Const); ok && c.Value != nil && c.Value.Kind().String() == "Bool" {
		if c.Value.String() == "true" {
			return 1, true
		}
		return 0, true
	}
	return ConstIntOf(v)
}
