package main

// runControls analyses the tiny control packages (one bad / one good example per
// engine primitive) and fails if an engine does not fire on `bad` or fires on `good`.
// Implemented in controls_impl.go; returns the number of control verdicts checked.
func runControls(prop string) (int, error) {
	return controlsImpl(prop)
}
