package main

import (
	"fmt"
	"go/types"

	"golang.org/x/tools/go/ssa"
)

func init() {
	register(&Rule{ID: "C02.1", Prop: "C02", Min: 8,
		Text: "completion sites are a closed set: close(doneChan), the send on callCmdChan and graceCallCmdWaitGroup.Done() occur only in callCmd.done and callCmd.cancel; each performs map-delete, send, close, Done exactly once on every path, in that order",
		Run:  runC02_1})
	register(&Rule{ID: "C02.2", Prop: "C02", Min: 4,
		Text: "who completes: done() is called only from AsyncCall (on a non-OK status edge, followed by return) and from handleReply's deferred closure; cancel() only from the Range callback of readDisconnected, on the edge !hasReply() && stat.OK()",
		Run:  runC02_2})
	register(&Rule{ID: "C02.3", Prop: "C02", Min: 3,
		Text: "completion happens under the per-call mutex: AsyncCall locks cmd.mu (deferred unlock) before publishing the call in the table; the disconnect callback brackets cancel() with Lock/Unlock; handleReply's deferred closure unlocks after done() on every path",
		Run:  runC02_3})
	register(&Rule{ID: "C02.4", Prop: "C02", Min: 1,
		Text: "bindReply marks the call as replied (non-nil inputMeta from AcquireArgs) on every path after taking the per-call lock, so the disconnect path cannot cancel a call the reply path owns",
		Run:  runC02_4})
	register(&Rule{ID: "C02.10", Prop: "C02", Min: 1,
		Text: "a reply is bound at most once: after taking the per-call lock bindReply re-checks that the call is still pending (no reply yet and no final status) and otherwise releases the lock and binds nothing, so a repeated reply frame cannot complete the call a second time",
		Run:  runC02_10})
	register(&Rule{ID: "C02.5", Prop: "C02", Min: 3,
		Text: "cross-stage lock pairing: the mutex locked by bindReply during ReadMessage is released by handleReply/handle on every path of the read loop - every path from the read to the next iteration or to a return runs handle()/handleReply() on that context (directly, or in the dispatched goroutine on Go()'s success edge), and the function that invokes Socket.ReadMessage releases it on the panic edge too",
		Run:  runC02_5})
	register(&Rule{ID: "C02.6", Prop: "C02", Min: 3,
		Text: "disconnect drains pending calls: in readDisconnected the Range(cancel) over the pending-call table is executed on every path that does not leave through the already-closed early return, and dominates the socket close, the redial and the disconnect hook",
		Run:  runC02_6})
	register(&Rule{ID: "C02.7", Prop: "C02", Min: 1,
		Text: "a failed write completes the call: every normal return of AsyncCall after the call was published is reached through postWriteCall (written) or through cmd.done()",
		Run:  runC02_7})
	register(&Rule{ID: "C02.8", Prop: "C02", Min: 1,
		Text: "read-loop barrier: startReadAndHandle defers a closure that recovers and calls readDisconnected on every path, so pending calls are drained however the loop ends",
		Run:  runC02_8})
	register(&Rule{ID: "C02.9", Prop: "C02", Min: 1,
		Text: "call wait-group pairing: exactly one graceCallCmdWaitGroup.Add(1) in AsyncCall, dominating the publication of the call; Done() only in done/cancel (C02.1)",
		Run:  runC02_9})
}

// closureArg returns the anonymous function passed as the idx-th (non-receiver) argument.
func closureArg(call ssa.CallInstruction, idx int) *ssa.Function {
	args := CallArgs(call)
	if idx >= len(args) {
		return nil
	}
	v := args[idx]
	if mi, ok := v.(*ssa.MakeInterface); ok {
		v = mi.X
	}
	if ct, ok := v.(*ssa.ChangeType); ok {
		v = ct.X
	}
	if mc, ok := v.(*ssa.MakeClosure); ok {
		f, _ := mc.Fn.(*ssa.Function)
		return f
	}
	if f, ok := v.(*ssa.Function); ok {
		return f
	}
	return nil
}

// deferredClosures lists closures deferred at function level in fn.
func deferredClosures(fn *ssa.Function) []*ssa.Function {
	var out []*ssa.Function
	Instrs(fn, func(i ssa.Instruction) {
		d, ok := i.(*ssa.Defer)
		if !ok {
			return
		}
		if mc, ok := d.Call.Value.(*ssa.MakeClosure); ok {
			if f, ok := mc.Fn.(*ssa.Function); ok {
				out = append(out, f)
			}
		}
		// a function literal without free variables is a plain function value
		if f, ok := d.Call.Value.(*ssa.Function); ok && f.Parent() == fn {
			out = append(out, f)
		} else if ok && f.Parent() == nil && f.Pkg == fn.Pkg && len(f.Blocks) > 0 && f.Signature.Recv() != nil {
			// `defer recv.method(&local)`: the deferred body extracted into a method of the same package
			out = append(out, f)
		}
	})
	return out
}

// isFieldOf reports whether v is a load of (or the address of) field idx of struct n.
func isFieldLoad(v ssa.Value, n *types.Named, idx int) bool {
	fr, _, ok := LoadedField(v)
	return ok && fr.Struct == n && fr.Index == idx
}

func isFieldAddr(v ssa.Value, n *types.Named, idx int) bool {
	fr, _, ok := FieldOfAddr(v)
	return ok && fr.Struct == n && fr.Index == idx
}

func runC02_1(c *Ctx) {
	p := c.P
	cc, doneIdx := p.FieldIndex(Root, "callCmd", "doneChan")
	_, chanIdx := p.FieldIndex(Root, "callCmd", "callCmdChan")
	sessN, wgIdx := p.FieldIndex(Root, "session", "graceCallCmdWaitGroup")
	wgDone := p.MethodObj("sync", "WaitGroup", "Done")
	mapDelete := p.MethodObj("github.com/henrylee2cn/goutil", "Map", "Delete")
	doneFn := p.Fn(Root, "callCmd", "done")
	cancelFn := p.Fn(Root, "callCmd", "cancel")
	type site struct {
		kind string
		in   ssa.Instruction
	}
	sites := map[*ssa.Function][]site{}
	for _, fn := range p.ShippedFuncs() {
		if fn.Pkg == nil || fn.Pkg.Pkg.Path() != Root {
			continue
		}
		Instrs(fn, func(i ssa.Instruction) {
			switch x := i.(type) {
			case *ssa.Send:
				if isFieldLoad(x.Chan, cc, chanIdx) {
					sites[fn] = append(sites[fn], site{"send(callCmdChan)", i})
				}
			case ssa.CallInstruction:
				if b, ok := x.Common().Value.(*ssa.Builtin); ok && b.Name() == "close" && isFieldLoad(x.Common().Args[0], cc, doneIdx) {
					sites[fn] = append(sites[fn], site{"close(doneChan)", i})
				}
				if CalleeObj(x) == wgDone && isFieldAddr(x.Common().Args[0], sessN, wgIdx) {
					sites[fn] = append(sites[fn], site{"graceCallCmdWaitGroup.Done", i})
				}
			}
		})
	}
	for fn, ss := range sites {
		for _, s := range ss {
			key := s.kind + " in " + FnName(fn)
			if fn == doneFn || fn == cancelFn {
				c.HoldTrivial(key, p.InstrPos(s.in), "inside the completion functions")
			} else {
				c.Viol(key, p.InstrPos(s.in), "a call-completion effect ("+s.kind+") occurs outside callCmd.done/cancel: a call can be completed twice (double close panics) or its accounting skewed")
			}
		}
	}
	for _, fn := range []*ssa.Function{doneFn, cancelFn} {
		var del, send, cls, wg []ssa.Instruction
		Instrs(fn, func(i ssa.Instruction) {
			if IsCallTo(i, mapDelete) {
				del = append(del, i)
			}
		})
		for _, s := range sites[fn] {
			switch s.kind {
			case "send(callCmdChan)":
				send = append(send, s.in)
			case "close(doneChan)":
				cls = append(cls, s.in)
			default:
				wg = append(wg, s.in)
			}
		}
		key := FnName(fn) + " delete->send->close->Done once each"
		if len(del) != 1 || len(send) != 1 || len(cls) != 1 || len(wg) != 1 {
			c.Viol(key, p.Pos(fn.Pos()), fmt.Sprintf("expected exactly one table delete, channel send, close(doneChan) and WaitGroup.Done; found %d/%d/%d/%d", len(del), len(send), len(cls), len(wg)))
			continue
		}
		order := Dominates(del[0], send[0]) && Dominates(send[0], cls[0]) && Dominates(cls[0], wg[0])
		// each on every path
		all := true
		for _, in := range []ssa.Instruction{del[0], send[0], cls[0], wg[0]} {
			target := in
			ok, _ := p.MustPassFromEntry(fn, func(i ssa.Instruction) bool { return i == target }, nil)
			all = all && ok
		}
		// no loop: none reaches itself
		for _, in := range []ssa.Instruction{send[0], cls[0], wg[0]} {
			target := in
			if len(p.ReachableFrom(in, func(i ssa.Instruction) bool { return i == target }, nil, nil)) > 0 {
				all = false
			}
		}
		c.fact("dominance+must-pass")
		c.Check(order && all, key, p.Pos(fn.Pos()), "single path: delete, send, close, Done in order, each exactly once", "completion function does not perform delete -> send -> close -> Done exactly once in that order on every path")
	}
}

func runC02_2(c *Ctx) {
	p := c.P
	doneM := p.MethodObj(Root, "callCmd", "done")
	cancelM := p.MethodObj(Root, "callCmd", "cancel")
	okM := p.MethodObj("github.com/henrylee2cn/goutil/status", "Status", "OK")
	hasReply := p.MethodObj(Root, "callCmd", "hasReply")
	asyncCall := p.Fn(Root, "session", "AsyncCall")
	handleReply := p.Fn(Root, "handlerCtx", "handleReply")
	write := p.MethodObj(Root, "session", "write")
	postWriteCall := p.MethodObj(Root, "pluginSingleContainer", "postWriteCall")
	hrDefers := deferredClosures(handleReply)
	var rangeCb *ssa.Function
	if d := p.findDrain(); d != nil {
		rangeCb = d.Cb
	}
	nDone, nCancel := 0, 0
	for _, fn := range p.ShippedFuncs() {
		for _, call := range CallsTo(fn, doneM) {
			nDone++
			key := "done() in " + FnName(fn)
			pos := p.InstrPos(call)
			switch {
			case fn == asyncCall:
				// on the false edge of an OK() test and followed by return without writing
				onNonOK := false
				for _, e := range CondCallEdges(fn, okM) {
					if BlockDominatesInstr(e.False, call) {
						onNonOK = true
					}
				}
				after := p.ReachableFrom(call, func(i ssa.Instruction) bool { return IsCallTo(i, write, postWriteCall, doneM) }, nil, nil)
				c.fact("dominance+path-search")
				c.Check(onNonOK && len(after) == 0, key, pos, "on a non-OK status edge; nothing but return follows", "done() in AsyncCall is not confined to a failed-status edge followed by return (the call could be completed here and again by the reply/disconnect path)")
			case containsFn(hrDefers, fn):
				c.Hold(key, pos, "handleReply's deferred closure")
			default:
				c.Viol(key, pos, "callCmd.done() called from an unexpected function: a call may complete twice")
			}
		}
		for _, call := range CallsTo(fn, cancelM) {
			nCancel++
			key := "cancel() in " + FnName(fn)
			pos := p.InstrPos(call)
			if fn != rangeCb || rangeCb == nil {
				c.Viol(key, pos, "callCmd.cancel() called outside the disconnect drain callback: a call may complete twice")
				continue
			}
			// guarded by !hasReply() && stat.OK()
			g1, g2 := false, false
			for _, e := range CondCallEdges(fn, hasReply) {
				if BlockDominatesInstr(e.False, call) {
					g1 = true
				}
			}
			for _, e := range CondCallEdges(fn, okM) {
				if BlockDominatesInstr(e.True, call) {
					g2 = true
				}
			}
			c.fact("dominance")
			c.Check(g1 && g2, key, pos, "only when the call has no reply and no status yet", "cancel() is not guarded by !hasReply() && stat.OK(): a call already completed (or owned by the reply path) can be completed again")
		}
	}
	if nDone < 3 || nCancel < 1 {
		c.Undec("completion call sites", "", fmt.Sprintf("found %d done() and %d cancel() call sites (expected >=3 and >=1)", nDone, nCancel))
	}
}

func containsFn(fs []*ssa.Function, f *ssa.Function) bool {
	for _, x := range fs {
		if x == f {
			return true
		}
	}
	return false
}

// muOf: is v the address &X.mu of a callCmd?
func isCallCmdMu(p *Prog, v ssa.Value) bool {
	n, idx := p.FieldIndex(Root, "callCmd", "mu")
	return isFieldAddr(v, n, idx)
}

func runC02_3(c *Ctx) {
	p := c.P
	lock := p.MethodObj("sync", "Mutex", "Lock")
	unlock := p.MethodObj("sync", "Mutex", "Unlock")
	mapStore := p.MethodObj("github.com/henrylee2cn/goutil", "Map", "Store")
	doneM := p.MethodObj(Root, "callCmd", "done")
	cancelM := p.MethodObj(Root, "callCmd", "cancel")
	sessN, mapIdx := p.FieldIndex(Root, "session", "callCmdMap")
	asyncCall := p.Fn(Root, "session", "AsyncCall")
	// AsyncCall
	var lockCall, storeCall ssa.Instruction
	hasDeferUnlock := false
	Instrs(asyncCall, func(i ssa.Instruction) {
		call, ok := i.(ssa.CallInstruction)
		if !ok {
			return
		}
		o := CalleeObj(call)
		if o == lock && isCallCmdMu(p, call.Common().Args[0]) {
			if _, isCall := i.(*ssa.Call); isCall {
				lockCall = i
			}
		}
		if o == unlock && isCallCmdMu(p, call.Common().Args[0]) {
			if _, isDefer := i.(*ssa.Defer); isDefer {
				hasDeferUnlock = true
			}
		}
		if o == mapStore && isFieldLoad(call.Common().Value, sessN, mapIdx) {
			storeCall = i
		}
	})
	okA := lockCall != nil && storeCall != nil && hasDeferUnlock && Dominates(lockCall, storeCall)
	c.fact("dominance")
	c.Check(okA, "AsyncCall lock-before-publish", p.Pos(asyncCall.Pos()), "cmd.mu.Lock + deferred Unlock dominate callCmdMap.Store",
		"AsyncCall publishes the call in the pending table without holding cmd.mu (with deferred unlock): a reply or disconnect can complete it while AsyncCall still sets its status")
	// Range callback
	var cbs []*ssa.Function
	if d := p.findDrain(); d != nil {
		cbs = append(cbs, d.Cb)
	}
	for _, anon := range cbs {
		cancels := CallsTo(anon, cancelM)
		if len(cancels) == 0 {
			continue
		}
		var l, u ssa.Instruction
		Instrs(anon, func(i ssa.Instruction) {
			call, ok := i.(*ssa.Call)
			if !ok {
				return
			}
			if CalleeObj(call) == lock && isCallCmdMu(p, call.Call.Args[0]) {
				l = i
			}
			if CalleeObj(call) == unlock && isCallCmdMu(p, call.Call.Args[0]) {
				u = i
			}
		})
		ok := l != nil && u != nil && Dominates(l, cancels[0])
		if ok {
			// unlock on every path after lock
			okU, _ := p.MustPassBeforeExit(l, func(i ssa.Instruction) bool { return i == u }, nil)
			// cancel not after unlock
			ok = okU && len(p.ReachableFrom(u, func(i ssa.Instruction) bool { return IsCallTo(i, cancelM) }, nil, nil)) == 0
		}
		c.fact("dominance+must-pass")
		c.Check(ok, "disconnect callback Lock..cancel..Unlock", p.Pos(anon.Pos()), "cancel() bracketed by the per-call mutex; unlock on every path", "the disconnect drain does not bracket cancel() with cmd.mu Lock/Unlock on every path")
	}
	// handleReply deferred closure: done() then Unlock on every path
	handleReply := p.Fn(Root, "handlerCtx", "handleReply")
	for _, d := range deferredClosures(handleReply) {
		dones := CallsTo(d, doneM)
		if len(dones) == 0 {
			continue
		}
		okU, _ := p.MustPassBeforeExit(dones[0], func(i ssa.Instruction) bool {
			call, ok := i.(*ssa.Call)
			return ok && CalleeObj(call) == unlock && isCallCmdMu(p, call.Call.Args[0])
		}, nil)
		okD, _ := p.MustPassFromEntry(d, func(i ssa.Instruction) bool { return IsCallTo(i, doneM) }, nil)
		c.fact("must-pass")
		c.Check(okU && okD, "handleReply defer: done() then Unlock", p.Pos(d.Pos()), "every path of the deferred closure completes the call and then releases the lock taken in bindReply",
			"handleReply's deferred closure does not run done() and then cmd.mu.Unlock() on every path: the per-call lock taken in bindReply leaks or the call never completes")
	}
}

func runC02_4(c *Ctx) {
	p := c.P
	bind := p.Fn(Root, "handlerCtx", "bindReply")
	lock := p.MethodObj("sync", "Mutex", "Lock")
	acquire := p.FuncObj(Root+"/utils", "AcquireArgs")
	ccN, metaIdx := p.FieldIndex(Root, "callCmd", "inputMeta")
	var lockCall ssa.Instruction
	Instrs(bind, func(i ssa.Instruction) {
		if call, ok := i.(*ssa.Call); ok && CalleeObj(call) == lock && isCallCmdMu(p, call.Call.Args[0]) {
			lockCall = i
		}
	})
	if lockCall == nil {
		c.Undec("bindReply lock", p.Pos(bind.Pos()), "cmd.mu.Lock() not found in bindReply (the cross-stage protocol changed; rule must be re-read)")
		return
	}
	unlock := p.MethodObj("sync", "Mutex", "Unlock")
	ok, _ := p.MustPassBeforeExit(lockCall, func(i ssa.Instruction) bool {
		// the path either releases the lock again (call already completed) ...
		if call, isC := i.(*ssa.Call); isC && CalleeObj(call) == unlock && isCallCmdMu(p, call.Call.Args[0]) {
			return true
		}
		// ... or marks the call as replied
		st, isSt := i.(*ssa.Store)
		if !isSt || !isFieldAddr(st.Addr, ccN, metaIdx) {
			return false
		}
		call, isCall := st.Val.(*ssa.Call)
		return isCall && CalleeObj(call) == acquire
	}, nil)
	c.fact("must-pass")
	c.Check(ok, "bindReply marks replied", p.InstrPos(lockCall), "every path after Lock marks the call replied (inputMeta = AcquireArgs()) or releases the lock again", "bindReply can return with the call locked but not marked as replied (inputMeta nil): the disconnect path would cancel a call the reply path owns")
}

func runC02_5(c *Ctx) {
	p := c.P
	loop := p.Fn(Root, "session", "startReadAndHandle")
	readMsg := p.MethodObj(Root+"/socket", "Socket", "ReadMessage")
	handle := p.MethodObj(Root, "handlerCtx", "handle")
	handleReply := p.MethodObj(Root, "handlerCtx", "handleReply")
	getContext := p.MethodObj(Root, "peer", "getContext")
	goF := p.FuncObj(Root, "Go")
	hcN, ccIdx := p.FieldIndex(Root, "handlerCtx", "callCmd")
	isRelease := func(i ssa.Instruction) bool {
		if _, isCall := i.(*ssa.Call); !isCall {
			return false
		}
		return IsCallTo(i, handle, handleReply)
	}
	// the reading call inside the loop: Socket.ReadMessage itself or a same-package helper that performs it
	var reader *ssa.Function // function that directly invokes Socket.ReadMessage
	var readCall ssa.Instruction
	if rs := CallsTo(loop, readMsg); len(rs) == 1 {
		reader, readCall = loop, rs[0]
	} else {
		for _, call := range AllCalls(loop) {
			if sf := StaticFn(call); sf != nil && sf.Pkg == loop.Pkg && len(CallsTo(sf, readMsg)) == 1 {
				if _, isCall := call.(*ssa.Call); isCall {
					reader, readCall = sf, call
				}
			}
		}
	}
	if readCall == nil {
		c.Undec("read loop anchor", p.Pos(loop.Pos()), "cannot find the (single) ReadMessage call of the read loop")
		return
	}
	// the dispatched closure releases on all its paths?
	goEdges := map[*ssa.BasicBlock]int{} // block ending in If(Go(...)) -> successor index that is "released"
	for _, e := range CondCallEdges(loop, goF) {
		cl := closureArg(e.Call, 0)
		if cl == nil {
			continue
		}
		ok, _ := p.MustPassFromEntry(cl, isRelease, nil)
		c.fact("must-pass")
		if ok {
			goEdges[e.If.Block()] = EdgeIndex(e.If.Block(), e.True) + 1
		}
	}
	// nil-guard edges: `if ctx.callCmd == nil` -> the nil edge needs no release
	nilEdges := map[*ssa.BasicBlock]int{}
	for _, e := range NilCmpEdges(loop, func(v ssa.Value) bool { return isFieldLoad(v, hcN, ccIdx) }) {
		nilEdges[e.If.Block()] = EdgeIndex(e.If.Block(), e.Nil) + 1
	}
	var badExits, badLoops []ssa.Instruction
	w := &Walk{P: p}
	w.Stop = func(i ssa.Instruction) bool {
		if isRelease(i) {
			return true
		}
		if IsCallTo(i, getContext) {
			badLoops = append(badLoops, i)
			return true
		}
		return false
	}
	w.EdgeOK = func(b *ssa.BasicBlock, k int) bool {
		if goEdges[b] == k+1 || nilEdges[b] == k+1 {
			return false
		}
		return true
	}
	w.From(readCall)
	badExits = w.Exits
	c.fact("path-search")
	key := "read loop: every path after the read releases a bound call"
	if len(badExits) == 0 && len(badLoops) == 0 {
		c.Hold(key, p.InstrPos(readCall), "each path to a return or to the next iteration runs handle()/handleReply() (or dispatches it on Go()'s success edge)")
	} else {
		var path []string
		for _, e := range badExits {
			path = append(path, "return without handle()/handleReply(): "+p.InstrPos(e))
		}
		for _, e := range badLoops {
			path = append(path, "next iteration (getContext) without handle()/handleReply(): "+p.InstrPos(e))
		}
		c.Viol(key, p.InstrPos(readCall), "the read loop can leave a REPLY that bindReply bound (and whose per-call mutex it locked) unhandled: the mutex stays locked, readDisconnected then blocks on it in the same goroutine and the caller never completes", path...)
	}
	// panic edge of the function that invokes Socket.ReadMessage
	okPanic := false
	for _, d := range deferredClosures(reader) {
		// on the recover() != nil edge every path passes a release
		for _, e := range NilCmpEdges(d, func(v ssa.Value) bool {
			call, ok := v.(*ssa.Call)
			if !ok {
				return false
			}
			b, ok := call.Call.Value.(*ssa.Builtin)
			return ok && b.Name() == "recover"
		}) {
			wk := &Walk{P: p, Stop: isRelease, PanicIsExit: true}
			wk.FromBlock(e.NonNil)
			if len(wk.Exits) == 0 && len(wk.Hits) > 0 {
				okPanic = true
			}
		}
	}
	c.fact("must-pass")
	c.Check(okPanic, "read loop: panic edge releases a bound call", p.Pos(reader.Pos()), "the function invoking Socket.ReadMessage ("+FnName(reader)+") recovers and runs handleReply() before continuing the panic",
		"a panic while reading/decoding a REPLY (after bindReply locked the call) is recovered only by the loop's barrier, which calls readDisconnected -> cmd.mu.Lock() on the same goroutine: reader deadlocks, caller hangs")
	// the release functions are the only ones unlocking: handleReply is reachable from handle for TypeReply
	h := p.Fn(Root, "handlerCtx", "handle")
	c.Check(len(CallsTo(h, handleReply)) > 0, "handle() dispatches REPLY to handleReply", p.Pos(h.Pos()), "handle() calls handleReply()", "handle() no longer reaches handleReply(): the lock taken in bindReply is never released")
}

func runC02_6(c *Ctx) {
	p := c.P
	st := p.statusTable()
	rd := p.Fn(Root, "session", "readDisconnected")
	getStatus := p.MethodObj(Root, "session", "getStatus")
	self := p.MethodObj(Root, "session", "readDisconnected")
	dr := p.findDrain()
	isDrain := func(i ssa.Instruction) bool {
		for _, x := range dr.InRd {
			if x == i {
				return true
			}
		}
		return false
	}
	var rng ssa.Instruction
	if dr != nil && len(dr.InRd) > 0 {
		rng = dr.InRd[0]
	}
	if rng == nil {
		c.Viol("readDisconnected drains the pending-call table", p.Pos(rd.Pos()), "no Range over the pending-call table with a cancelling callback: calls in flight at disconnect never complete")
		return
	}
	c.Hold("readDisconnected drains the pending-call table", p.InstrPos(rng), "Range(callback -> cancel) present at "+p.InstrPos(dr.Range))
	// dominance over close / redial / hook
	later := []*types.Func{p.MethodObj(Root+"/socket", "Socket", "Close"), p.MethodObj(Root, "session", "redialForClient"), p.MethodObj(Root, "pluginSingleContainer", "postDisconnect")}
	okDom := true
	for _, call := range AllCalls(rd) {
		if IsCallTo(call, later...) {
			dom := false
			for _, x := range dr.InRd {
				if Dominates(x, call) {
					dom = true
				}
			}
			if !dom {
				okDom = false
			}
		}
	}
	c.fact("dominance")
	c.Check(okDom, "drain precedes close/redial/hook", p.InstrPos(rng), "the drain dominates socket.Close, redialForClient and postDisconnect", "readDisconnected closes the socket / redials / runs the hook on a path that did not first cancel the pending calls")
	// every exit either is the already-closed early return or passed the drain
	gs := CallsTo(rd, getStatus)
	if len(gs) != 1 {
		c.Undec("drain on every non-closed path", p.Pos(rd.Pos()), fmt.Sprintf("expected one getStatus() load, found %d", len(gs)))
		return
	}
	const drained = 1
	closed := st.mask("statusPassiveClosed", "statusActiveClosed", "statusPassiveClosing")
	okAll := true
	var bad string
	vt := &ValTrack{P: p, Tracked: gs[0].(ssa.Value), Consts: st.bits}
	vt.Visit = func(i ssa.Instruction, mask, fl uint32) (uint32, bool) {
		if isDrain(i) || IsCallTo(i, self) {
			fl |= drained
		}
		return fl, false
	}
	vt.OnExit = func(r *ssa.Return, mask, fl uint32) {
		if fl&drained == 0 && mask&^closed != 0 {
			okAll = false
			bad = fmt.Sprintf("return at %s reachable with status %s without draining", p.InstrPos(r), st.names(mask&^closed))
		}
	}
	vt.Run(rd, 0)
	c.fact("value-tracking")
	c.Check(okAll, "drain on every non-closed path", p.Pos(rd.Pos()), "every return not taken for an already closed/closing-passively session passed the drain (incl. the ActiveClosing case)", "readDisconnected can return without cancelling the pending calls: "+bad)
}

func runC02_7(c *Ctx) {
	p := c.P
	asyncCall := p.Fn(Root, "session", "AsyncCall")
	mapStore := p.MethodObj("github.com/henrylee2cn/goutil", "Map", "Store")
	doneM := p.MethodObj(Root, "callCmd", "done")
	postWriteCall := p.MethodObj(Root, "pluginSingleContainer", "postWriteCall")
	stores := CallsTo(asyncCall, mapStore)
	if len(stores) != 1 {
		c.Undec("AsyncCall publication", p.Pos(asyncCall.Pos()), fmt.Sprintf("expected one callCmdMap.Store, found %d", len(stores)))
		return
	}
	ok, exits := p.MustPassBeforeExit(stores[0], func(i ssa.Instruction) bool {
		if _, isCall := i.(*ssa.Call); !isCall {
			return false
		}
		return IsCallTo(i, doneM, postWriteCall)
	}, nil)
	c.fact("must-pass")
	var path []string
	for _, e := range exits {
		path = append(path, "return without done()/postWriteCall: "+p.InstrPos(e))
	}
	c.Check(ok, "AsyncCall: published call is written or completed", p.InstrPos(stores[0]), "every normal return after publication passes postWriteCall (written) or done()",
		"AsyncCall can return after publishing the call without having written it or completed it: the call never completes", path...)
}

func runC02_8(c *Ctx) {
	p := c.P
	loop := p.Fn(Root, "session", "startReadAndHandle")
	rdM := p.MethodObj(Root, "session", "readDisconnected")
	ok := false
	for _, d := range deferredClosures(loop) {
		hasRecover := false
		Instrs(d, func(i ssa.Instruction) {
			if call, isCall := i.(*ssa.Call); isCall {
				if b, isB := call.Call.Value.(*ssa.Builtin); isB && b.Name() == "recover" {
					hasRecover = true
				}
			}
		})
		all, _ := p.MustPassFromEntry(d, func(i ssa.Instruction) bool { return IsCallTo(i, rdM) }, nil)
		if hasRecover && all {
			ok = true
		}
	}
	c.fact("must-pass")
	c.Check(ok, "read loop barrier", p.Pos(loop.Pos()), "deferred closure recovers and calls readDisconnected on every path", "startReadAndHandle has no deferred recover()+readDisconnected barrier: a panic or return of the read loop leaves pending calls hanging")
}

func runC02_9(c *Ctx) {
	p := c.P
	asyncCall := p.Fn(Root, "session", "AsyncCall")
	wgAdd := p.MethodObj("sync", "WaitGroup", "Add")
	mapStore := p.MethodObj("github.com/henrylee2cn/goutil", "Map", "Store")
	sessN, wgIdx := p.FieldIndex(Root, "session", "graceCallCmdWaitGroup")
	var adds []ssa.CallInstruction
	for _, fn := range p.ShippedFuncs() {
		for _, call := range CallsTo(fn, wgAdd) {
			if isFieldAddr(call.Common().Args[0], sessN, wgIdx) {
				adds = append(adds, call)
			}
		}
	}
	stores := CallsTo(asyncCall, mapStore)
	ok := len(adds) == 1 && len(stores) == 1 && adds[0].Parent() == asyncCall && Dominates(adds[0], stores[0])
	if ok {
		k, isC := ConstIntOf(adds[0].Common().Args[1])
		ok = isC && k == 1
	}
	c.fact("dominance")
	pos := p.Pos(asyncCall.Pos())
	if len(adds) > 0 {
		pos = p.InstrPos(adds[0])
	}
	c.Check(ok, "graceCallCmdWaitGroup Add(1) before publication", pos, "single Add(1) in AsyncCall dominating callCmdMap.Store", fmt.Sprintf("graceCallCmdWaitGroup.Add: %d site(s); must be exactly one Add(1) in AsyncCall before the call is published (Close would otherwise not wait for it or wait for ever)", len(adds)))
}

func runC02_10(c *Ctx) {
	p := c.P
	bind := p.Fn(Root, "handlerCtx", "bindReply")
	lock := p.MethodObj("sync", "Mutex", "Lock")
	unlock := p.MethodObj("sync", "Mutex", "Unlock")
	hasReply := p.MethodObj(Root, "callCmd", "hasReply")
	acquire := p.FuncObj(Root+"/utils", "AcquireArgs")
	ccN, metaIdx := p.FieldIndex(Root, "callCmd", "inputMeta")
	hcN, ccIdx := p.FieldIndex(Root, "handlerCtx", "callCmd")
	var lockCall ssa.Instruction
	Instrs(bind, func(i ssa.Instruction) {
		if call, ok := i.(*ssa.Call); ok && CalleeObj(call) == lock && isCallCmdMu(p, call.Call.Args[0]) {
			lockCall = i
		}
	})
	if lockCall == nil {
		c.Undec("bindReply re-validation", p.Pos(bind.Pos()), "cmd.mu.Lock() not found in bindReply")
		return
	}
	// the store that marks the call as replied must be on the false edge of a hasReply() test made after the lock
	var mark ssa.Instruction
	Instrs(bind, func(i ssa.Instruction) {
		st, ok := i.(*ssa.Store)
		if !ok || !isFieldAddr(st.Addr, ccN, metaIdx) {
			return
		}
		if call, ok := st.Val.(*ssa.Call); ok && CalleeObj(call) == acquire {
			mark = i
		}
	})
	ok := false
	var pendingEdge *CondEdge
	for _, e := range CondCallEdges(bind, hasReply) {
		if Dominates(lockCall, e.Call) && mark != nil && BlockDominatesInstr(e.False, mark) {
			e := e
			pendingEdge = &e
			ok = true
		}
	}
	why := "bindReply does not re-check, after locking, that the call has no reply yet: a repeated REPLY frame for the same seq binds the already completed call and handleReply completes it again (second delivery, close of a closed channel: a remote peer can crash the process)"
	if ok {
		// on the already-completed edge: unlock, clear c.callCmd, and never reach the mark
		w := &Walk{P: p, Stop: func(i ssa.Instruction) bool { return i == mark }}
		w.FromBlock(pendingEdge.True)
		unlocked, _ := false, 0
		cleared := false
		wk := &Walk{P: p, Stop: func(i ssa.Instruction) bool {
			if call, isC := i.(*ssa.Call); isC && CalleeObj(call) == unlock && isCallCmdMu(p, call.Call.Args[0]) {
				unlocked = true
			}
			if st, isSt := i.(*ssa.Store); isSt && isFieldAddr(st.Addr, hcN, ccIdx) && IsNilConst(st.Val) {
				cleared = true
			}
			return false
		}}
		wk.FromBlock(pendingEdge.True)
		// note: the true edge may be shared with the `|| !stat.OK()` disjunct; both lead to the same block
		if len(w.Hits) > 0 || !unlocked || !cleared {
			ok = false
			why = "on the already-completed edge bindReply must release cmd.mu, unbind the context (c.callCmd = nil) and not mark the call again"
		}
	}
	c.fact("dominance+path-search")
	c.Check(ok, "bindReply binds a call at most once", p.InstrPos(lockCall), "hasReply() re-checked under the lock; completed calls are released and not bound", why)
}
