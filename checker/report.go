package main

import (
	"bufio"
	"encoding/json"
	"fmt"
	"os"
	"path/filepath"
	"regexp"
	"runtime/debug"
	"sort"
	"strings"
	"time"
)

// Verdict of one rule instance.
type Verdict string

const (
	Holds     Verdict = "holds"
	Violated  Verdict = "violated"
	Undecided Verdict = "undecided"
)

// Instance is one obligation of a rule, evaluated on the current tree.
type Instance struct {
	Rule       string   `json:"rule"`
	Key        string   `json:"key"` // stable: package/function/construct, never a line
	Verdict    Verdict  `json:"verdict"`
	Pos        string   `json:"pos,omitempty"`
	Msg        string   `json:"msg,omitempty"`
	Path       []string `json:"path,omitempty"`
	Nontrivial bool     `json:"nontrivial"` // needed a dominance / path / flow / lockset fact
	Known      string   `json:"known_finding,omitempty"`
}

// Rule is a structural clause of a property.
type Rule struct {
	ID   string
	Prop string
	Text string
	// Min is the frozen minimum number of instances (confirmed by reading); fewer = fail.
	Min int
	Run func(c *Ctx)
}

// Ctx is handed to a rule while it runs.
type Ctx struct {
	P    *Prog
	rule *Rule
	out  []Instance
	// facts counts engine queries for the evidence
	Facts map[string]int
}

func (c *Ctx) add(v Verdict, key, pos, msg string, nontrivial bool, path ...string) {
	c.out = append(c.out, Instance{Rule: c.rule.ID, Key: key, Verdict: v, Pos: pos, Msg: msg, Nontrivial: nontrivial, Path: path})
}

// Hold records a discharged obligation.
func (c *Ctx) Hold(key, pos, msg string) { c.add(Holds, key, pos, msg, true) }

// HoldTrivial records a discharged obligation that needed no path/flow fact.
func (c *Ctx) HoldTrivial(key, pos, msg string) { c.add(Holds, key, pos, msg, false) }

// Viol records a violated obligation.
func (c *Ctx) Viol(key, pos, msg string, path ...string) {
	c.add(Violated, key, pos, msg, true, path...)
}

// Undec records an obligation the rule could not decide.
func (c *Ctx) Undec(key, pos, msg string) { c.add(Undecided, key, pos, msg, true) }

// Check records holds/violated depending on ok.
func (c *Ctx) Check(ok bool, key, pos, okMsg, badMsg string, path ...string) bool {
	if ok {
		c.Hold(key, pos, okMsg)
	} else {
		c.Viol(key, pos, badMsg, path...)
	}
	return ok
}

func (c *Ctx) fact(kind string) { c.Facts[kind]++ }

var rules []*Rule

func register(r *Rule) { rules = append(rules, r) }

func rulesFor(prop string) []*Rule {
	var out []*Rule
	for _, r := range rules {
		if r.Prop == prop {
			out = append(out, r)
		}
	}
	sort.Slice(out, func(i, j int) bool { return ruleLess(out[i].ID, out[j].ID) })
	return out
}

func ruleLess(a, b string) bool {
	pa, pb := strings.SplitN(a, ".", 2), strings.SplitN(b, ".", 2)
	if pa[0] != pb[0] {
		return pa[0] < pb[0]
	}
	var na, nb int
	fmt.Sscanf(pa[1], "%d", &na)
	fmt.Sscanf(pb[1], "%d", &nb)
	if na != nb {
		return na < nb
	}
	return a < b
}

// runRule evaluates one rule, turning anchor failures and panics into UNDECIDED.
func runRule(p *Prog, r *Rule) (insts []Instance, facts map[string]int) {
	c := &Ctx{P: p, rule: r, Facts: map[string]int{}}
	func() {
		defer func() {
			if e := recover(); e != nil {
				if ae, ok := e.(AnchorErr); ok {
					c.Undec("anchor", "", "anchor missing: "+ae.Msg)
					return
				}
				c.Undec("checker-panic", "", fmt.Sprintf("checker panic: %v\n%s", e, debug.Stack()))
			}
		}()
		r.Run(c)
	}()
	if len(c.out) < r.Min {
		c.Undec("instance-count", "", fmt.Sprintf("rule matched %d instance(s), fewer than the %d confirmed by reading (vacuous pass refused)", len(c.out), r.Min))
	}
	// duplicate keys get a numeric suffix so each instance is addressable
	seen := map[string]int{}
	for i := range c.out {
		k := c.out[i].Key
		seen[k]++
		if seen[k] > 1 {
			c.out[i].Key = fmt.Sprintf("%s#%d", k, seen[k])
		}
	}
	return c.out, c.Facts
}

// ---------------------------------------------------------------- known findings

type knownEntry struct {
	Prop, Rule, Site, What string
}

var knownRe = regexp.MustCompile(`^known:\s+property=(\S+)\s+rule=(\S+)\s+site=(.*?)\s+::\s+(.*)$`)

func loadKnown(path string) ([]knownEntry, []string, error) {
	f, err := os.Open(path)
	if err != nil {
		if os.IsNotExist(err) {
			return nil, nil, nil
		}
		return nil, nil, err
	}
	defer f.Close()
	var ks []knownEntry
	var fixed []string
	sc := bufio.NewScanner(f)
	sc.Buffer(make([]byte, 1<<20), 1<<20)
	for sc.Scan() {
		line := strings.TrimSpace(sc.Text())
		if line == "" || strings.HasPrefix(line, "#") {
			continue
		}
		if strings.HasPrefix(line, "fixed:") {
			fixed = append(fixed, line)
			continue
		}
		m := knownRe.FindStringSubmatch(line)
		if m == nil {
			return nil, nil, fmt.Errorf("known_findings: cannot parse line: %q", line)
		}
		ks = append(ks, knownEntry{m[1], m[2], m[3], m[4]})
	}
	return ks, fixed, sc.Err()
}

// ---------------------------------------------------------------- evidence

type ruleSummary struct {
	Rule      string         `json:"rule"`
	Text      string         `json:"text"`
	Instances int            `json:"instances"`
	MinFrozen int            `json:"min_instances_frozen"`
	Holds     int            `json:"holds"`
	Violated  int            `json:"violated"`
	Undecided int            `json:"undecided"`
	Known     int            `json:"known_findings"`
	Facts     map[string]int `json:"engine_facts,omitempty"`
}

type evidence struct {
	PropertyID  string                 `json:"property_id"`
	Tier        string                 `json:"tier"`
	Seed        int                    `json:"seed"`
	Level       string                 `json:"level"`
	Coverage    map[string]interface{} `json:"coverage"`
	Assumptions []string               `json:"assumptions"`
	WallS       float64                `json:"wall_s"`
	Violations  int                    `json:"violations"`
}

func writeJSON(path string, v interface{}) error {
	if err := os.MkdirAll(filepath.Dir(path), 0o755); err != nil {
		return err
	}
	b, err := json.MarshalIndent(v, "", " ")
	if err != nil {
		return err
	}
	tmp := path + ".tmp"
	if err := os.WriteFile(tmp, append(b, '\n'), 0o644); err != nil {
		return err
	}
	return os.Rename(tmp, path)
}

func safeName(s string) string {
	return regexp.MustCompile(`[^A-Za-z0-9_.-]+`).ReplaceAllString(s, "_")
}

var startTime = time.Now()
